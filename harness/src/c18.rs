//! C18: transport parameters on the REAL `qbase::param` API.
//!
//! * `C18`  — random cases: the connection-level `ArcParameters`/`Parameters` state machine for both roles
//!   (`recv` = `parse_from_bytes` + `recv_remote_params`, `scid`, `retry`, `poll`, `query`, `connerr`, both arrival
//!   orders, repeated calls) and stateless ops (`set`, `parse`, `zrtt`, `apply`, `idlecfg`, `info`).
//! * `C18t` — table cross-check of the translator against the COMPILED code: `info` for every candidate id and
//!   `set` of every id at a fixed boundary list (bounds ±1) for both roles and every value type.
//! * `C18x` — exhaustive small scope: subsets of the ids × boundary values (thorough: larger), both orders.
//!
//! Monitors know only RFC 9000 §7.3 / §7.4 / §10.1 / §18.2 (+ RFC 9221, RFC 9287, genmeta client_name), written
//! here by hand in Rust; they never consult the Lean model or the generated table.
use std::{
    net::{Ipv4Addr, Ipv6Addr, SocketAddrV4, SocketAddrV6},
    sync::{
        Arc,
        atomic::{AtomicU64, Ordering},
    },
    task::{Context, Poll, Wake, Waker},
    time::Duration,
};

use bytes::Bytes;
use qbase::{
    cid::ConnectionId,
    error::ErrorKind,
    frame::{StreamsBlockedFrame, io::SendFrame},
    net::tx::ArcSendWakers,
    param::{
        ArcParameters, ClientParameters, ParameterId, ParameterValue, ParameterValueType, Parameters,
        ServerParameters, error::Error as PErr, preferred_address::PreferredAddress,
    },
    role::Role,
    sid::ArcLocalStreamIds,
    time::ArcIdleConfig,
    token::ResetToken,
    varint::VarInt,
};

use crate::common::{Opts, Rng, Sink, catch, hex};

const VMAX: u64 = (1 << 62) - 1;

// ------------------------------------------------------------------------------------------------
// RFC table, written by hand (the monitors' own knowledge)
// ------------------------------------------------------------------------------------------------
#[derive(Clone, Copy, PartialEq, Debug)]
enum T { Int, Dur, Bool, Bytes, Cid, Token, Pref }

struct Rfc { id: u64, name: &'static str, ty: T, server_only: bool, client_only: bool, lo: u64, hi: u64 }

const fn r(id: u64, name: &'static str, ty: T, server_only: bool, lo: u64, hi: u64) -> Rfc {
    Rfc { id, name, ty, server_only, client_only: false, lo, hi }
}

/// RFC 9000 §18.2 (+ RFC 9221 max_datagram_frame_size, RFC 9287 grease_quic_bit, genmeta client_name).
const RFC: &[Rfc] = &[
    r(0x00, "original_destination_connection_id", T::Cid, true, 0, VMAX),
    r(0x01, "max_idle_timeout", T::Dur, false, 0, VMAX),
    r(0x02, "stateless_reset_token", T::Token, true, 0, VMAX),
    r(0x03, "max_udp_payload_size", T::Int, false, 1200, 65527),
    r(0x04, "initial_max_data", T::Int, false, 0, VMAX),
    r(0x05, "initial_max_stream_data_bidi_local", T::Int, false, 0, VMAX),
    r(0x06, "initial_max_stream_data_bidi_remote", T::Int, false, 0, VMAX),
    r(0x07, "initial_max_stream_data_uni", T::Int, false, 0, VMAX),
    r(0x08, "initial_max_streams_bidi", T::Int, false, 0, 1 << 60),
    r(0x09, "initial_max_streams_uni", T::Int, false, 0, 1 << 60),
    r(0x0a, "ack_delay_exponent", T::Int, false, 0, 20),
    r(0x0b, "max_ack_delay", T::Dur, false, 0, (1 << 14) - 1),
    r(0x0c, "disable_active_migration", T::Bool, false, 0, VMAX),
    r(0x0d, "preferred_address", T::Pref, true, 0, VMAX),
    r(0x0e, "active_connection_id_limit", T::Int, false, 2, VMAX),
    r(0x0f, "initial_source_connection_id", T::Cid, false, 0, VMAX),
    r(0x10, "retry_source_connection_id", T::Cid, true, 0, VMAX),
    r(0x20, "max_datagram_frame_size", T::Int, false, 0, VMAX),
    r(0x2ab2, "grease_quic_bit", T::Bool, false, 0, VMAX),
    Rfc { id: 0xffee, name: "client_name", ty: T::Bytes, server_only: false, client_only: true, lo: 0, hi: VMAX },
];
const ZERO_RTT_IDS: &[u64] = &[4, 5, 6, 7, 8, 9, 14, 32]; // RFC 9000 §7.4.1 (+ RFC 9221 §3)

fn rfc(id: u64) -> Option<&'static Rfc> { RFC.iter().find(|x| x.id == id) }
fn mandatory(sender: Role) -> &'static [u64] { if sender == Role::Server { &[0x0f, 0x00] } else { &[0x0f] } }

/// A generated value: what the harness meant + its wire bytes.
#[derive(Clone, Debug, PartialEq)]
enum V { Int(u64), Dur(u64), Bool, Bytes(Vec<u8>), Cid(Vec<u8>), Token(Vec<u8>), Pref(Vec<u8>) }

impl V {
    fn ty(&self) -> T { match self { V::Int(_) => T::Int, V::Dur(_) => T::Dur, V::Bool => T::Bool, V::Bytes(_) => T::Bytes, V::Cid(_) => T::Cid, V::Token(_) => T::Token, V::Pref(_) => T::Pref } }
    fn show(&self) -> String {
        match self { V::Int(n) => format!("v{}", n), V::Dur(n) => format!("d{}", n), V::Bool => "t".into(), V::Bytes(b) => format!("b{}", hex(b)),
            V::Cid(b) => format!("c{}", hex(b)), V::Token(b) => format!("k{}", hex(b)), V::Pref(b) => format!("p{}", hex(b)) }
    }
    fn wire(&self) -> Vec<u8> {
        match self { V::Int(n) | V::Dur(n) => enc_varint(*n), V::Bool => vec![], V::Bytes(b) | V::Cid(b) | V::Token(b) | V::Pref(b) => b.clone() }
    }
    /// The value is well-formed for its type (lengths) — what the wire format requires.
    fn well_formed(&self) -> bool {
        match self { V::Cid(b) => b.len() <= 20, V::Token(b) => b.len() == 16,
            V::Pref(b) => b.len() >= 25 && b[24] <= 20 && b.len() == 41 + b[24] as usize, _ => true }
    }
    fn to_real(&self) -> Option<ParameterValue> {
        Some(match self {
            V::Int(n) => ParameterValue::VarInt(VarInt::from_u64(*n).ok()?),
            V::Dur(n) => ParameterValue::Duration(Duration::from_millis(*n)),
            V::Bool => ParameterValue::True,
            V::Bytes(b) => ParameterValue::Bytes(Bytes::copy_from_slice(b)),
            V::Cid(b) => { if b.len() > 20 { return None; } ParameterValue::ConnectionId(ConnectionId::from_slice(b)) }
            V::Token(b) => { if b.len() != 16 { return None; } ParameterValue::ResetToken(ResetToken::new(b)) }
            V::Pref(b) => {
                if !self.well_formed() { return None; }
                let v4 = SocketAddrV4::new(Ipv4Addr::new(b[0], b[1], b[2], b[3]), u16::from_be_bytes([b[4], b[5]]));
                let mut a6 = [0u8; 16]; a6.copy_from_slice(&b[6..22]);
                let v6 = SocketAddrV6::new(Ipv6Addr::from(a6), u16::from_be_bytes([b[22], b[23]]), 0, 0);
                let l = b[24] as usize;
                ParameterValue::PreferredAddress(PreferredAddress::new(v4, v6, ConnectionId::from_slice(&b[25..25 + l]), ResetToken::new(&b[25 + l..])))
            }
        })
    }
}

/// RFC legality of (sender role, id, value): known id, role may send it, type, range, lengths.
fn rfc_legal(sender: Role, id: u64, v: &V) -> bool {
    let Some(row) = rfc(id) else { return false };
    if row.server_only && sender != Role::Server { return false; }
    if row.client_only && sender != Role::Client { return false; }
    if row.ty != v.ty() || !v.well_formed() { return false; }
    match v { V::Int(n) | V::Dur(n) => row.lo <= *n && *n <= row.hi, _ => true }
}

fn enc_varint(v: u64) -> Vec<u8> {
    if v < 1 << 6 { vec![v as u8] } else if v < 1 << 14 { ((1u16 << 14) | v as u16).to_be_bytes().to_vec() }
    else if v < 1 << 30 { ((2u32 << 30) | v as u32).to_be_bytes().to_vec() } else { ((3u64 << 62) | v).to_be_bytes().to_vec() }
}
fn enc_varint_w(v: u64, w: usize) -> Vec<u8> {
    match w { 1 => vec![v as u8], 2 => ((1u16 << 14) | v as u16).to_be_bytes().to_vec(), 4 => ((2u32 << 30) | v as u32).to_be_bytes().to_vec(), _ => ((3u64 << 62) | v).to_be_bytes().to_vec() }
}
fn enc_entry(id: u64, val: &[u8]) -> Vec<u8> {
    let mut o = enc_varint(id); o.extend(enc_varint(val.len() as u64)); o.extend_from_slice(val); o
}

// ------------------------------------------------------------------------------------------------
// observations of the real objects
// ------------------------------------------------------------------------------------------------
fn role_s(r: Role) -> &'static str { if r == Role::Client { "c" } else { "s" } }
fn ty_s(t: ParameterValueType) -> &'static str {
    match t { ParameterValueType::VarInt => "varint", ParameterValueType::Boolean => "boolean", ParameterValueType::Bytes => "bytes", ParameterValueType::Duration => "duration",
        ParameterValueType::ResetToken => "resetToken", ParameterValueType::ConnectionId => "connectionId", ParameterValueType::PreferredAddress => "preferredAddress" }
}
fn pid(id: u64) -> Option<ParameterId> { ParameterId::try_from(VarInt::from_u64(id).ok()?).ok() }

const CANDIDATES: &[u64] = &[0x11, 0x12, 0x1f, 0x21, 0x2ab1, 0x2ab3, 0xffed, 0xffef, 0x40, 0x3f, 0x4000, 1 << 30, VMAX];
fn candidate_ids() -> Vec<u64> { let mut v: Vec<u64> = (0..=0x20).collect(); v.extend(RFC.iter().map(|x| x.id)); v.extend_from_slice(CANDIDATES); v.sort(); v.dedup(); v }
fn known_ids() -> Vec<(u64, ParameterId)> { candidate_ids().into_iter().filter_map(|i| pid(i).map(|p| (i, p))).collect() }

fn real_show(v: &ParameterValue) -> String {
    match v {
        ParameterValue::VarInt(n) => format!("v{}", n.into_u64()),
        ParameterValue::Duration(d) => format!("d{}", d.as_millis()),
        ParameterValue::True => "t".into(),
        ParameterValue::Bytes(b) => format!("b{}", hex(b)),
        ParameterValue::ConnectionId(c) => format!("c{}", hex(c)),
        ParameterValue::ResetToken(t) => format!("k{}", hex(&t[..])),
        ParameterValue::PreferredAddress(p) => {
            let mut o = p.address_v4().ip().octets().to_vec(); o.extend(p.address_v4().port().to_be_bytes());
            o.extend(p.address_v6().ip().octets()); o.extend(p.address_v6().port().to_be_bytes());
            let c = p.connection_id(); o.push(c.len() as u8); o.extend_from_slice(&c); o.extend_from_slice(&p.stateless_reset_token()[..]);
            format!("p{}", hex(&o))
        }
    }
}

/// Stored entries of a role-typed parameter set, sorted by id: `id:val,…` (`-` when empty).
fn canon<R>(p: &qbase::param::core::Parameters<R>) -> (String, Vec<(u64, String)>) {
    let mut out = vec![];
    for (i, id) in known_ids() {
        if !p.contains(id) { continue; }
        let s = match id.value_type() {
            ParameterValueType::VarInt => p.get::<VarInt>(id).map(ParameterValue::VarInt),
            ParameterValueType::Duration => p.get::<Duration>(id).map(ParameterValue::Duration),
            ParameterValueType::Boolean => p.get::<bool>(id).map(|_| ParameterValue::True),
            ParameterValueType::Bytes => p.get::<Bytes>(id).map(ParameterValue::Bytes),
            ParameterValueType::ConnectionId => p.get::<ConnectionId>(id).map(ParameterValue::ConnectionId),
            ParameterValueType::ResetToken => p.get::<ResetToken>(id).map(ParameterValue::ResetToken),
            ParameterValueType::PreferredAddress => p.get::<PreferredAddress>(id).map(ParameterValue::PreferredAddress),
        };
        out.push((i, s.map(|v| real_show(&v)).unwrap_or_else(|| "?".into())));
    }
    let s = if out.is_empty() { "-".to_string() } else { out.iter().map(|(i, s)| format!("{}:{}", i, s)).collect::<Vec<_>>().join(",") };
    (s, out)
}

enum Parsed { C(ClientParameters), S(ServerParameters) }
/// parse a blob sent by `sender`: Ok(params) | Err(kind string) | panic
fn real_parse(sender: Role, blob: &[u8]) -> Result<Result<Parsed, ErrorKind>, String> {
    catch(|| match sender {
        Role::Client => ClientParameters::parse_from_bytes(blob).map(Parsed::C).map_err(|e| e.kind()),
        Role::Server => ServerParameters::parse_from_bytes(blob).map(Parsed::S).map_err(|e| e.kind()),
    })
}
fn kind_s(k: ErrorKind) -> String { if k == ErrorKind::TransportParameter { "TP".into() } else { format!("{:?}", k) } }

/// Monitor: parse outcome against the RFC, for a blob the generator built from `entries` (in wire order;
/// `wellformed` = the framing itself is intact).  Never consults the model.
fn monitor_parse(sink: &mut Sink, sender: Role, entries: &[(u64, V)], framing_ok: bool, res: &Result<Result<Parsed, ErrorKind>, String>) {
    let known: Vec<&(u64, V)> = entries.iter().filter(|(i, _)| rfc(*i).is_some()).collect();
    let dup = known.iter().enumerate().any(|(k, (i, _))| known[..k].iter().any(|(j, _)| j == i));
    let all_legal = framing_ok && known.iter().all(|(i, v)| rfc_legal(sender, *i, v));
    let mand = mandatory(sender).iter().all(|m| known.iter().any(|(i, _)| i == m));
    match res {
        Err(msg) => sink.monitor_fail(&format!("panic:parse_from_bytes:{}", panic_site(msg)), &format!("parse_from_bytes panicked on peer-controlled bytes: {}", msg)),
        Ok(Err(k)) => {
            if *k != ErrorKind::TransportParameter { sink.monitor_fail("error_kind:parse", &format!("parse error of kind {:?}, not TRANSPORT_PARAMETER_ERROR", k)); }
            if all_legal && mand && !dup {
                let special = known.iter().find(|(i, v)| (*i == 8 || *i == 9) && *v == V::Int(1 << 60));
                if special.is_some() { sink.monitor_fail("legal_rejected:initial_max_streams=2^60", "initial_max_streams_* = 2^60 (legal, RFC 9000 §4.6) rejected"); }
                else { sink.monitor_fail("legal_rejected", &format!("a parameter set that is legal per RFC 9000 §18.2 for sender {} was rejected: {:?}", role_s(sender), entries)); }
            }
        }
        Ok(Ok(_)) => {
            if !framing_ok { sink.monitor_fail("accepted_malformed", "a blob with broken framing was accepted"); }
            // with duplicates the last one wins in the implementation (RFC: SHOULD reject) — every occurrence must still be legal
            for (i, v) in &known {
                if !rfc_legal(sender, *i, v) {
                    sink.monitor_fail(&format!("accepted_illegal:{}", rfc(*i).unwrap().name), &format!("sender {}: {} = {} accepted (RFC 9000 §18.2 / §7.4 says TRANSPORT_PARAMETER_ERROR)", role_s(sender), rfc(*i).unwrap().name, v.show()));
                }
            }
            if framing_ok && !mand { sink.monitor_fail("mandatory_missing_accepted", &format!("sender {}: a mandatory parameter is absent and the set was accepted", role_s(sender))); }
        }
    }
}

fn panic_site(msg: &str) -> &'static str {
    if msg.contains("consume_all") { "trailing_bytes" }
    else if msg.contains("Only_incomplete") { "nom_error" }
    else if msg.contains("MAX_CID_SIZE") || msg.contains("range_end_index") || msg.contains("out_of_range") { "cid>20" }
    else if msg.contains("MAX_STREAMS_LIMIT") { "max_streams" }
    else if msg.contains("is_empty") { "assert_empty" }
    else if msg.contains("is_none") { "assert_replace" }
    else { "other" }
}

// ------------------------------------------------------------------------------------------------
// generators
// ------------------------------------------------------------------------------------------------
const INT_BOUNDS: &[u64] = &[0, 1, 2, 3, 19, 20, 21, 1199, 1200, 1201, 16383, 16384, 65527, 65528, (1 << 60) - 1, 1 << 60, (1 << 60) + 1, VMAX];

fn gen_cid(rng: &mut Rng, pool: &[Vec<u8>]) -> Vec<u8> {
    if !pool.is_empty() && rng.chance(3, 4) { return rng.pick(pool).clone(); }
    let n = match rng.below(8) { 0 => 0, 1 => 20, _ => rng.range(1, 19) } as usize;
    rng.bytes(n)
}
fn gen_pref(rng: &mut Rng) -> Vec<u8> {
    let l = match rng.below(4) { 0 => 0, 1 => 20, _ => rng.range(1, 19) } as usize;
    let mut o = rng.bytes(24); o.push(l as u8); o.extend(rng.bytes(l + 16)); o
}
/// a value for `row`: mostly of its type and in range, biased to bounds ±1
fn gen_value(rng: &mut Rng, row: &Rfc, pool: &[Vec<u8>], legal_only: bool) -> V {
    match row.ty {
        T::Int | T::Dur => {
            let n = if legal_only { match rng.below(4) { 0 => row.lo, 1 => if row.hi == 1 << 60 && !rng.chance(1, 10) { row.hi - 1 } else { row.hi }, 2 => row.lo + rng.below((row.hi - row.lo).min(1000) + 1), _ => rng.range(row.lo, row.hi) } }
            else { match rng.below(8) { 0 => row.lo.saturating_sub(1), 1 => row.lo, 2 => row.hi, 3 => (row.hi + 1).min(VMAX), 4 => *rng.pick(INT_BOUNDS), 5 => rng.varint62(), _ => rng.range(row.lo, row.hi) } };
            if row.ty == T::Int { V::Int(n) } else { V::Dur(n) }
        }
        T::Bool => V::Bool,
        T::Bytes => { let n = rng.below(12) as usize; V::Bytes(rng.bytes(n)) }
        T::Cid => V::Cid(gen_cid(rng, pool)),
        T::Token => V::Token(rng.bytes(16)),
        T::Pref => V::Pref(gen_pref(rng)),
    }
}

struct Blob { bytes: Vec<u8>, entries: Vec<(u64, V)>, framing_ok: bool }

/// A parameter set sent by `sender`: `flavour` 0 = legal (all mandatory present), 1 = one deviation
/// (illegal value / role-inappropriate id / mandatory missing / duplicate / unknown id), 2 = malformed bytes.
fn gen_blob(rng: &mut Rng, sender: Role, pool: &[Vec<u8>], must: &[(u64, Vec<u8>)], flavour: u64) -> Blob {
    let mut entries: Vec<(u64, V)> = vec![];
    for row in RFC {
        let allowed = !(row.server_only && sender != Role::Server) && !(row.client_only && sender != Role::Client);
        if !allowed { continue; }
        let is_mand = mandatory(sender).contains(&row.id);
        if row.id == 0x10 && !must.iter().any(|(i, _)| *i == 0x10) { if !rng.chance(1, 12) { continue; } }
        if is_mand || rng.chance(1, 2) {
            let v = match must.iter().find(|(i, _)| *i == row.id) { Some((_, c)) if rng.chance(7, 8) => V::Cid(c.clone()), _ => gen_value(rng, row, pool, true) };
            entries.push((row.id, v));
        }
    }
    // shuffle
    for k in (1..entries.len()).rev() { let j = rng.below(k as u64 + 1) as usize; entries.swap(k, j); }
    let mut framing_ok = true;
    let mut raw_override: Option<(usize, Vec<u8>)> = None;
    if flavour >= 1 {
        match rng.below(if flavour == 2 { 9 } else { 6 }) {
            0 => { // an out-of-range / boundary value
                let cands: Vec<usize> = entries.iter().enumerate().filter(|(_, (i, _))| matches!(rfc(*i).unwrap().ty, T::Int | T::Dur)).map(|(k, _)| k).collect();
                let row = if cands.is_empty() || rng.chance(1, 2) { let rows: Vec<&Rfc> = RFC.iter().filter(|x| matches!(x.ty, T::Int | T::Dur)).collect(); *rng.pick(&rows) } else { rfc(entries[*rng.pick(&cands)].0).unwrap() };
                let v = gen_value(rng, row, pool, false);
                entries.retain(|(i, _)| *i != row.id);
                let at = rng.below(entries.len() as u64 + 1) as usize; entries.insert(at, (row.id, v));
            }
            1 => { // role-inappropriate id
                let rows: Vec<&Rfc> = RFC.iter().filter(|x| (x.server_only && sender != Role::Server) || (x.client_only && sender != Role::Client)).collect();
                if !rows.is_empty() { let row = *rng.pick(&rows); let v = gen_value(rng, row, pool, true); let at = rng.below(entries.len() as u64 + 1) as usize; entries.insert(at, (row.id, v)); }
            }
            2 => { // a mandatory parameter missing
                let m = *rng.pick(mandatory(sender)); entries.retain(|(i, _)| *i != m);
            }
            3 => { // duplicate
                if !entries.is_empty() { let (i, _) = rng.pick(&entries).clone(); let lo = rng.chance(1, 2); let v = gen_value(rng, rfc(i).unwrap(), pool, lo); entries.push((i, v)); }
            }
            4 => { // unknown ids (must be ignored), also reserved 31*N+27
                let id = match rng.below(3) { 0 => 31 * rng.below(1000) + 27, 1 => *rng.pick(CANDIDATES), _ => rng.varint62() };
                if rfc(id).is_none() { let n = rng.below(6) as usize; let at = rng.below(entries.len() as u64 + 1) as usize; entries.insert(at, (id, V::Bytes(rng.bytes(n)))); }
            }
            5 => { // wrong cid (authentication must fail later)
                if let Some(e) = entries.iter_mut().find(|(i, _)| *i == 0x0f || *i == 0x00) { let n = rng.below(21) as usize; e.1 = V::Cid(rng.bytes(n)); }
            }
            6 => { // value with wrong length for its type (over-long varint, non-empty flag, long cid, short token…)
                if !entries.is_empty() {
                    let k = rng.below(entries.len() as u64) as usize;
                    let (i, v) = entries[k].clone();
                    let mut w = v.wire();
                    match rfc(i).map(|x| x.ty) {
                        Some(T::Int) | Some(T::Dur) => { if rng.chance(1, 2) { let n = 1 + rng.below(3) as usize; w.extend(rng.bytes(n)); } else { w = enc_varint_w(7, *rng.pick(&[2usize, 4, 8])); w.truncate(w.len() - 1); } }
                        Some(T::Bool) => { let n = 1 + rng.below(3) as usize; w.extend(rng.bytes(n)); }
                        Some(T::Cid) => { let n = 21 + rng.below(4) as usize; w = rng.bytes(n); }
                        Some(T::Token) => { let n = *rng.pick(&[0usize, 1, 15, 17, 32]); w = rng.bytes(n); }
                        Some(T::Pref) => { match rng.below(4) { 0 => { w.truncate(rng.below(w.len() as u64) as usize); } 1 => { w.push(0); } 2 => { w[24] = 21 + rng.below(200) as u8; } _ => { w.truncate(24); } } }
                        _ => {}
                    }
                    let vv = match v { V::Cid(_) => V::Cid(w.clone()), V::Token(_) => V::Token(w.clone()), V::Pref(_) => V::Pref(w.clone()), other => other };
                    // ints/bools with broken length: mark as framing problem (the value cannot be expressed as V)
                    if matches!(vv, V::Int(_) | V::Dur(_) | V::Bool) { framing_ok = false; }
                    entries[k] = (i, vv);
                    raw_override = Some((k, w));
                }
            }
            7 => { framing_ok = false; raw_override = Some((usize::MAX, vec![])); } // truncated blob, see below
            _ => { framing_ok = false; raw_override = Some((usize::MAX - 1, vec![])); } // length field beyond the end
        }
    }
    let mut bytes = vec![];
    for (k, (i, v)) in entries.iter().enumerate() {
        match &raw_override { Some((kk, w)) if *kk == k => bytes.extend(enc_entry(*i, w)), _ => bytes.extend(enc_entry(*i, &v.wire())) }
    }
    match raw_override {
        Some((k, _)) if k == usize::MAX => { if bytes.len() > 1 { let cut = 1 + rng.below(bytes.len() as u64 - 1) as usize; bytes.truncate(cut); } else { bytes = vec![0x40]; } }
        Some((k, _)) if k == usize::MAX - 1 => { bytes.extend(enc_varint(4)); bytes.extend(enc_varint(200)); bytes.extend(rng.bytes(3)); }
        _ => {}
    }
    // a truncated blob can by chance still be well-framed: decide by an independent framing walk
    if !framing_ok && matches!(raw_override, Some((k, _)) if k >= usize::MAX - 1) { framing_ok = false; }
    Blob { bytes, entries, framing_ok }
}

/// Independent framing walk (id varint, length varint, that many bytes) — `None` when the framing is broken.
fn walk(mut b: &[u8]) -> Option<Vec<(u64, Vec<u8>)>> {
    fn vi(b: &[u8]) -> Option<(u64, &[u8])> {
        let f = *b.first()?; let w = 1usize << (f >> 6); if b.len() < w { return None; }
        let mut v = (f & 0x3f) as u64; for x in &b[1..w] { v = (v << 8) | *x as u64; } Some((v, &b[w..]))
    }
    let mut out = vec![];
    while !b.is_empty() {
        let (id, r1) = vi(b)?; let (len, r2) = vi(r1)?; if (r2.len() as u64) < len { return None; }
        out.push((id, r2[..len as usize].to_vec())); b = &r2[len as usize..];
    }
    Some(out)
}
/// Re-derive (entries, framing_ok) of arbitrary bytes for the monitors, from the RFC table only.
fn interpret(bytes: &[u8]) -> (Vec<(u64, V)>, bool) {
    let Some(items) = walk(bytes) else { return (vec![], false) };
    let mut ok = true;
    let mut out = vec![];
    for (id, raw) in items {
        let Some(row) = rfc(id) else { out.push((id, V::Bytes(raw))); continue };
        let v = match row.ty {
            T::Int | T::Dur => { match walk_varint_exact(&raw) { Some(n) => if row.ty == T::Int { V::Int(n) } else { V::Dur(n) }, None => { ok = false; continue } } }
            T::Bool => { if !raw.is_empty() { ok = false; continue } V::Bool }
            T::Bytes => V::Bytes(raw), T::Cid => V::Cid(raw), T::Token => V::Token(raw), T::Pref => V::Pref(raw),
        };
        out.push((id, v));
    }
    (out, ok)
}
fn walk_varint_exact(b: &[u8]) -> Option<u64> {
    let f = *b.first()?; let w = 1usize << (f >> 6); if b.len() != w { return None; }
    let mut v = (f & 0x3f) as u64; for x in &b[1..w] { v = (v << 8) | *x as u64; } Some(v)
}

// ------------------------------------------------------------------------------------------------
// ops
// ------------------------------------------------------------------------------------------------
struct CountWake(AtomicU64);
impl Wake for CountWake { fn wake(self: Arc<Self>) { self.0.fetch_add(1, Ordering::SeqCst); } }

#[derive(Clone, Default)]
struct NullRec;
impl SendFrame<StreamsBlockedFrame> for NullRec { fn send_frame<I: IntoIterator<Item = StreamsBlockedFrame>>(&self, _: I) {} }

fn op_parse(sink: &mut Sink, sender: Role, blob: &[u8]) {
    let op = format!("parse {} {}", role_s(sender), hex(blob));
    sink.pending(&op);
    let res = real_parse(sender, blob);
    let (entries, framing_ok) = interpret(blob);
    monitor_parse(sink, sender, &entries, framing_ok, &res);
    match &res {
        Err(_) => { sink.branch("parse:PANIC"); sink.line(&op, "PANIC") }
        Ok(Err(k)) => { sink.branch("parse:err"); sink.line(&op, &format!("err {}", kind_s(*k))) }
        Ok(Ok(p)) => { sink.branch("parse:ok"); let c = match p { Parsed::C(p) => canon(p).0, Parsed::S(p) => canon(p).0 }; sink.line(&op, &format!("ok {}", c)) }
    }
}

fn op_set(sink: &mut Sink, role: Role, id: u64, v: &V) {
    let Some(p) = pid(id) else { return };
    let Some(real) = v.to_real() else { return };
    let op = format!("set {} {} {}", role_s(role), id, v.show());
    sink.pending(&op);
    let res = catch(|| match role {
        Role::Client => { let mut m = ClientParameters::default(); m.set(p, real.clone()).map(|_| canon(&m).0) }
        Role::Server => { let mut m = ServerParameters::default(); m.set(p, real.clone()).map(|_| canon(&m).0) }
    });
    match res {
        Err(msg) => { sink.line(&op, "PANIC"); sink.monitor_fail("panic:set", &msg); }
        Ok(Ok(c)) => {
            sink.branch("set:ok");
            // monitor: an accepted value of the id's own type must be legal for the sending role
            if rfc(id).map(|x| x.ty) == Some(v.ty()) && !rfc_legal(role, id, v) {
                sink.monitor_fail(&format!("accepted_illegal:{}", rfc(id).unwrap().name), &format!("set by role {}: {} = {} accepted", role_s(role), rfc(id).unwrap().name, v.show()));
            }
            sink.line(&op, &format!("ok {}", c));
        }
        Ok(Err(e)) => {
            let k = match e { PErr::InvalidParameterId(..) => "role", PErr::InvalidValueType(..) => "type", PErr::OutOfBounds(..) => "bounds", _ => "other" };
            sink.branch(&format!("set:err:{}", k));
            if rfc_legal(role, id, v) {
                if (id == 8 || id == 9) && *v == V::Int(1 << 60) { sink.monitor_fail("legal_rejected:initial_max_streams=2^60", "initial_max_streams_* = 2^60 (legal, RFC 9000 §4.6) rejected by set"); }
                else { sink.monitor_fail("legal_rejected", &format!("set by role {}: legal {} = {} rejected ({})", role_s(role), rfc(id).unwrap().name, v.show(), k)); }
            }
            sink.line(&op, &format!("err {}", k));
        }
    }
}

fn op_info(sink: &mut Sink, id: u64) {
    let op = format!("info {}", id);
    match pid(id) {
        None => { if rfc(id).is_some() { sink.monitor_fail("unknown_rfc_id", &format!("id {} of the RFC table is not known to the code", id)); } sink.line(&op, "unknown") }
        Some(p) => {
            let d = match p.default_value() { None => "none".to_string(), Some(v) => real_show(&v) };
            let c = p.belong_to(Role::Client).is_ok() as u8; let s = p.belong_to(Role::Server).is_ok() as u8;
            if let Some(row) = rfc(id) {
                if (c == 1) != !row.server_only || (s == 1) != !row.client_only { sink.monitor_fail(&format!("role_rule:{}", row.name), &format!("{}: client may send = {}, server may send = {} (RFC: server_only = {}, client_only = {})", row.name, c, s, row.server_only, row.client_only)); }
            }
            sink.line(&op, &format!("known ty={} dflt={} c={} s={}", ty_s(p.value_type()), d, c, s));
        }
    }
}

fn op_zrtt(sink: &mut Sink, old: &[u8], new: &[u8]) {
    let op = format!("zrtt {} {}", hex(old), hex(new));
    sink.pending(&op);
    let r = catch(|| {
        let o = ServerParameters::parse_from_bytes(old).ok()?; let n = ServerParameters::parse_from_bytes(new).ok()?;
        Some(o.is_0rtt_accepted(&n))
    });
    match r {
        Err(msg) => { sink.line(&op, "PANIC"); sink.monitor_fail(&format!("panic:zrtt:{}", panic_site(&msg)), &msg); }
        Ok(None) => sink.line(&op, "err"),
        Ok(Some(acc)) => {
            // monitor: honoured only if no limit got smaller (RFC 9000 §7.4.1); absent = default
            let eff = |b: &[u8], id: u64| -> u64 { let (e, _) = interpret(b); e.iter().rev().find(|(i, _)| *i == id).map(|(_, v)| if let V::Int(n) = v { *n } else { 0 }).unwrap_or(if id == 14 { 2 } else { 0 }) };
            let smaller: Vec<u64> = ZERO_RTT_IDS.iter().copied().filter(|id| eff(new, *id) < eff(old, *id)).collect();
            if acc && !smaller.is_empty() { sink.monitor_fail("zero_rtt_smaller_accepted", &format!("remembered parameters honoured although ids {:?} got smaller", smaller)); }
            if !acc && smaller.is_empty() { sink.monitor_fail("zero_rtt_refused_without_reason", "remembered parameters refused although no limit got smaller"); }
            sink.branch(if acc { "zrtt:acc" } else { "zrtt:rej" });
            sink.line(&op, &format!("acc={}", acc as u8));
        }
    }
}

/// `apply`: what `tls_fin_handler` does with the peer's stream limits (qrecovery `revise_params` →
/// `ArcLocalStreamIds::revise_max_streams`), here directly on the real stream-id allocator.
fn op_apply(sink: &mut Sink, sender: Role, blob: &[u8]) {
    let op = format!("apply {} {}", role_s(sender), hex(blob));
    sink.pending(&op);
    let res = real_parse(sender, blob);
    match res {
        Err(_) => sink.line(&op, "PANIC"),
        Ok(Err(k)) => sink.line(&op, &format!("err {}", kind_s(k))),
        Ok(Ok(p)) => {
            let (b, u) = match &p { Parsed::C(p) => (p.get::<u64>(ParameterId::InitialMaxStreamsBidi), p.get::<u64>(ParameterId::InitialMaxStreamsUni)), Parsed::S(p) => (p.get::<u64>(ParameterId::InitialMaxStreamsBidi), p.get::<u64>(ParameterId::InitialMaxStreamsUni)) };
            let (b, u) = (b.unwrap_or(0), u.unwrap_or(0));
            let me = !sender;
            let r = catch(|| { let l = ArcLocalStreamIds::new(me, 0, 0, NullRec, ArcSendWakers::default()); l.revise_max_streams(false, b, u); });
            match r {
                Ok(()) => { sink.branch("apply:ok"); sink.line(&op, "ok") }
                Err(msg) => { sink.branch("apply:PANIC"); sink.line(&op, "PANIC"); sink.monitor_fail("panic:revise_max_streams", &format!("accepted initial_max_streams bidi={} uni={} panic in LocalStreamIds::increase_limit: {}", b, u, msg)); }
            }
        }
    }
}

fn op_idlecfg(sink: &mut Sink, l: u64, r: u64) {
    let op = format!("idlecfg {} {}", l, r);
    let cfg = ArcIdleConfig::new(Duration::from_millis(l), Duration::ZERO);
    cfg.negotiate_max_idle_timeout(Duration::from_millis(r));
    let dbg = format!("{:?}", cfg);
    let got = dbg.split("max_idle_timeout: ").nth(1).and_then(|s| s.split(',').next()).and_then(parse_dur_debug);
    match got {
        None => sink.line(&op, &format!("max=? {}", dbg.replace(' ', "_"))),
        Some(ms) => {
            let want = match (l, r) { (0, 0) => 0, (0, x) | (x, 0) => x, (a, b) => a.min(b) };
            if ms != want as u128 { sink.monitor_fail("idle_min_nonzero:IdleConfig", &format!("local {} ms, remote {} ms: effective {} ms, RFC 9000 §10.1 says {}", l, r, ms, want)); }
            sink.line(&op, &format!("max={}", ms));
        }
    }
}

/// `Duration`'s Debug output ("1.5s", "25ms", "0ns", "3µs") → whole milliseconds (None if not whole).
fn parse_dur_debug(s: &str) -> Option<u128> {
    let s = s.trim();
    let (num, unit) = if let Some(x) = s.strip_suffix("ms") { (x, 1_000_000u128) } else if let Some(x) = s.strip_suffix("µs") { (x, 1_000) } else if let Some(x) = s.strip_suffix("ns") { (x, 1) } else if let Some(x) = s.strip_suffix('s') { (x, 1_000_000_000) } else { return None };
    let (ip, fp) = match num.split_once('.') { Some((a, b)) => (a, b), None => (num, "") };
    let mut ns = ip.parse::<u128>().ok()? * unit;
    let mut scale = unit;
    for ch in fp.chars() { scale /= 10; ns += (ch.to_digit(10)? as u128) * scale; }
    if ns % 1_000_000 != 0 { return None; }
    Some(ns / 1_000_000)
}

// ---- the connection-level object ---------------------------------------------------------------
struct Conn {
    role: Role,
    arc: ArcParameters,
    local_idle: u64,
    odcid: Vec<u8>,
    wk: Arc<CountWake>,
    pendings: u64,
    // what the monitors know (from the harness's own actions only)
    accepted: Option<Vec<(u64, V)>>, // entries of the blob whose recv returned ok (None: nothing accepted yet)
    recv_blob_legal: bool,
    observed: Option<Vec<u8>>,
    retry: Option<Vec<u8>>,
    errored: bool,
    dead: bool,
}

impl Conn {
    fn new(sink: &mut Sink, role: Role, local_idle: u64, odcid: &[u8], remembered: bool) -> Conn {
        let arc = match role {
            Role::Client => {
                let mut c = ClientParameters::default();
                c.set(ParameterId::InitialSourceConnectionId, ConnectionId::from_slice(b"me")).unwrap();
                if local_idle != 0 { c.set(ParameterId::MaxIdleTimeout, Duration::from_millis(local_idle)).unwrap(); }
                let rem = if remembered { let mut s = ServerParameters::default(); s.set(ParameterId::InitialMaxData, 1000u32).unwrap(); Some(s) } else { None };
                ArcParameters::from(Parameters::new_client(c, rem, ConnectionId::from_slice(odcid)))
            }
            Role::Server => {
                let mut s = ServerParameters::default();
                s.set(ParameterId::InitialSourceConnectionId, ConnectionId::from_slice(b"me")).unwrap();
                if local_idle != 0 { s.set(ParameterId::MaxIdleTimeout, Duration::from_millis(local_idle)).unwrap(); }
                ArcParameters::from(Parameters::new_server(s))
            }
        };
        let mut c = Conn { role, arc, local_idle, odcid: odcid.to_vec(), wk: Arc::new(CountWake(AtomicU64::new(0))), pendings: 0, accepted: None, recv_blob_legal: false, observed: None, retry: None, errored: false, dead: false };
        let t = c.tail(sink);
        sink.line(&format!("new {} {} {} {}", role_s(role), local_idle, hex(odcid), remembered as u8), &format!("ok {}", t));
        c
    }

    /// observers + the state monitors
    fn tail(&mut self, sink: &mut Sink) -> String {
        let g = match self.arc.lock_guard() { Ok(g) => g, Err(_) => return "dead".into() };
        let rcvd = g.is_remote_params_received();
        let ready = g.is_remote_params_ready();
        let rem = g.remembered().is_some();
        let idle = g.negotiated_max_idle_timeout();
        let wakes = self.wk.0.load(Ordering::SeqCst);
        let iscid = g.initial_scid_from_peer().map(|c| hex(&c)).unwrap_or_else(|| "none".into());
        drop(g);
        // --- monitors (RFC 9000 §7.3): READY only if everything the RFC demands holds ---
        if ready {
            let why = self.why_not_authenticated();
            if let Some(w) = why { sink.monitor_fail(&format!("ready_unauthenticated:{}", w.0), &format!("READY although {}", w.1)); }
            if wakes != self.pendings { sink.monitor_fail("ready_not_woken", &format!("{} tasks wait in poll_ready, only {} woken at READY", self.pendings, wakes)); }
            let ridle = self.accepted.as_ref().and_then(|e| e.iter().rev().find(|(i, _)| *i == 1).map(|(_, v)| if let V::Dur(n) = v { *n } else { 0 })).unwrap_or(0);
            let want = match (self.local_idle, ridle) { (0, 0) => None, (0, x) | (x, 0) => Some(x), (a, b) => Some(a.min(b)) };
            let got = idle.map(|d| if d == Duration::MAX { None } else { Some(d.as_millis() as u64) });
            if got != Some(want) { sink.monitor_fail("idle_min_nonzero", &format!("local {} ms, peer {} ms: negotiated {:?}, RFC 9000 §10.1 says {:?}", self.local_idle, ridle, got, want)); }
            if rem { sink.monitor_fail("remembered_kept_after_ready", "remembered parameters still offered after the real ones were authenticated"); }
        } else {
            if self.why_not_authenticated().is_none() && !self.errored { sink.monitor_fail("authenticated_not_ready", "parameters received, legal, cids observed and equal — but not READY"); }
            if idle.is_some() { sink.monitor_fail("idle_before_ready", "negotiated idle timeout available before the peer's parameters are authenticated"); }
        }
        let idle_s = match idle { None => "none".to_string(), Some(d) if d == Duration::MAX => "max".into(), Some(d) => format!("{}", d.as_millis()) };
        format!("rcvd={} ready={} rem={} idle={} wakes={} iscid={}", rcvd as u8, ready as u8, rem as u8, idle_s, wakes, iscid)
    }

    /// RFC 9000 §7.3/§7.4: None = every condition for using the connection holds.
    fn why_not_authenticated(&self) -> Option<(&'static str, String)> {
        let Some(e) = &self.accepted else { return Some(("no_params", "no peer parameters were accepted".into())) };
        if !self.recv_blob_legal { return Some(("illegal_params", "the accepted parameter set is not legal per RFC 9000 §18.2".into())); }
        let Some(obs) = &self.observed else { return Some(("no_scid", "no packet of the peer (source connection id) was seen".into())) };
        let get = |id: u64| e.iter().rev().find(|(i, _)| *i == id).map(|(_, v)| if let V::Cid(c) = v { c.clone() } else { vec![0xff; 30] });
        if get(0x0f).as_ref() != Some(obs) { return Some(("iscid", format!("declared initial_source_connection_id {:?} != observed {}", get(0x0f).map(|c| hex(&c)), hex(obs)))); }
        if self.role == Role::Client {
            if get(0x00).as_ref() != Some(&self.odcid) { return Some(("odcid", format!("declared original_destination_connection_id {:?} != {}", get(0x00).map(|c| hex(&c)), hex(&self.odcid)))); }
            if get(0x10) != self.retry { return Some(("retry_scid", format!("declared retry_source_connection_id {:?} but Retry seen: {:?}", get(0x10).map(|c| hex(&c)), self.retry.as_ref().map(|c| hex(c))))); }
        }
        None
    }

    /// returns false when the case must end (panic: the mutex is poisoned)
    fn recv(&mut self, sink: &mut Sink, blob: &Blob) -> bool {
        let op = format!("recv {}", hex(&blob.bytes));
        sink.pending(&op);
        if self.dead { let r = self.arc.lock_guard().is_err(); sink.line(&op, if r { "err conn" } else { "?" }); return true; }
        let sender = !self.role;
        let first = self.accepted.is_none() && !self.arc.lock_guard().map(|g| g.is_remote_params_received()).unwrap_or(false);
        let arc = self.arc.clone();
        let bytes = blob.bytes.clone();
        let res = catch(move || -> Result<(), ErrorKind> {
            let mut g = arc.lock_guard().map_err(|e| e.kind())?;
            match sender {
                Role::Client => { let p = ClientParameters::parse_from_bytes(&bytes).map_err(|e| e.kind())?; g.recv_remote_params(p).map_err(|e| e.kind()) }
                Role::Server => { let p = ServerParameters::parse_from_bytes(&bytes).map_err(|e| e.kind())?; g.recv_remote_params(p).map_err(|e| e.kind()) }
            }
        });
        let (entries, framing_ok) = interpret(&blob.bytes);
        let known: Vec<&(u64, V)> = entries.iter().filter(|(i, _)| rfc(*i).is_some()).collect();
        let legal = framing_ok && known.iter().all(|(i, v)| rfc_legal(sender, *i, v)) && mandatory(sender).iter().all(|m| known.iter().any(|(i, _)| i == m));
        match res {
            Err(msg) => {
                sink.branch("recv:PANIC");
                if first { sink.monitor_fail(&format!("panic:recv:{}", panic_site(&msg)), &format!("first delivery of peer parameters panicked: {}", msg)); }
                sink.line(&op, "PANIC"); false
            }
            Ok(Ok(())) => {
                sink.branch("recv:ok");
                self.accepted = Some(entries.clone()); self.recv_blob_legal = legal;
                if !legal { for (i, v) in &known { if !rfc_legal(sender, *i, v) { sink.monitor_fail(&format!("accepted_illegal:{}", rfc(*i).unwrap().name), &format!("peer {} sent {} = {}: accepted", role_s(sender), rfc(*i).unwrap().name, v.show())); } } }
                let t = self.tail(sink); sink.line(&op, &format!("ok {}", t)); true
            }
            Ok(Err(k)) => {
                sink.branch("recv:err");
                if k != ErrorKind::TransportParameter { sink.monitor_fail("error_kind:recv", &format!("error kind {:?}, not TRANSPORT_PARAMETER_ERROR", k)); }
                // a parse error leaves nothing stored; an authentication error leaves the params stored
                let stored = self.arc.lock_guard().map(|g| g.is_remote_params_received()).unwrap_or(false);
                if stored && self.accepted.is_none() { self.accepted = Some(entries.clone()); self.recv_blob_legal = legal; }
                self.errored = true;
                let t = self.tail(sink); sink.line(&op, &format!("err {} {}", kind_s(k), t)); true
            }
        }
    }

    fn scid(&mut self, sink: &mut Sink, c: &[u8]) -> bool {
        let op = format!("scid {}", hex(c));
        sink.pending(&op);
        if self.dead { let r = self.arc.lock_guard().is_err(); sink.line(&op, if r { "err conn" } else { "?" }); return true; }
        let first = self.observed.is_none();
        let arc = self.arc.clone();
        let cid = ConnectionId::from_slice(c);
        let res = catch(move || -> Result<(), ErrorKind> { let mut g = arc.lock_guard().map_err(|e| e.kind())?; g.initial_scid_from_peer_need_equal(cid).map_err(|e| e.kind()) });
        match res {
            Err(msg) => { sink.branch("scid:PANIC"); if first { sink.monitor_fail(&format!("panic:scid:{}", panic_site(&msg)), &msg); } sink.line(&op, "PANIC"); false }
            Ok(Ok(())) => { sink.branch("scid:ok"); self.observed = Some(c.to_vec()); let t = self.tail(sink); sink.line(&op, &format!("ok {}", t)); true }
            Ok(Err(k)) => {
                sink.branch("scid:err"); self.observed = Some(c.to_vec()); self.errored = true;
                if k != ErrorKind::TransportParameter { sink.monitor_fail("error_kind:scid", &format!("error kind {:?}, not TRANSPORT_PARAMETER_ERROR", k)); }
                let t = self.tail(sink); sink.line(&op, &format!("err {} {}", kind_s(k), t)); true
            }
        }
    }

    fn retry(&mut self, sink: &mut Sink, c: &[u8]) -> bool {
        let op = format!("retry {}", hex(c));
        sink.pending(&op);
        if self.dead { let r = self.arc.lock_guard().is_err(); sink.line(&op, if r { "err conn" } else { "?" }); return true; }
        let arc = self.arc.clone(); let cid = ConnectionId::from_slice(c);
        let res = catch(move || { if let Ok(mut g) = arc.lock_guard() { g.retry_scid_from_server_need_equal(cid) } });
        match res {
            Err(_) => { sink.line(&op, "PANIC"); false }
            Ok(()) => { self.retry = Some(c.to_vec()); let t = self.tail(sink); sink.line(&op, &format!("ok {}", t)); true }
        }
    }

    fn poll(&mut self, sink: &mut Sink) {
        if self.dead { let r = self.arc.lock_guard().is_err(); sink.line("poll", if r { "err conn" } else { "?" }); return; }
        let w = Waker::from(self.wk.clone());
        let mut cx = Context::from_waker(&w);
        let r = { let mut g = self.arc.lock_guard().unwrap(); g.poll_ready(&mut cx) };
        let s = match r { Poll::Ready(()) => "ready", Poll::Pending => { self.pendings += 1; "pending" } };
        let t = self.tail(sink);
        sink.line("poll", &format!("{} {}", s, t));
    }

    fn query(&mut self, sink: &mut Sink) { let t = self.tail(sink); sink.line("query", &if t == "dead" { "err conn".to_string() } else { format!("ok {}", t) }); }

    fn connerr(&mut self, sink: &mut Sink) {
        let e: qbase::error::Error = qbase::error::QuicError::with_default_fty(ErrorKind::Internal, "harness").into();
        self.arc.on_conn_error(&e);
        self.dead = true; self.errored = true;
        sink.line("connerr", "ok");
    }
}

fn conn_case(rng: &mut Rng, sink: &mut Sink) {
    let role = if rng.chance(1, 2) { Role::Client } else { Role::Server };
    let pool: Vec<Vec<u8>> = (0..3).map(|_| { let n = rng.range(0, 20) as usize; rng.bytes(n) }).collect();
    let odcid = pool[0].clone();
    let peer_scid = pool[1].clone();
    let local_idle = match rng.below(4) { 0 => 0, 1 => rng.range(1, 100), _ => rng.range(1, 60000) };
    let remembered = role == Role::Client && rng.chance(1, 3);
    let mut c = Conn::new(sink, role, local_idle, &odcid, remembered);
    let sender = !role;
    // retry seen? (client only)
    let retry = if role == Role::Client && rng.chance(1, 6) { Some(pool[2].clone()) } else { None };
    let mut must: Vec<(u64, Vec<u8>)> = vec![(0x0f, peer_scid.clone())];
    if sender == Role::Server { must.push((0x00, odcid.clone())); if let Some(r) = &retry { must.push((0x10, r.clone())); } }
    let flavour = match rng.below(10) { 0..=5 => 0, 6..=8 => 1, _ => 2 };
    let blob = gen_blob(rng, sender, &pool, &must, flavour);
    let observed = if rng.chance(5, 6) { peer_scid.clone() } else { gen_cid(rng, &pool) };
    // the two arrival orders, with polls/queries/retry interleaved; sometimes repeated calls
    let mut plan: Vec<u8> = if rng.chance(1, 2) { vec![b'r', b's'] } else { vec![b's', b'r'] };
    sink.branch(if plan[0] == b'r' { "order:tls_first" } else { "order:packet_first" });
    if retry.is_some() { let at = rng.below(2) as usize; plan.insert(at, b't'); }
    for _ in 0..rng.below(4) { let at = rng.below(plan.len() as u64 + 1) as usize; plan.insert(at, *rng.pick(&[b'p', b'p', b'q'])); }
    if rng.chance(1, 12) { let at = rng.below(plan.len() as u64 + 1) as usize; plan.insert(at, b'e'); }
    if rng.chance(1, 10) { plan.push(*rng.pick(&[b'r', b's'])); }
    if rng.chance(1, 15) && role == Role::Server { plan.push(b't'); }
    plan.push(b'p');
    let mut nontrivial = (false, false);
    for k in plan {
        let alive = match k {
            b'r' => { nontrivial.0 = true; c.recv(sink, &blob) }
            b's' => { nontrivial.1 = true; c.scid(sink, &observed) }
            b't' => c.retry(sink, retry.as_ref().unwrap_or(&pool[2])),
            b'p' => { c.poll(sink); true }
            b'q' => { c.query(sink); true }
            _ => { c.connerr(sink); true }
        };
        if !alive { break; }
    }
    if nontrivial.0 && nontrivial.1 { sink.nontrivial(); }
}

fn stateless_case(rng: &mut Rng, sink: &mut Sink) {
    let pool: Vec<Vec<u8>> = (0..2).map(|_| { let n = rng.range(0, 20) as usize; rng.bytes(n) }).collect();
    for _ in 0..rng.range(2, 6) {
        let sender = if rng.chance(1, 2) { Role::Client } else { Role::Server };
        match rng.below(10) {
            0..=3 => { let fl = rng.below(3); let b = gen_blob(rng, sender, &pool, &[], fl); sink.branch(&format!("blob:flavour{}", fl)); op_parse(sink, sender, &b.bytes); sink.nontrivial(); }
            4 | 5 => {
                let row = rng.pick(RFC);
                let v = if rng.chance(4, 5) { gen_value(rng, row, &pool, false) } else { let other = rng.pick(RFC); gen_value(rng, other, &pool, false) };
                op_set(sink, sender, row.id, &v);
            }
            6 => {
                let old = gen_blob(rng, Role::Server, &pool, &[], 0);
                // the new set: same entries, some limits changed by -1 / 0 / +1 / dropped
                let mut e = old.entries.clone();
                for (i, v) in e.iter_mut() { if ZERO_RTT_IDS.contains(i) { if let V::Int(n) = v { let row = rfc(*i).unwrap(); *n = match rng.below(4) { 0 => n.saturating_sub(1).max(row.lo), 1 => (*n + 1).min(row.hi.min((1 << 60) - 1)), _ => *n }; } } }
                if rng.chance(1, 3) { let k = rng.below(e.len() as u64) as usize; if ZERO_RTT_IDS.contains(&e[k].0) { e.remove(k); } }
                let mut nb = vec![]; for (i, v) in &e { nb.extend(enc_entry(*i, &v.wire())); }
                op_zrtt(sink, &old.bytes, &nb);
            }
            7 => { let fl = if rng.chance(1, 2) { 0 } else { 1 }; let b = gen_blob(rng, sender, &pool, &[], fl); op_apply(sink, sender, &b.bytes); }
            8 => { let (a, b, c) = (rng.range(0, 100000), rng.range(0, 100000), rng.varint62()); let l = *rng.pick(&[0u64, 1, 30000, a]); let r = *rng.pick(&[0u64, 1, 30000, b, c]); op_idlecfg(sink, l, r); }
            _ => { let id = if rng.chance(1, 2) { rng.pick(RFC).id } else { *rng.pick(&candidate_ids()) }; op_info(sink, id); }
        }
    }
}

pub fn run(o: &Opts) {
    let mut sink = Sink::new_with_stats(&o.out, &o.stats);
    for i in 0..o.cases {
        if let Some(k) = o.only_case { if k != i { continue; } }
        let mut rng = Rng::new(o.seed, i);
        sink.case(&format!("{}", i));
        if i % 3 == 2 { stateless_case(&mut rng, &mut sink) } else { conn_case(&mut rng, &mut sink) }
    }
    sink.finish(&o.stats, "2/3 connection cases (real ArcParameters, role, remembered, both arrival orders of recv/scid with retry/poll/query/connerr interleaved, repeated calls; blobs legal / one deviation / malformed), 1/3 stateless ops (parse, set, zrtt, apply, idlecfg, info); non-trivial = both recv and scid executed, or a blob parsed; distinct by transcript hash");
}

/// Table cross-check of the translator against the compiled code.
pub fn run_t(o: &Opts) {
    let mut sink = Sink::new_with_stats(&o.out, &o.stats);
    sink.case("0");
    for id in candidate_ids() { op_info(&mut sink, id); }
    let mut n = 0u64;
    for row in RFC {
        sink.case(&format!("{}", row.id + 1));
        sink.nontrivial();
        for role in [Role::Client, Role::Server] {
            for &b in INT_BOUNDS { op_set(&mut sink, role, row.id, &V::Int(b)); op_set(&mut sink, role, row.id, &V::Dur(b)); n += 2; }
            op_set(&mut sink, role, row.id, &V::Bool);
            op_set(&mut sink, role, row.id, &V::Bytes(vec![1, 2, 3]));
            op_set(&mut sink, role, row.id, &V::Cid(vec![9; 8]));
            op_set(&mut sink, role, row.id, &V::Token(vec![7; 16]));
            let mut p = vec![1u8; 24]; p.push(2); p.extend(vec![3u8; 18]);
            op_set(&mut sink, role, row.id, &V::Pref(p));
            // the same numbers through the wire
            for &b in INT_BOUNDS {
                if !matches!(row.ty, T::Int | T::Dur) { continue; }
                let mut blob = vec![];
                for m in mandatory(role) { if *m != row.id { blob.extend(enc_entry(*m, &[5, 5])); } }
                blob.extend(enc_entry(row.id, &enc_varint(b)));
                op_parse(&mut sink, role, &blob); n += 1;
            }
        }
    }
    sink.note("set_probes", serde_json::json!(n));
    sink.finish(&o.stats, "info for every candidate id; set of every id × both roles × 18 boundary numbers as VarInt and as Duration + one value of every other type; the numbers again through parse_from_bytes");
}

/// Exhaustive small scope: every subset of a id group × boundary values, both roles, both orders.
pub fn run_x(o: &Opts) {
    let mut sink = Sink::new_with_stats(&o.out, &o.stats);
    let groups: &[&[u64]] = if o.thorough() { &[&[0x00, 0x0f, 0x10, 0x02, 0x0e, 0x08], &[0x0f, 0x00, 0x03, 0x0a, 0x0b, 0x09], &[0x0f, 0x00, 0x01, 0x0c, 0xffee, 0x20]] } else { &[&[0x00, 0x0f, 0x10, 0x0b], &[0x0f, 0x00, 0x08, 0x0e]] };
    let mut id = 0u64;
    let mut complete = true;
    let a = vec![0xa1u8, 0xa2]; let b = vec![0xb1u8];
    'outer: for g in groups {
        for role in [Role::Client, Role::Server] {
            for mask in 0u32..(1 << g.len()) {
                // per present id: index into its value choices
                let choices: Vec<Vec<V>> = g.iter().enumerate().filter(|(k, _)| mask & (1 << k) != 0).map(|(_, i)| {
                    let row = rfc(*i).unwrap();
                    match row.ty {
                        T::Int | T::Dur => { let mut v = vec![row.lo, row.hi]; if row.lo > 0 { v.push(row.lo - 1); } if row.hi < VMAX { v.push(row.hi + 1); }
                            v.into_iter().map(|n| if row.ty == T::Int { V::Int(n) } else { V::Dur(n) }).collect() }
                        T::Cid => vec![V::Cid(a.clone()), V::Cid(b.clone())],
                        T::Bool => vec![V::Bool], T::Bytes => vec![V::Bytes(vec![0x61])], T::Token => vec![V::Token(vec![1; 16])], T::Pref => vec![V::Pref(vec![0; 41])],
                    }
                }).collect();
                let ids: Vec<u64> = g.iter().enumerate().filter(|(k, _)| mask & (1 << k) != 0).map(|(_, i)| *i).collect();
                let total: u64 = choices.iter().map(|c| c.len() as u64).product();
                for ci in 0..total {
                    for order in 0..2 {
                        if id >= o.cases { complete = false; break 'outer; }
                        let this = id; id += 1;
                        if let Some(w) = o.only_case { if w != this { continue; } }
                        let mut x = ci; let mut entries = vec![];
                        for (k, c) in choices.iter().enumerate() { entries.push((ids[k], c[(x % c.len() as u64) as usize].clone())); x /= c.len() as u64; }
                        let mut bytes = vec![]; for (i, v) in &entries { bytes.extend(enc_entry(*i, &v.wire())); }
                        let blob = Blob { bytes, entries, framing_ok: true };
                        sink.case(&format!("{}", this));
                        sink.nontrivial();
                        let mut c = Conn::new(&mut sink, role, 30000, &a, false);
                        let ok = if order == 0 { c.recv(&mut sink, &blob) && c.scid(&mut sink, &a) } else { c.scid(&mut sink, &a) && c.recv(&mut sink, &blob) };
                        if ok { c.poll(&mut sink); }
                    }
                }
            }
        }
    }
    sink.note("exhaustive", serde_json::json!(complete));
    sink.finish(&o.stats, "exhaustive: id groups × every present/absent subset × every combination of {lo-1, lo, hi, hi+1} (cids: equal / different from the observed one) × both roles × both arrival orders");
}

pub const RUNS: &[(&str, fn(&Opts))] = &[("C18", run), ("C18t", run_t), ("C18x", run_x)];
