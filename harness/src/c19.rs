//! C19: a real `qdatagram::DatagramFlow` pair.  Flow A is the sending endpoint (its writer was
//! created with the peer's advertised `max_datagram_frame_size` = `peer_max`), flow B the receiving
//! endpoint (`DatagramFlow::new(local_max)`).  `load` hands the real `try_load_data_into` a packet
//! buffer with exactly `remaining` bytes of room (a `BufMut + RecordFrame` like the connection's
//! `PacketWriter`); what it wrote is decoded again with the real `FrameReader`/`be_frame` and, when
//! the harness' network delivers the packet, dispatched to flow B through `ReceiveFrame::recv_frame`
//! exactly as the `pipe` task of `qconnection/src/space.rs` does.  The network may drop or reorder
//! packets (`deliver k` / `drop k`).
//!
//! Run `C19pkg` is the integration probe for DESIGN §7 item 24: it inspects the source of the tree
//! the harness was built against and reports whether `Components::packages()` offers the datagram
//! queue to the packet assembler at all.
use std::{
    collections::VecDeque,
    sync::{
        Arc,
        atomic::{AtomicUsize, Ordering},
    },
    task::{Context, Poll, Wake, Waker},
};

use bytes::{BufMut, Bytes, buf::UninitSlice};
use qbase::{
    error::{Error, ErrorKind, QuicError},
    frame::{
        DatagramFrame, Frame, FrameReader, FrameType, GetFrameType,
        io::{ReceiveFrame, WriteDataFrame},
    },
    net::tx::Signals,
    packet::{RecordFrame, r#type::{Type, short::OneRtt}},
    util::ContinuousData,
    varint::VarInt,
};
use qdatagram::{DatagramFlow, DatagramReader, DatagramWriter};

use crate::common::{Opts, Rng, Sink, catch};

// ---------------------------------------------------------------------------------------------
// packet buffer with exactly `cap` bytes of room

struct PktBuf {
    data: Box<[u8]>,
    cursor: usize,
    recorded: usize,
    recorded_other: usize,
}

impl PktBuf {
    fn new(cap: usize) -> Self {
        Self { data: vec![0xAA; cap].into_boxed_slice(), cursor: 0, recorded: 0, recorded_other: 0 }
    }
    fn written(&self) -> &[u8] {
        &self.data[..self.cursor]
    }
}

unsafe impl BufMut for PktBuf {
    fn remaining_mut(&self) -> usize {
        self.data.len() - self.cursor
    }
    unsafe fn advance_mut(&mut self, cnt: usize) {
        if cnt > self.remaining_mut() {
            panic!("advance out of bounds: {} > {}", cnt, self.remaining_mut());
        }
        self.cursor += cnt;
    }
    fn chunk_mut(&mut self) -> &mut UninitSlice {
        UninitSlice::new(&mut self.data[self.cursor..])
    }
}

impl<D: ContinuousData> RecordFrame<Frame<D>, D> for PktBuf {
    fn record_frame(&mut self, frame: &Frame<D>) {
        match frame.frame_type() {
            FrameType::Datagram(_) => self.recorded += 1,
            _ => self.recorded_other += 1,
        }
    }
}

// ---------------------------------------------------------------------------------------------
// helpers shared with the Lean driver (lean/GmQuic/Drv/C19.lean)

fn pat_byte(tag: u64, i: u64) -> u8 {
    if tag % 2 == 0 {
        match (tag / 2 + i) % 4 {
            0 => 0x31,
            1 => 0x00,
            2 => 0x30,
            _ => ((i * 131 + tag * 29) % 256) as u8,
        }
    } else {
        ((i * 131 + tag * 29 + i / 251) % 256) as u8
    }
}

fn pat(tag: u64, n: u64) -> Bytes {
    Bytes::from((0..n).map(|i| pat_byte(tag, i)).collect::<Vec<u8>>())
}

fn fnv(bs: &[u8]) -> String {
    let mut h: u64 = 0xcbf29ce484222325;
    for b in bs {
        h = (h ^ *b as u64).wrapping_mul(0x100000001b3);
    }
    format!("{:016x}", h)
}


/// Monitor failures are reported with their full trace for the first few occurrences of a key and
/// only counted afterwards (the exhaustive grid can hit one known finding 10^5 times).
static MF_COUNTS: std::sync::Mutex<Option<std::collections::BTreeMap<String, u64>>> = std::sync::Mutex::new(None);

fn mfail(sink: &mut Sink, key: &str, what: &str) {
    let mut g = MF_COUNTS.lock().unwrap();
    let m = g.get_or_insert_with(Default::default);
    let c = m.entry(key.to_string()).or_insert(0);
    *c += 1;
    if *c <= 8 {
        sink.monitor_fail(key, what);
    }
}

fn mf_note(sink: &mut Sink) {
    let g = MF_COUNTS.lock().unwrap();
    if let Some(m) = g.as_ref() {
        sink.note("monitor_failure_counts", serde_json::json!(m));
    }
}

struct Counter(AtomicUsize);
impl Wake for Counter {
    fn wake(self: Arc<Self>) {
        self.0.fetch_add(1, Ordering::SeqCst);
    }
}

fn kind_str(k: ErrorKind) -> &'static str {
    if k == ErrorKind::ProtocolViolation { "PV" } else { "OTHER" }
}

fn io_kind(e: &std::io::Error) -> String {
    match e.get_ref().and_then(|x| x.downcast_ref::<Error>()) {
        Some(qe) => kind_str(qe.kind()).to_string(),
        None => format!("io:{:?}", e.kind()),
    }
}

fn mk_err(k: &str) -> Error {
    let kind = if k == "PV" { ErrorKind::ProtocolViolation } else { ErrorKind::Internal };
    QuicError::new(kind, FrameType::Datagram(0).into(), "harness").into()
}

fn one_rtt() -> Type {
    Type::Short(OneRtt::from(0))
}

/// What one chunk of written bytes decodes to with the real `FrameReader`.
#[derive(Debug, Clone, PartialEq)]
enum Dec {
    Pad,
    Dgram { with_len: bool, payload: Bytes, wire: usize },
    Other(String),
    Err(String),
}

fn decode(bytes: &[u8]) -> Vec<Dec> {
    let mut out = vec![];
    let mut rd = FrameReader::new(Bytes::copy_from_slice(bytes), one_rtt());
    loop {
        let before = rd.len();
        match rd.next() {
            None => break,
            Some(Ok((Frame::Padding(_), _))) => out.push(Dec::Pad),
            Some(Ok((Frame::Datagram(f, d), _))) => {
                let wire = before - rd.len();
                out.push(Dec::Dgram { with_len: f.encode_len(), payload: d, wire });
            }
            Some(Ok((_, ty))) => out.push(Dec::Other(format!("{:?}", ty))),
            Some(Err(e)) => {
                out.push(Dec::Err(derr_str(&e)));
                break;
            }
        }
    }
    out
}

fn derr_str(e: &qbase::frame::error::Error) -> String {
    use qbase::frame::error::Error as FE;
    match e {
        FE::IncompleteType(_) => "IT".into(),
        FE::IncompleteFrame(..) => "IF".into(),
        FE::InvalidType(v) => format!("OT{}", v.into_u64()),
        FE::WrongType(t, _) => format!("OT{}", VarInt::from(*t).into_u64()),
        _ => "ERR".into(),
    }
}

// ---------------------------------------------------------------------------------------------

struct World {
    peer_max: u64,
    local_max: u64,
    a: DatagramFlow,
    b: DatagramFlow,
    writer: Option<DatagramWriter>,
    reader: Option<DatagramReader>,
    net: Vec<Vec<u8>>,
    wakes: Arc<Counter>,
    waker: Waker,
    // monitor state (never derived from the model)
    pending: VecDeque<Bytes>, // accepted by the writer, not yet framed
    arrived: VecDeque<Bytes>, // accepted by the receiving flow, not yet read
    a_closed: bool,
    b_closed: bool,
    tag: u64,
    // non-triviality
    frames_written: u64,
    interesting: u64,
    /// a panic was caught inside the real code: its mutexes are poisoned, the case ends here
    dead: bool,
}

impl World {
    fn new(sink: &mut Sink, peer_max: u64, local_max: u64) -> Self {
        let a = DatagramFlow::new(peer_max /* A's own receive limit: unused */, Default::default());
        let b = DatagramFlow::new(local_max, Default::default());
        let writer = a.writer(peer_max).ok();
        let reader = b.reader().ok();
        let wakes = Arc::new(Counter(AtomicUsize::new(0)));
        let waker = Waker::from(wakes.clone());
        sink.line(
            &format!("cfg {} {}", peer_max, local_max),
            &format!(
                "writer={} reader={}",
                if writer.is_some() { "ok" } else { "unsupported" },
                if reader.is_some() { "ok" } else { "unsupported" }
            ),
        );
        if writer.is_some() != (peer_max != 0) {
            mfail(sink, "writer:disabled-iff-zero", &format!("peer_max={} writer={}", peer_max, writer.is_some()));
        }
        if reader.is_some() != (local_max != 0) {
            mfail(sink, "reader:disabled-iff-zero", &format!("local_max={} reader={}", local_max, reader.is_some()));
        }
        World {
            peer_max, local_max, a, b, writer, reader, net: vec![], wakes, waker,
            pending: VecDeque::new(), arrived: VecDeque::new(), a_closed: false, b_closed: false, tag: 0,
            frames_written: 0, interesting: 0, dead: false,
        }
    }

    fn wake_count(&self) -> usize {
        self.wakes.0.load(Ordering::SeqCst)
    }

    fn getw(&mut self, sink: &mut Sink) {
        if self.dead { return; }
        let obs = match self.a.writer(self.peer_max) {
            Ok(w) => { self.writer = Some(w); "ok".to_string() }
            Err(e) if e.kind() == std::io::ErrorKind::Unsupported => "unsupported".into(),
            Err(e) => format!("closed:{}", io_kind(&e)),
        };
        sink.line("getw", &obs);
    }

    fn getr(&mut self, sink: &mut Sink) {
        if self.dead { return; }
        let obs = match self.b.reader() {
            Ok(r) => { self.reader = Some(r); "ok".to_string() }
            Err(e) if e.kind() == std::io::ErrorKind::Unsupported => "unsupported".into(),
            Err(e) => format!("closed:{}", io_kind(&e)),
        };
        sink.line("getr", &obs);
    }

    fn send(&mut self, sink: &mut Sink, n: u64) {
        if self.dead { return; }
        let tag = self.tag;
        self.tag += 1;
        let op = format!("send {} {}", n, tag);
        let Some(w) = self.writer.as_ref() else {
            sink.branch("send:nowriter");
            sink.line(&op, "nowriter");
            return;
        };
        let data = pat(tag, n);
        sink.pending(&op);
        let obs = match catch(|| w.send_bytes(data.clone())) {
            Err(p) => { self.dead = true; mfail(sink, "panic:send_bytes", &p); "PANIC".to_string() }
            Ok(Ok(())) => {
                // RFC 9221 §3: max_datagram_frame_size bounds the whole frame (type + optional length
                // + payload); the smallest frame carrying n bytes is 1 + n.
                if 1 + n > self.peer_max {
                    mfail(sink, "refuse:accepted-cannot-fit", &format!("datagram of {} bytes accepted, smallest frame {} > peer limit {}", n, 1 + n, self.peer_max));
                }
                if self.a_closed {
                    mfail(sink, "send:accepted-after-close", "datagram accepted on a closed connection");
                }
                self.pending.push_back(data);
                sink.branch("send:queued");
                "queued".into()
            }
            Ok(Err(e)) if e.kind() == std::io::ErrorKind::InvalidInput => {
                // a refusal is "not at all" and therefore allowed whenever SOME encoding of the frame could
                // exceed the limit; it is a needless refusal only when even the with-length frame fits
                // (between the two bounds the exact correspondence pins the code's choice).
                let with_len = 1 + varint_size(n) + n;
                if with_len <= self.peer_max {
                    mfail(sink, "refuse:refused-but-fits", &format!("datagram of {} bytes refused, its largest frame ({} bytes, with length) fits peer limit {}", n, with_len, self.peer_max));
                }
                self.interesting += 1;
                sink.branch("send:refused");
                "refused".into()
            }
            Ok(Err(e)) => {
                if !self.a_closed {
                    mfail(sink, "send:error-on-open", &format!("{:?}", e.kind()));
                }
                sink.branch("send:closed");
                format!("closed:{}", io_kind(&e))
            }
        };
        sink.line(&op, &obs);
    }

    fn load(&mut self, sink: &mut Sink, remaining: u64, calls: u64) {
        if self.dead { return; }
        let op = format!("load {} {}", remaining, calls);
        let mut buf = PktBuf::new(remaining as usize);
        let limit = if calls == 0 { remaining + 2 } else { calls };
        let mut frames: Vec<String> = vec![];
        let mut expect_seq: Vec<Dec> = vec![];
        let mut end = "ok".to_string();
        let mut n_calls = 0;
        sink.pending(&op);
        while n_calls < limit {
            n_calls += 1;
            let before = buf.cursor;
            let room = buf.remaining_mut();
            let rec_before = buf.recorded;
            let head = self.pending.front().cloned();
            match catch(|| self.a.try_load_data_into(&mut buf)) {
                Err(p) => {
                    mfail(sink, "panic:try_load_data_into", &format!("remaining={} head={:?}: {}", room, head.as_ref().map(|h| h.len()), p));
                    end = "PANIC".into();
                    self.dead = true;
                    break;
                }
                Ok(Ok(())) => {
                    let chunk = buf.data[before..buf.cursor].to_vec();
                    let dec = decode(&chunk);
                    let pads = dec.iter().take_while(|d| **d == Dec::Pad).count();
                    match (&dec[pads..], head) {
                        ([Dec::Dgram { with_len, payload, wire }], Some(h)) => {
                            if *payload != h {
                                mfail(sink, "load:payload-differs", &format!("frame payload ({} bytes) is not the head datagram ({} bytes)", payload.len(), h.len()));
                            }
                            self.pending.pop_front();
                            self.frames_written += 1;
                            if !*with_len && buf.remaining_mut() != 0 {
                                mfail(sink, "load:nolen-not-last", &format!("no-length DATAGRAM frame written but {} bytes of the packet remain", buf.remaining_mut()));
                            }
                            if *wire as u64 > self.peer_max {
                                mfail(sink, 
                                    if *with_len { "frame-exceeds-peer-limit:with-length" } else { "frame-exceeds-peer-limit:no-length" },
                                    &format!("DATAGRAM frame of {} bytes (payload {}) written, peer's max_datagram_frame_size is {}", wire, payload.len(), self.peer_max));
                            }
                            if buf.recorded != rec_before + 1 {
                                mfail(sink, "load:record-count", "record_frame not called exactly once for the DATAGRAM frame");
                            }
                            frames.push(format!("{}.{}.{}", pads, if *with_len { 1 } else { 0 }, payload.len()));
                            sink.branch(&if *with_len { "load:withlen".to_string() } else { format!("load:nolen:pad{}", pads) });
                            expect_seq.extend(dec.iter().cloned());
                        }
                        (_, h) => {
                            mfail(sink, "load:not-one-frame", &format!("Ok(()) but the {} written bytes decode to {:?} (head datagram: {:?})", chunk.len(), dec.iter().take(6).collect::<Vec<_>>(), h.map(|x| x.len())));
                            frames.push(format!("?{}", chunk.len()));
                        }
                    }
                }
                Ok(Err(sig)) => {
                    if buf.cursor != before {
                        mfail(sink, "load:err-but-wrote", &format!("{:?} returned after writing {} bytes", sig, buf.cursor - before));
                    }
                    end = if sig.is_empty() { "closed".into() }
                        else if sig == Signals::TRANSPORT { "empty".into() }
                        else if sig == Signals::CONGESTION { "noroom".into() }
                        else { format!("sig{}", sig.bits()) };
                    // accepted_is_offered (component level): an open flow with a queued datagram and
                    // room for its smallest frame must write it
                    if !self.a_closed {
                        match head {
                            Some(h) if room > h.len() =>
                                mfail(sink, "load:head-fits-but-not-written", &format!("head datagram {} bytes, room {}, answer {}", h.len(), room, end)),
                            Some(_) if end != "noroom" => mfail(sink, "load:wrong-signal", &format!("head does not fit, answer {}", end)),
                            None if end != "empty" => mfail(sink, "load:wrong-signal", &format!("queue empty, answer {}", end)),
                            _ => {}
                        }
                    } else if end != "closed" {
                        mfail(sink, "load:wrong-signal", &format!("connection closed, answer {}", end));
                    }
                    sink.branch(&format!("load:{}", end));
                    break;
                }
            }
        }
        if calls == 0 && n_calls >= limit && end == "ok" {
            end = "RUNAWAY".into();
            mfail(sink, "load:runaway", "try_load_data_into kept succeeding without consuming space");
        }
        let w = buf.written().to_vec();
        if !w.is_empty() {
            // the packet as a whole must decode to the same frame sequence (nothing merged)
            if decode(&w) != expect_seq {
                mfail(sink, "load:packet-decodes-differently", "frames decoded from the whole packet differ from the frames written one by one");
            }
            self.net.push(w.clone());
        }
        sink.line(&op, &format!("frames={} end={} w={} h={}", if frames.is_empty() { "-".into() } else { frames.join(",") }, end, w.len(), fnv(&w)));
    }

    fn inject(&mut self, sink: &mut Sink, pad: u64, with_len: bool, n: u64) {
        if self.dead { return; }
        let tag = self.tag;
        self.tag += 1;
        let data = pat(tag, n);
        let mut v: Vec<u8> = vec![0; pad as usize];
        v.put_data_frame(&DatagramFrame::new(with_len, VarInt::from_u64(n).unwrap()), &data);
        sink.line(&format!("inject {} {} {} {}", pad, with_len as u8, n, tag), &format!("w={} h={}", v.len(), fnv(&v)));
        self.net.push(v);
    }

    fn deliver(&mut self, sink: &mut Sink, k: u64) {
        if self.dead { return; }
        let op = format!("deliver {}", k);
        if k as usize >= self.net.len() {
            sink.line(&op, "nopkt");
            return;
        }
        let pkt = self.net.remove(k as usize);
        let mut out: Vec<String> = vec![];
        let mut pads = 0;
        let mut derr = "none".to_string();
        let mut wake = 0;
        let flush = |pads: &mut usize, out: &mut Vec<String>| {
            if *pads > 0 { out.push(format!("P{}", pads)); *pads = 0; }
        };
        sink.pending(&op);
        let mut rd = FrameReader::new(Bytes::from(pkt), one_rtt());
        loop {
            let before = rd.len();
            match rd.next() {
                None => break,
                Some(Ok((Frame::Padding(_), _))) => pads += 1,
                Some(Ok((Frame::Datagram(f, d), _))) => {
                    flush(&mut pads, &mut out);
                    let wire = (before - rd.len()) as u64;
                    let w0 = self.wake_count();
                    let res = catch(|| self.b.recv_frame((f, d.clone())));
                    let woke = self.wake_count() - w0;
                    let (txt, stop) = match res {
                        Err(p) => { self.dead = true; mfail(sink, "panic:recv_datagram", &p); ("PANIC".to_string(), true) }
                        Ok(Ok(())) => {
                            if wire > self.local_max {
                                mfail(sink, "recv:oversize-accepted", &format!("DATAGRAM frame of {} bytes accepted, local max_datagram_frame_size is {}", wire, self.local_max));
                            }
                            if self.b_closed {
                                mfail(sink, "recv:accepted-after-close", "datagram queued on a closed connection");
                            }
                            self.arrived.push_back(d.clone());
                            sink.branch("recv:ok");
                            (format!("ok{}", woke.min(1)), false)
                        }
                        Ok(Err(e)) if self.b_closed => { sink.branch("recv:closed"); (format!("closed:{}", kind_str(e.kind())), true) }
                        Ok(Err(e)) => {
                            if e.kind() != ErrorKind::ProtocolViolation || !matches!(e, Error::Quic(_)) {
                                mfail(sink, "recv:wrong-error-kind", &format!("{:?}", e.kind()));
                            }
                            if wire <= self.local_max {
                                mfail(sink, "recv:pv-but-fits", &format!("DATAGRAM frame of {} bytes rejected, local max_datagram_frame_size is {}", wire, self.local_max));
                            }
                            self.interesting += 1;
                            sink.branch("recv:pv");
                            // `pipe` (qconnection/src/space.rs) emits Event::Failed(e) and stops; the
                            // connection reacts with Components::enter_closing → datagram_flow.on_conn_error
                            let w1 = self.wake_count();
                            self.b.on_conn_error(&e);
                            wake = (self.wake_count() - w1).min(1);
                            self.b_closed = true;
                            self.arrived.clear();
                            ("pv".to_string(), true)
                        }
                    };
                    out.push(format!("D{}:{}:{}:{}", f.encode_len() as u8, d.len(), fnv(&d), txt));
                    if stop { break; }
                }
                Some(Ok((_, ty))) => { flush(&mut pads, &mut out); out.push(format!("X{:?}", ty)); }
                Some(Err(e)) => { derr = derr_str(&e); break; }
            }
        }
        flush(&mut pads, &mut out);
        sink.line(&op, &format!("frames={} derr={} wake={}", if out.is_empty() { "-".into() } else { out.join(",") }, derr, wake));
    }

    fn drop_pkt(&mut self, sink: &mut Sink, k: u64) {
        if self.dead { return; }
        if k as usize >= self.net.len() {
            sink.line(&format!("drop {}", k), "nopkt");
        } else {
            self.net.remove(k as usize);
            sink.line(&format!("drop {}", k), "dropped");
        }
    }

    fn read(&mut self, sink: &mut Sink) {
        if self.dead { return; }
        let Some(r) = self.reader.as_ref() else {
            sink.line("read", "noreader");
            return;
        };
        sink.pending("read");
        let mut cx = Context::from_waker(&self.waker);
        let obs = match catch(|| r.poll_recv(&mut cx)) {
            Err(p) => { self.dead = true; mfail(sink, "panic:poll_recv", &p); "PANIC".to_string() }
            Ok(Poll::Ready(Ok(d))) => {
                match self.arrived.pop_front() {
                    Some(x) if x == d => {}
                    Some(x) => mfail(sink, "read:not-fifo-or-changed", &format!("read {} bytes, oldest arrived datagram has {} bytes", d.len(), x.len())),
                    None => mfail(sink, "read:from-nothing", &format!("read {} bytes but nothing had arrived", d.len())),
                }
                self.interesting += 1;
                sink.branch("read:dgram");
                format!("dgram={}:{}", d.len(), fnv(&d))
            }
            Ok(Poll::Pending) => {
                if !self.arrived.is_empty() {
                    mfail(sink, "read:pending-but-arrived", &format!("{} datagrams arrived and unread", self.arrived.len()));
                }
                sink.branch("read:pending");
                "pending".into()
            }
            Ok(Poll::Ready(Err(e))) => {
                if !self.b_closed {
                    mfail(sink, "read:error-on-open", &format!("{:?}", e.kind()));
                }
                sink.branch("read:closed");
                format!("closed:{}", io_kind(&e))
            }
        };
        sink.line("read", &obs);
    }

    fn connerr(&mut self, sink: &mut Sink, side: &str, kind: &str) {
        if self.dead { return; }
        let e = mk_err(kind);
        let w0 = self.wake_count();
        if side == "a" {
            self.a.on_conn_error(&e);
            self.a_closed = true;
            self.pending.clear();
        } else {
            self.b.on_conn_error(&e);
            self.b_closed = true;
            self.arrived.clear();
        }
        let woke = (self.wake_count() - w0).min(1);
        sink.line(&format!("connerr {} {}", side, kind), &format!("wake={}", woke));
    }

    fn finish(&self, sink: &mut Sink) {
        if self.frames_written > 0 && self.interesting > 0 {
            sink.nontrivial();
        }
    }
}

/// RFC 9000 §16 size of a varint (the monitor's own arithmetic, not the repo's `VarInt`)
fn varint_size(v: u64) -> u64 {
    if v < 1 << 6 { 1 } else if v < 1 << 14 { 2 } else if v < 1 << 30 { 4 } else { 8 }
}

// ---------------------------------------------------------------------------------------------
// generators

const LIMITS: &[u64] = &[0, 1, 2, 3, 4, 5, 62, 63, 64, 65, 66, 67, 68, 69, 100, 1199, 1200, 1201, 1500, 16383, 16384, 16385, 16386, 16387, 16388, 65535];

/// limits whose full grid (sizes 0..=L+2 × remaining 0..=1500) is enumerated in the thorough tier
pub const GRID_LIMITS: &[u64] = &[0, 1, 2, 3, 4, 62, 63, 64, 65, 66, 67, 68, 69, 130];

fn pick_size(rng: &mut Rng, limit: u64) -> u64 {
    match rng.below(10) {
        0..=3 => (limit + 2).saturating_sub(rng.below(7)), // limit-4 ..= limit+2
        4 => rng.below(4),
        5 => rng.range(60, 68),
        6 => rng.below(limit.min(1500) + 3),
        7 => rng.range(1100, 1510),
        8 => rng.below(200),
        _ => if rng.chance(1, 4) { rng.range(16380, 16390) } else { rng.below(1600) },
    }
}

fn pick_remaining(rng: &mut Rng, head: Option<u64>) -> u64 {
    match (rng.below(10), head) {
        (0..=5, Some(h)) => (h + 12).saturating_sub(rng.below(15)), // h-2 ..= h+12
        (6, _) => rng.below(3),
        (7, _) => *rng.pick(&[1200u64, 1500, 1472, 1350]),
        _ => rng.below(1501),
    }
}

/// one grid row: a fixed (limit, size), the given `remaining` values, each cell = send (when the
/// queue is empty), one `try_load_data_into`, and — when something was written — delivery and read
fn grid_row(sink: &mut Sink, limit: u64, size: u64, rems: impl Iterator<Item = u64>) {
    let mut w = World::new(sink, limit, limit);
    for rem in rems {
        if w.dead { break; }
        if w.pending.is_empty() {
            w.send(sink, size);
        }
        w.load(sink, rem, 1);
        if !w.net.is_empty() {
            w.deliver(sink, 0);
            w.read(sink);
            if w.b_closed {
                // the receiving endpoint closed (PROTOCOL_VIOLATION): start over with a fresh pair
                w.finish(sink);
                let pend = !w.pending.is_empty();
                w = World::new(sink, limit, limit);
                let _ = pend;
            }
        }
    }
    w.finish(sink);
}

fn random_history(rng: &mut Rng, sink: &mut Sink) {
    let peer_max = *rng.pick(LIMITS);
    let local_max = if rng.chance(1, 2) { peer_max } else if rng.chance(1, 2) { *rng.pick(LIMITS) } else { peer_max.saturating_sub(rng.below(4)) + rng.below(4) };
    let mut w = World::new(sink, peer_max, local_max);
    let nops = rng.range(4, 40);
    let lossy = rng.chance(1, 2);
    let reorder = rng.chance(1, 3);
    for _ in 0..nops {
        match rng.below(100) {
            0..=29 => { let n = pick_size(rng, peer_max); w.send(sink, n); }
            30..=54 => {
                let head = w.pending.front().map(|h| h.len() as u64);
                let rem = pick_remaining(rng, head);
                let calls = *rng.pick(&[1u64, 1, 0, 0, 2]);
                w.load(sink, rem, calls);
            }
            55..=72 => {
                let k = if reorder && !w.net.is_empty() { rng.below(w.net.len() as u64) } else { 0 };
                w.deliver(sink, k);
            }
            73..=77 => {
                if lossy { let k = rng.below(w.net.len() as u64 + 1); w.drop_pkt(sink, k); } else { w.deliver(sink, 0); }
            }
            78..=92 => w.read(sink),
            93..=94 => {
                let n = pick_size(rng, local_max);
                let pad = if rng.chance(1, 3) { rng.below(12) } else { 0 };
                let wl = rng.chance(1, 2);
                w.inject(sink, pad, wl, n.min(20000));
            }
            95 => w.connerr(sink, "a", *rng.pick(&["PV", "OTHER"])),
            96 => w.connerr(sink, "b", *rng.pick(&["PV", "OTHER"])),
            97 => w.getw(sink),
            98 => w.getr(sink),
            _ => { w.read(sink); w.read(sink); }
        }
    }
    // cooperative suffix: flush what is queued, deliver in order, read everything
    if rng.chance(1, 2) {
        for _ in 0..w.pending.len().min(6) { w.load(sink, 1500, 0); }
        while !w.net.is_empty() && !w.dead { w.deliver(sink, 0); }
        for _ in 0..w.arrived.len() + 1 { w.read(sink); }
    }
    w.finish(sink);
}

pub fn run(o: &Opts) {
    let mut sink = Sink::new_with_stats(&o.out, &o.stats);
    let mut cells: u64 = 0;
    for i in 0..o.cases {
        if let Some(k) = o.only_case { if k != i { continue; } }
        let mut rng = Rng::new(o.seed, i);
        sink.case(&format!("{}", i));
        if i % 3 == 0 {
            // sampled grid row
            let limit = if rng.chance(2, 3) { *rng.pick(GRID_LIMITS) } else { *rng.pick(LIMITS) };
            let size = if rng.chance(3, 4) { rng.below(limit.min(1500) + 3) } else { pick_size(&mut rng, limit) };
            let mut rems: Vec<u64> = (0..40).map(|_| pick_remaining(&mut rng, Some(size))).collect();
            rems.sort();
            cells += rems.len() as u64;
            grid_row(&mut sink, limit, size, rems.into_iter());
        } else {
            random_history(&mut rng, &mut sink);
        }
    }
    let mut exhaustive = false;
    if o.thorough() {
        // EXHAUSTIVE: every size 0..=L+2 × every remaining 0..=1500, for each L in GRID_LIMITS
        let mut id = o.cases;
        for &limit in GRID_LIMITS {
            for size in 0..=limit + 2 {
                let this = id;
                id += 1;
                if let Some(k) = o.only_case { if k != this { continue; } }
                sink.case(&format!("{}", this));
                grid_row(&mut sink, limit, size, 0..=1500);
                cells += 1501;
            }
        }
        exhaustive = o.only_case.is_none();
    }
    mf_note(&mut sink);
    sink.note("grid_cells", serde_json::json!(cells));
    sink.note("exhaustive", serde_json::json!(exhaustive));
    sink.note("exhaustive_space", serde_json::json!(format!("limits {:?} x sizes 0..=L+2 x remaining 0..=1500 (one try_load_data_into per cell, then delivery + read)", GRID_LIMITS)));
    sink.finish(&o.stats, "real DatagramFlow pair: grid rows (fixed peer limit and datagram size, a sweep of remaining-space values, each cell = send/try_load_data_into/deliver/read) and random histories of send/load/inject/deliver/drop/read/connerr with loss and reordering; non-trivial = the real loader wrote at least one DATAGRAM frame and at least one of {payload read back, refusal, PROTOCOL_VIOLATION} occurred; distinct by hash of the full transcript of the case");
}

// ---------------------------------------------------------------------------------------------
// integration probe (DESIGN §7 item 24): is the datagram queue ever offered to the assembler?

fn repo_root() -> String {
    std::env::var("GMQ_REPO").unwrap_or_else(|_| option_env!("GMQ_HARNESS_REPO").unwrap_or("/repo").to_string())
}

/// body of `fn <name>` (from its opening brace to the matching closing brace)
fn fn_body<'a>(src: &'a str, name: &str) -> Option<&'a str> {
    let at = src.find(&format!("fn {}", name))?;
    let open = at + src[at..].find('{')?;
    let mut depth = 0;
    for (i, c) in src[open..].char_indices() {
        match c {
            '{' => depth += 1,
            '}' => { depth -= 1; if depth == 0 { return Some(&src[open..open + i + 1]); } }
            _ => {}
        }
    }
    None
}

fn strip_comments(s: &str) -> String {
    s.lines().map(|l| match l.find("//") { Some(p) => &l[..p], None => l }).collect::<Vec<_>>().join("\n")
}

pub fn run_pkg(o: &Opts) {
    let mut sink = Sink::new_with_stats(&o.out, &o.stats);
    sink.case("0");
    let root = repo_root();
    let burst = std::fs::read_to_string(format!("{}/qconnection/src/path/burst.rs", root)).unwrap_or_default();
    let body = fn_body(&burst, "packages").map(strip_comments).unwrap_or_default();
    let offered_in_packages = body.contains("datagram");
    // any caller of DatagramFlow::try_load_data_into / DatagramOutgoing::try_load_data_into in qconnection?
    let mut callers = vec![];
    fn walk(dir: &std::path::Path, out: &mut Vec<std::path::PathBuf>) {
        if let Ok(rd) = std::fs::read_dir(dir) {
            for e in rd.flatten() {
                let p = e.path();
                if p.is_dir() { walk(&p, out) } else if p.extension().map(|x| x == "rs").unwrap_or(false) { out.push(p) }
            }
        }
    }
    let mut files = vec![];
    walk(std::path::Path::new(&format!("{}/qconnection/src", root)), &mut files);
    files.sort();
    let mut flow_mentions = vec![];
    for f in &files {
        let txt = strip_comments(&std::fs::read_to_string(f).unwrap_or_default());
        for (n, l) in txt.lines().enumerate() {
            if l.contains("datagram_flow") {
                let rel = f.strip_prefix(&root).unwrap_or(f).display().to_string();
                flow_mentions.push(format!("{}:{}: {}", rel, n + 1, l.trim()));
                if l.contains("try_load_data_into") || l.contains("package") { callers.push(format!("{}:{}", rel, n + 1)); }
            }
        }
    }
    let todo_markers = burst.matches("// TODO: datagram").count();
    // the two source tuples of `packages()`: `let zero_rtt_packages = Packages((…));` / `let one_rtt_packages = …`
    let segment = |name: &str| -> String {
        let Some(at) = body.find(&format!("let {}", name)) else { return String::new() };
        let rest = &body[at + 4..];
        let end = rest.find("let ").or_else(|| rest.find("DataSources")).unwrap_or(rest.len());
        rest[..end].to_string()
    };
    let (seg0, seg1) = (segment("zero_rtt_packages"), segment("one_rtt_packages"));
    let (zerortt, onertt) = (seg0.contains("datagram_flow"), seg1.contains("datagram_flow"));
    sink.line("packages", &format!("found={} offered={} callers={} todo={} onertt={} zerortt={}",
        !body.is_empty() as u8, offered_in_packages as u8, callers.len(), todo_markers, onertt as u8, zerortt as u8));
    sink.note("datagram_flow_uses_in_qconnection", serde_json::json!(flow_mentions));
    if body.is_empty() || seg1.is_empty() {
        mfail(&mut sink, "packages:not-found", "could not locate `fn packages` / `let one_rtt_packages` in qconnection/src/path/burst.rs (source left the recognised shape)");
    } else if !onertt && callers.is_empty() {
        mfail(&mut sink,
            "datagram-never-offered:packages",
            &format!("Components::packages() (qconnection/src/path/burst.rs) builds the 1-RTT data sources without the datagram queue ({} `// TODO: datagram` markers) and nothing in qconnection calls DatagramFlow::try_load_data_into: an accepted datagram is never put on the wire. uses of datagram_flow: {:?}", todo_markers, flow_mentions));
    }
    mf_note(&mut sink);
    sink.nontrivial();
    sink.finish(&o.stats, "source-level call-graph probe of the tree the harness is built against: does Components::packages() mention the datagram flow / does anything in qconnection call try_load_data_into on it");
}

pub const RUNS: &[(&str, fn(&Opts))] = &[("C19", run), ("C19pkg", run_pkg)];
