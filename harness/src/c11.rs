//! C11: flow control.
//!
//! * `C11c` — the REAL connection-level controllers `qbase::flow::{ArcSendControler, ArcRecvController}`
//!   driven with generated histories; frames observed through a recording `SendFrame` broker, the private
//!   counters read from the derived `Debug` output.
//! * `C11w` — the window-source table extracted exhaustively from real `DataStreams` (see `c11w.rs`).
//! * `C11s` — stream level: real `DataStreams` sender/receiver (see `c11s.rs`).
use std::sync::{Arc, Mutex};

use qbase::{
    error::{Error, ErrorFrameType, ErrorKind, QuicError},
    flow::{ArcRecvController, ArcSendControler, Credit},
    frame::{
        DataBlockedFrame, FrameType, MaxDataFrame, StreamCtlFrame,
        io::{ReceiveFrame, SendFrame},
    },
    net::tx::ArcSendWakers,
    varint::VarInt,
};

use crate::common::{catch, Opts, Rng, Sink};

/// Recording broker: every frame handed to `send_frame` is appended as a canonical token.
#[derive(Clone, Default)]
pub struct Rec(pub Arc<Mutex<Vec<String>>>);

impl std::fmt::Debug for Rec {
    fn fmt(&self, f: &mut std::fmt::Formatter<'_>) -> std::fmt::Result {
        f.write_str("Rec")
    }
}

impl Rec {
    pub fn take(&self) -> Vec<String> {
        std::mem::take(&mut *self.0.lock().unwrap())
    }
}

impl SendFrame<DataBlockedFrame> for Rec {
    fn send_frame<I: IntoIterator<Item = DataBlockedFrame>>(&self, iter: I) {
        let mut g = self.0.lock().unwrap();
        for f in iter {
            g.push(format!("DB:{}", f.limit()));
        }
    }
}

impl SendFrame<MaxDataFrame> for Rec {
    fn send_frame<I: IntoIterator<Item = MaxDataFrame>>(&self, iter: I) {
        let mut g = self.0.lock().unwrap();
        for f in iter {
            g.push(format!("MD:{}", f.max_data()));
        }
    }
}

impl SendFrame<StreamCtlFrame> for Rec {
    fn send_frame<I: IntoIterator<Item = StreamCtlFrame>>(&self, iter: I) {
        let mut g = self.0.lock().unwrap();
        for f in iter {
            g.push(match f {
                StreamCtlFrame::MaxStreamData(m) => format!("MSD:{}:{}", u64::from(m.stream_id()), m.max_stream_data()),
                StreamCtlFrame::StreamDataBlocked(b) => format!("SDB:{}:{}", u64::from(b.stream_id()), b.maximum_stream_data()),
                StreamCtlFrame::ResetStream(r) => format!("RST:{}:{}", u64::from(r.stream_id()), r.final_size()),
                StreamCtlFrame::StopSending(s) => format!("STOP:{}", u64::from(s.stream_id())),
                StreamCtlFrame::MaxStreams(_) => "MS".to_string(),
                StreamCtlFrame::StreamsBlocked(_) => "SB".to_string(),
            });
        }
    }
}

/// `name: <u64>` field of a derived `Debug` rendering.
pub fn dbg_field(d: &str, name: &str) -> Option<u64> {
    let key = format!("{}: ", name);
    let p = d.find(&key)? + key.len();
    let rest = &d[p..];
    let e = rest.find(|c: char| !c.is_ascii_digit()).unwrap_or(rest.len());
    rest[..e].parse().ok()
}

/// (sent_data, max_data, flow_limited) of a live controller, `None` once it is `Err`.
pub fn send_state<TX: std::fmt::Debug>(c: &ArcSendControler<TX>) -> Option<(u64, u64, bool)> {
    let d = format!("{:?}", c);
    if !d.contains("Ok(SendControler") {
        return None;
    }
    Some((dbg_field(&d, "sent_data")?, dbg_field(&d, "max_data")?, d.contains("flow_limited: true")))
}

pub fn conn_error() -> Error {
    QuicError::new(ErrorKind::Internal, ErrorFrameType::V1(FrameType::Padding), "verif").into()
}

fn s_tail(c: &ArcSendControler<Rec>, open: usize) -> String {
    match send_state(c) {
        Some((s, m, l)) => format!("sent={} max={} lim={} open={}", s, m, if l { 1 } else { 0 }, open),
        None => format!("closed open={}", open),
    }
}

fn r_tail(c: &ArcRecvController<Rec>) -> String {
    let d = format!("{:?}", c);
    format!(
        "rcvd={} max={} step={}",
        dbg_field(&d, "rcvd_data").unwrap_or(u64::MAX),
        dbg_field(&d, "max_data").unwrap_or(u64::MAX),
        dbg_field(&d, "step").unwrap_or(u64::MAX)
    )
}

const VMAX: u64 = (1 << 62) - 1;

fn pick_limit(rng: &mut Rng) -> u64 {
    match rng.below(20) {
        0 | 1 => 0,
        2 => 1,
        3 => 2,
        4 => 3,
        5..=12 => rng.range(4, 300),
        13..=16 => rng.range(301, 70_000),
        17 => VMAX,
        18 => VMAX - rng.below(4),
        _ => rng.varint62(),
    }
}

fn one_case_c(rng: &mut Rng, sink: &mut Sink) {
    let m0s = pick_limit(rng);
    let m0r = pick_limit(rng);
    let sb = Rec::default();
    let rb = Rec::default();
    let sc: ArcSendControler<Rec> = ArcSendControler::new(m0s, sb.clone(), ArcSendWakers::default());
    let rc: ArcRecvController<Rec> = ArcRecvController::new(m0r, rb.clone());
    sink.line(&format!("init {} {}", m0s, m0r), "ok");

    // independent bookkeeping for the monitors (never consults the model)
    let mut lim = m0s; // limit most recently granted by the (simulated) peer
    let mut fresh_epoch: u128 = 0; // fresh bytes reported since the last 0-RTT rejection
    let mut posted: u128 = 0; // all bytes ever reported fresh
    let mut rejected = false;
    let mut closed = false;
    let mut adv = m0r; // largest limit advertised to the peer
    let mut rtotal: u128 = 0;
    let mut rdead = false;

    let mut credits: Vec<Credit<'_, Rec>> = vec![];
    let mut cepoch: Vec<u32> = vec![]; // 0-RTT epoch in which each credit was obtained
    let mut epoch = 0u32;
    let mut limited_seen = false;
    let mut returned_seen = false;
    let mut posted_seen = false;

    let nops = rng.range(3, 36);
    let mut script: Vec<u8> = (0..nops).map(|_| rng.below(100) as u8).collect();
    script.push(255); // drain marker
    let mut poisoned = false;
    let mut i = 0;
    while i < script.len() && !poisoned {
        let c = script[i];
        i += 1;
        let cur = send_state(&sc);
        let room = cur.map(|(s, m, _)| m.saturating_sub(s)).unwrap_or(0);
        if c == 255 {
            // drain: drop every live credit (oldest first) so that the credit_returned monitor is evaluated
            while !credits.is_empty() && !poisoned {
                let a = credits[0].available();
                let cr = credits.remove(0);
                cepoch.remove(0);
                let r = catch(move || drop(cr));
                match r {
                    Ok(()) => sink.line("drop 0", &format!("ok {}", s_tail(&sc, credits.len()))),
                    Err(_) => {
                        sink.line("drop 0", "PANIC");
                        sink.monitor_fail(if rejected { "panic:send:avaliable-after-rejected-revise" } else { "panic:send:drop" }, "dropping a Credit panicked");
                        poisoned = true;
                    }
                }
                if a > 0 { returned_seen = true; }
            }
        } else if c < 30 {
            // credit
            let q = match rng.below(8) {
                0 => 0,
                1 => room,
                2 => room + 1,
                3 => room.saturating_sub(1),
                4 => rng.range(1, 1500),
                5 => rng.below(room.max(1) + 1),
                6 => rng.varint62(),
                _ => rng.range(1, 64),
            };
            let op = format!("credit {}", q);
            sink.pending(&op);
            match catch(|| sc.credit(q as usize)) {
                Ok(Ok(cr)) => {
                    let fr = sb.take();
                    let f = if fr.is_empty() { String::new() } else { format!(" frame={}", fr.join(",")) };
                    if (cr.available() as u64) < q { limited_seen = true; sink.branch("credit:limited"); } else { sink.branch("credit:full"); }
                    if (cr.available() as u64) > q { sink.monitor_fail("credit_exceeds_quota", "credit larger than requested"); }
                    let a = cr.available();
                    credits.push(cr);
                    cepoch.push(epoch);
                    sink.line(&op, &format!("avail={}{} {}", a, f, s_tail(&sc, credits.len())));
                }
                Ok(Err(_)) => { sink.branch("credit:err"); sink.line(&op, &format!("err {}", s_tail(&sc, credits.len()))); if !closed { sink.monitor_fail("credit_err_on_live", "credit returned Err on a live controller"); } }
                Err(_) => {
                    sink.branch("credit:panic");
                    sink.line(&op, "PANIC");
                    if cur.map(|(_, m, _)| m <= VMAX).unwrap_or(true) {
                        sink.monitor_fail(if rejected { "panic:send:avaliable-after-rejected-revise" } else { "panic:send:credit" }, &format!("credit({}) panicked; state before: {:?}", q, cur));
                    }
                    poisoned = true;
                }
            }
        } else if c < 55 {
            if credits.is_empty() { continue; }
            let k = rng.below(credits.len() as u64) as usize;
            let a = credits[k].available() as u64;
            let n = match rng.below(10) { 0 => 0, 1 | 2 => a, 3 => a + 1 + rng.below(3), _ => rng.below(a + 1) };
            let op = format!("post {} {}", k, n);
            let cr = &mut credits[k];
            match catch(move || cr.post_sent(n as usize)) {
                Ok(()) => {
                    posted += n as u128; if cepoch[k] == epoch { fresh_epoch += n as u128; }
                    if n > 0 { posted_seen = true; }
                    sink.branch("post:ok");
                    sink.line(&op, &format!("ok {}", s_tail(&sc, credits.len())));
                }
                Err(_) => { sink.branch("post:over"); sink.line(&op, "PANIC"); if n <= a { sink.monitor_fail("panic:send:post", "post_sent within the credit panicked"); } }
            }
        } else if c < 72 {
            if credits.is_empty() { continue; }
            let k = rng.below(credits.len() as u64) as usize;
            let a = credits[k].available();
            let op = format!("drop {}", k);
            let cr = credits.remove(k);
            cepoch.remove(k);
            match catch(move || drop(cr)) {
                Ok(()) => { if a > 0 { returned_seen = true; } sink.branch("drop:ok"); sink.line(&op, &format!("ok {}", s_tail(&sc, credits.len()))); }
                Err(_) => {
                    sink.branch("drop:panic");
                    sink.line(&op, "PANIC");
                    sink.monitor_fail(if rejected { "panic:send:avaliable-after-rejected-revise" } else { "panic:send:drop" }, "dropping a Credit panicked");
                    poisoned = true;
                }
            }
        } else if c < 82 {
            let base = cur.map(|(_, m, _)| m).unwrap_or(lim);
            let m = match rng.below(6) { 0 => base, 1 => base.saturating_sub(rng.range(1, 10)), 2 => rng.below(base + 1), 3 => (base + rng.range(1, 40)).min(VMAX), 4 => (base + rng.range(1, 5000)).min(VMAX), _ => pick_limit(rng) }.min(VMAX);
            let op = format!("maxdata {}", m);
            let r = catch(|| sc.recv_frame(MaxDataFrame::new(VarInt::from_u64(m).unwrap())));
            if !closed && m > lim { lim = m; }
            match r { Ok(_) => { sink.branch("maxdata"); sink.line(&op, &format!("ok {}", s_tail(&sc, credits.len()))); } Err(_) => { sink.line(&op, "PANIC"); sink.monitor_fail("panic:send:maxdata", "recv MAX_DATA panicked"); poisoned = true; } }
        } else if c < 86 {
            let rej = rng.chance(1, 2);
            let base = cur.map(|(s, _, _)| s).unwrap_or(0);
            let m = match rng.below(5) { 0 => base, 1 => base.saturating_sub(rng.range(1, 20)), 2 => base + rng.range(1, 200), 3 => 0, _ => pick_limit(rng) }.min(VMAX);
            let op = format!("revise {} {}", if rej { 1 } else { 0 }, m);
            let r = catch(|| sc.revise_max_data(rej, m));
            if !closed {
                if rej { lim = m; fresh_epoch = 0; epoch += 1; rejected = true; sink.branch("revise:rejected"); } else { if m > lim { lim = m; } sink.branch("revise:accepted"); }
            }
            match r { Ok(_) => sink.line(&op, &format!("ok {}", s_tail(&sc, credits.len()))), Err(_) => { sink.line(&op, "PANIC"); sink.monitor_fail("panic:send:revise", "revise_max_data panicked"); poisoned = true; } }
        } else if c < 88 {
            sc.on_error(&conn_error());
            closed = true;
            sink.branch("error");
            sink.line("error", &format!("ok {}", s_tail(&sc, credits.len())));
        } else {
            if rdead { continue; }
            let left = (adv as u128).saturating_sub(rtotal) as u64;
            let n = match rng.below(10) { 0 => 0, 1 => left, 2 => left + 1, 3 => left.saturating_sub(1), 4 => left + rng.range(2, 50), 5 | 6 => rng.below(left / 2 + 1), _ => rng.below(left.min(400) + 1) };
            let op = format!("rcvd {}", n);
            let r = catch(|| rc.on_new_rcvd(FrameType::MaxData, n as usize));
            let fr = rb.take();
            rtotal += n as u128;
            let over = rtotal > adv as u128;
            // advertised_monotone
            for f in &fr {
                let v: u64 = f[3..].parse().unwrap();
                if v < adv { sink.monitor_fail("advertised_max_data_decreased", &format!("MAX_DATA {} after {}", v, adv)); }
                adv = adv.max(v);
            }
            let f = if fr.is_empty() { String::new() } else { format!(" frame={}", fr.join(",")) };
            match r {
                Ok(Ok(x)) => {
                    sink.branch(if fr.is_empty() { "rcvd:ok" } else { "rcvd:ok+MAX_DATA" });
                    if over { sink.monitor_fail("conn_over_limit_accepted", &format!("{} bytes received in total against advertised limit accepted", rtotal)); }
                    if x as u64 != n { sink.monitor_fail("rcvd_amount", "on_new_rcvd returned another amount"); }
                    sink.line(&op, &format!("ok={}{} {}", x, f, r_tail(&rc)));
                }
                Ok(Err(e)) => {
                    sink.branch("rcvd:FlowControl");
                    if !over { sink.monitor_fail("conn_within_limit_rejected", &format!("{} bytes in total rejected although the advertised limit is larger", rtotal)); }
                    if e.kind() != ErrorKind::FlowControl { sink.monitor_fail("conn_over_limit_wrong_error", &format!("{:?}", e.kind())); }
                    sink.line(&op, &format!("err={:?}{} {}", e.kind(), f, r_tail(&rc)));
                }
                Err(_) => { sink.branch("rcvd:panic"); sink.line(&op, "PANIC"); rdead = true; if adv < VMAX / 2 { sink.monitor_fail("panic:recv:on_new_rcvd", "on_new_rcvd panicked"); } }
            }
        }
        // ---- monitors on the sending side after every step -------------------------------------
        if !poisoned {
            if fresh_epoch > lim as u128 {
                sink.monitor_fail("conn_limit_exceeded", &format!("{} fresh bytes reported against a limit of {}", fresh_epoch, lim));
            }
            if credits.is_empty() && !closed {
                if let Some((s, _, _)) = send_state(&sc) {
                    if s as u128 != posted {
                        sink.monitor_fail("credit_not_returned", &format!("no credit outstanding: sent_data={} but {} bytes were reported fresh", s, posted));
                    }
                }
            }
            if let Some((s, m, _)) = send_state(&sc) {
                if !rejected && s > m { sink.monitor_fail("sent_above_max", &format!("sent_data={} max_data={}", s, m)); }
                if !rejected && m != lim { sink.monitor_fail("limit_not_applied", &format!("max_data={} but the peer granted {}", m, lim)); }
            }
        }
    }
    if poisoned {
        // a poisoned mutex makes every further Drop panic: leak the guards instead
        for c in credits.drain(..) { std::mem::forget(c); }
    }
    if limited_seen && posted_seen && returned_seen { sink.nontrivial(); }
}

pub fn run_c(o: &Opts) {
    let mut sink = Sink::new_with_stats(&o.out, &o.stats);
    for i in 0..o.cases {
        if let Some(k) = o.only_case { if k != i { continue; } }
        let mut rng = Rng::new(o.seed, i);
        sink.case(&format!("{}", i));
        one_case_c(&mut rng, &mut sink);
    }
    sink.finish(&o.stats, "random histories of credit/post_sent/drop (several Credit guards alive at once)/MAX_DATA/revise_max_data/on_error on a real ArcSendControler and on_new_rcvd on a real ArcRecvController; non-trivial = some credit was cut by the limit, some bytes were posted and some unused credit was returned; distinct by hash of the case transcript");
}

pub const RUNS: &[(&str, fn(&Opts))] = &[("C11c", run_c)];
