//! C01 — stream data is delivered reliably, in order, exactly once — on a REAL pair of
//! `qrecovery::streams::DataStreams` endpoints (client role + server role).
//!
//! The harness is the network: STREAM frames are captured from a packet target (`BufMut + RecordFrame`),
//! RESET_STREAM / STOP_SENDING / MAX_STREAM_DATA from the frame broker, and a seeded scheduler delivers,
//! duplicates, reorders, drops, acknowledges (late) or declares lost any frame ever emitted, with random
//! packet capacities.  `Writer` / `Reader` are polled with counting wakers.
//!
//! Monitors (never consult the model): bytes read == prefix of bytes written; EOF only after `shutdown`
//! and after every byte; flush/shutdown completion only when everything (and the FIN) was acknowledged;
//! no panic; and — liveness on the real objects — at the end of a schedule that eventually retransmits,
//! delivers and acknowledges everything: all bytes read, EOF seen, flush and shutdown completed, wakers woken.
use std::{
    collections::BTreeMap,
    sync::{
        Arc,
        atomic::{AtomicUsize, Ordering},
    },
    task::{Context, Poll, Wake, Waker},
};

use bytes::{BufMut, Bytes, BytesMut};
use qbase::{
    frame::{
        Frame, MaxStreamDataFrame, ResetStreamFrame, StopSendingFrame, StreamCtlFrame, StreamFrame,
    },
    packet::{Package, io::RecordFrame},
    sid::StreamId,
    util::ContinuousData,
    varint::VarInt,
};
use qrecovery::{recv::StopSending, send::CancelStream, streams::error::StreamError};

use super::c11::conn_error;
use super::c11s::{endpoint, reader_window, writer_window, Endpoint, Lim, Wiring, P6, R, W};
use crate::common::{catch, hex, Opts, Rng, Sink};

const VMAX: u64 = (1 << 62) - 1;

fn vi(v: u64) -> VarInt {
    VarInt::from_u64(v).unwrap()
}

/// Packet buffer with a hard capacity that records the STREAM frames (with payload) written into it.
pub struct Pkt {
    buf: BytesMut,
    room: usize,
    pub frames: Vec<(u64, u64, Vec<u8>, bool)>, // (sid, offset, payload, fin)
}

impl Pkt {
    pub fn new(cap: usize) -> Self {
        Pkt { buf: BytesMut::with_capacity(cap + 64), room: cap, frames: vec![] }
    }
}

unsafe impl BufMut for Pkt {
    fn remaining_mut(&self) -> usize {
        self.room
    }
    unsafe fn advance_mut(&mut self, cnt: usize) {
        unsafe { self.buf.advance_mut(cnt) };
        self.room -= cnt;
    }
    fn chunk_mut(&mut self) -> &mut bytes::buf::UninitSlice {
        if self.buf.capacity() == self.buf.len() {
            self.buf.reserve(64);
        }
        let n = self.room;
        let c = self.buf.chunk_mut();
        let l = c.len().min(n);
        &mut c[..l]
    }
}

impl<D: ContinuousData> RecordFrame<Frame<D>, D> for Pkt {
    fn record_frame(&mut self, frame: &Frame<D>) {
        if let Frame::Stream(f, d) = frame {
            self.frames.push((u64::from(f.stream_id()), f.range().start, d.to_bytes().to_vec(), f.is_fin()));
        }
    }
}

struct Cnt(AtomicUsize);
impl Wake for Cnt {
    fn wake(self: Arc<Self>) {
        self.0.fetch_add(1, Ordering::SeqCst);
    }
}
fn cwaker() -> (Arc<Cnt>, Waker) {
    let c = Arc::new(Cnt(AtomicUsize::new(0)));
    (c.clone(), Waker::from(c))
}

/// Variant name of the state behind a `Writer` / `Reader` (derived `Debug` of `Mutex<Result<State, Error>>`).
fn state_name(d: &str) -> String {
    let Some(p) = d.find("data: ") else { return "?".into() };
    let rest = &d[p + 6..];
    if rest.starts_with("Err(") {
        return "Err".into();
    }
    let Some(rest) = rest.strip_prefix("Ok(") else { return "?".into() };
    let e = rest.find(|c: char| !c.is_ascii_alphanumeric()).unwrap_or(rest.len());
    rest[..e].to_string()
}

/// One direction of a stream: a `Writer` on endpoint `snd` and the `Reader` on the other endpoint.
struct Half {
    key: String,
    sid: StreamId,
    snd: usize, // endpoint index of the sender (0 = client)
    w: W,
    r: R,
    wbytes: Vec<u8>,
    rbytes: Vec<u8>,
    shutdown_called: bool,
    emitted: Vec<(u64, Vec<u8>, bool)>,
    delivered: Vec<bool>,
    acked: Vec<bool>,
    resets: Vec<u64>,
    stops: u32,
    msds: Vec<u64>,
    msd_seen: usize,
    aborted: bool, // cancel / stop / reset / connection error happened: no liveness expectation
    eof: bool,
    read_park: Option<Arc<Cnt>>,
    shut_park: Option<Arc<Cnt>>,
    flush_park: Option<Arc<Cnt>>,
}

impl Half {
    fn sname(&self) -> String {
        state_name(&format!("{:?}", self.w))
    }
    fn rname(&self) -> String {
        state_name(&format!("{:?}", self.r))
    }
    fn acked_all(&self) -> (bool, bool) {
        // (every written byte covered by an acknowledged frame, an acknowledged frame carried the FIN)
        let mut iv: Vec<(u64, u64)> = vec![];
        let mut fin = false;
        for (i, (off, d, f)) in self.emitted.iter().enumerate() {
            if self.acked[i] {
                iv.push((*off, *off + d.len() as u64));
                fin |= *f;
            }
        }
        iv.sort();
        let mut at = 0u64;
        for (a, b) in iv {
            if a > at {
                break;
            }
            at = at.max(b);
        }
        (at >= self.wbytes.len() as u64, fin)
    }
}

struct World {
    eps: [Endpoint; 2],
    halves: Vec<Half>,
    conn_err: bool,
}

/// A panic inside the real code (caught and reported) leaves poisoned mutexes behind: `Writer::drop` /
/// `Reader::drop` would panic again on them, so the objects of such a case are leaked instead of dropped.
fn one_case(rng: &mut Rng, sink: &mut Sink, lossless: bool) {
    let mut world: Option<World> = None;
    let r = catch(|| case_body(rng, sink, lossless, &mut world));
    let panicked = sink.monitor_failures.iter().any(|m| m["key"].as_str().is_some_and(|k| k.starts_with("panic")));
    if let Err(m) = &r {
        sink.monitor_fail("panic:uncaught", &format!("the real code panicked outside a guarded call: {}", m));
    }
    if r.is_err() || panicked {
        std::mem::forget(world);
    }
}

fn werr(e: &StreamError) -> &'static str {
    match e {
        StreamError::Connection(_) => "err:Conn",
        StreamError::Reset(_) => "err:Reset",
        StreamError::EosSent => "err:EosSent",
    }
}

fn pick_win(rng: &mut Rng) -> u64 {
    match rng.below(10) {
        0 | 1 => rng.range(1, 60),
        2 | 3 | 4 => rng.range(61, 3000),
        5 | 6 | 7 => rng.range(10_000, 200_000),
        8 => rng.range(999_900, 1_000_100),
        _ => rng.range(1_999_900, 2_000_100),
    }
}

impl World {
    /// Collect the control frames the two endpoints queued for their peers.
    fn collect(&mut self, sink: &mut Sink) {
        for ep in 0..2 {
            for f in self.eps[ep].rec.take() {
                let parts: Vec<&str> = f.split(':').collect();
                match parts[0] {
                    "RST" => {
                        let sid: u64 = parts[1].parse().unwrap();
                        let fin: u64 = parts[2].parse().unwrap();
                        // sent by endpoint `ep` as the SENDER of that stream
                        if let Some(h) = self.halves.iter_mut().find(|h| u64::from(h.sid) == sid && h.snd == ep) {
                            h.resets.push(fin);
                            h.aborted = true;
                        } else {
                            sink.monitor_fail("ctl_frame_unknown_stream", &f);
                        }
                    }
                    "STOP" => {
                        let sid: u64 = parts[1].parse().unwrap();
                        // sent by endpoint `ep` as the RECEIVER
                        if let Some(h) = self.halves.iter_mut().find(|h| u64::from(h.sid) == sid && h.snd != ep) {
                            h.stops += 1;
                            h.aborted = true;
                        } else {
                            sink.monitor_fail("ctl_frame_unknown_stream", &f);
                        }
                    }
                    "MSD" => {
                        let sid: u64 = parts[1].parse().unwrap();
                        let v: u64 = parts[2].parse().unwrap();
                        if let Some(h) = self.halves.iter_mut().find(|h| u64::from(h.sid) == sid && h.snd != ep) {
                            h.msds.push(v);
                        } else {
                            sink.monitor_fail("ctl_frame_unknown_stream", &f);
                        }
                    }
                    _ => {}
                }
            }
        }
    }

    fn states(&self, ep: usize) -> String {
        let mut m: BTreeMap<u64, String> = BTreeMap::new();
        for h in &self.halves {
            if h.snd == ep {
                m.insert(u64::from(h.sid), h.sname());
            }
        }
        if m.is_empty() {
            "-".into()
        } else {
            m.iter().map(|(s, n)| format!("{}:{}", s, n)).collect::<Vec<_>>().join(",")
        }
    }

    /// Open a stream from endpoint `ep`; the peer accepts it.  Returns the indices of the new halves.
    fn open(&mut self, ep: usize, bi: bool, sink: &mut Sink) -> bool {
        let pe = 1 - ep;
        let epc = ["c", "s"];
        if bi {
            let Some((sid, r_a, w_a)) = self.eps[ep].open_bi() else { return false };
            if self.eps[pe].ds.recv_data((StreamFrame::new(sid, 0, 0), Bytes::new())).is_err() {
                sink.monitor_fail("peer_create_failed", "empty first frame rejected");
                return false;
            }
            let Some((s2, r_b, w_b)) = self.eps[pe].accept_bi() else { return false };
            assert_eq!(s2, sid);
            let s = u64::from(sid);
            let k1 = format!("{}{}", s, epc[ep]);
            let k2 = format!("{}{}", s, epc[pe]);
            sink.line(&format!("open {} {} {}", k1, writer_window(&w_a).unwrap_or(0), reader_window(&r_b).unwrap_or(0)), "ok");
            sink.line(&format!("open {} {} {}", k2, writer_window(&w_b).unwrap_or(0), reader_window(&r_a).unwrap_or(0)), "ok");
            self.halves.push(new_half(k1, sid, ep, w_a, r_b));
            self.halves.push(new_half(k2, sid, pe, w_b, r_a));
        } else {
            let Some((sid, w_a)) = self.eps[ep].open_uni() else { return false };
            if self.eps[pe].ds.recv_data((StreamFrame::new(sid, 0, 0), Bytes::new())).is_err() {
                sink.monitor_fail("peer_create_failed", "empty first frame rejected");
                return false;
            }
            let Some((s2, r_b)) = self.eps[pe].accept_uni() else { return false };
            assert_eq!(s2, sid);
            let k1 = format!("{}{}", u64::from(sid), epc[ep]);
            sink.line(&format!("open {} {} {}", k1, writer_window(&w_a).unwrap_or(0), reader_window(&r_b).unwrap_or(0)), "ok");
            self.halves.push(new_half(k1, sid, ep, w_a, r_b));
        }
        self.eps[0].rec.take();
        self.eps[1].rec.take();
        true
    }
}

fn new_half(key: String, sid: StreamId, snd: usize, w: W, r: R) -> Half {
    Half {
        key, sid, snd, w, r,
        wbytes: vec![], rbytes: vec![], shutdown_called: false,
        emitted: vec![], delivered: vec![], acked: vec![],
        resets: vec![], stops: 0, msds: vec![], msd_seen: 0,
        aborted: false, eof: false, read_park: None, shut_park: None, flush_park: None,
    }
}

// ---- single operations (each writes one transcript line and runs the monitors) ---------------------

fn op_write(wd: &mut World, i: usize, data: Vec<u8>, sink: &mut Sink) {
    let h = &mut wd.halves[i];
    let op = format!("write {} {}", h.key, hex(&data));
    let r = h.w.write(Bytes::from(data.clone()));
    match &r {
        Ok(()) => {
            if h.shutdown_called { sink.monitor_fail("write_after_shutdown_accepted", &h.key.clone()); }
            h.wbytes.extend_from_slice(&data);
            sink.line(&op, &format!("ok s={}", h.sname()));
        }
        Err(e) => sink.line(&op, &format!("{} s={}", werr(e), h.sname())),
    }
}

fn op_ready(wd: &mut World, i: usize, sink: &mut Sink) {
    let h = &mut wd.halves[i];
    let (_c, wk) = cwaker();
    let r = h.w.poll_ready(&mut Context::from_waker(&wk));
    let s = match &r { Poll::Pending => "pending", Poll::Ready(Ok(())) => "ready", Poll::Ready(Err(e)) => werr(e) };
    sink.line(&format!("ready {}", h.key), &format!("{} s={}", s, h.sname()));
}

fn op_shutdown(wd: &mut World, i: usize, sink: &mut Sink) -> bool {
    let h = &mut wd.halves[i];
    let (c, wk) = cwaker();
    let r = h.w.poll_shutdown(&mut Context::from_waker(&wk));
    let mut done = false;
    let s = match &r {
        Poll::Pending => { h.shutdown_called = true; h.shut_park = Some(c); "pending" }
        Poll::Ready(Ok(())) => {
            done = true;
            let (all, fin) = h.acked_all();
            if !(all && fin) {
                sink.monitor_fail("shutdown_completed_early", &format!("{}: shutdown completed but acked: all bytes {} fin {}", h.key, all, fin));
            }
            if let Some(p) = h.shut_park.take() {
                if p.0.load(Ordering::SeqCst) == 0 { sink.monitor_fail("wake_missing:shutdown", &h.key.clone()); }
            }
            "ready"
        }
        Poll::Ready(Err(e)) => werr(e),
    };
    sink.line(&format!("shutdown {}", h.key), &format!("{} s={}", s, h.sname()));
    done
}

fn op_flush(wd: &mut World, i: usize, sink: &mut Sink) -> bool {
    let h = &mut wd.halves[i];
    let (c, wk) = cwaker();
    let r = h.w.poll_flush(&mut Context::from_waker(&wk));
    let mut done = false;
    let s = match &r {
        Poll::Pending => { h.flush_park = Some(c); "pending" }
        Poll::Ready(Ok(())) => {
            done = true;
            let (all, _) = h.acked_all();
            if !all {
                sink.monitor_fail("flush_completed_early", &format!("{}: flush completed but not every written byte was acknowledged", h.key));
            }
            if let Some(p) = h.flush_park.take() {
                if p.0.load(Ordering::SeqCst) == 0 { sink.monitor_fail("wake_missing:flush", &h.key.clone()); }
            }
            "ready"
        }
        Poll::Ready(Err(e)) => werr(e),
    };
    sink.line(&format!("flush {}", h.key), &format!("{} s={}", s, h.sname()));
    done
}

/// Assemble one STREAM frame on endpoint `ep`.  Returns whether a frame was produced.
fn op_load(wd: &mut World, ep: usize, cap: usize, sink: &mut Sink) -> bool {
    let epc = ["c", "s"];
    let op = format!("load {} {}", epc[ep], cap);
    sink.pending(&op);
    let mut pkt = Pkt::new(cap);
    let e = &wd.eps[ep];
    let mut pk = (*e.ds).package(e.fc.clone(), false);
    let r = catch(|| pk.dump(&mut pkt));
    match r {
        Err(m) => {
            sink.line(&op, "PANIC");
            sink.monitor_fail("panic:load", &m);
            false
        }
        Ok(Err(_)) => {
            if !pkt.frames.is_empty() { sink.monitor_fail("load_err_with_frame", "Err but a frame was written"); }
            sink.branch("load:none");
            sink.line(&op, &format!("none st={}", wd.states(ep)));
            false
        }
        Ok(Ok(_)) => {
            if pkt.frames.len() != 1 { sink.monitor_fail("load_frames", &format!("{} frames in one dump", pkt.frames.len())); }
            let (sid, off, data, fin) = pkt.frames[0].clone();
            let Some(h) = wd.halves.iter_mut().find(|h| u64::from(h.sid) == sid && h.snd == ep) else {
                sink.line(&op, &format!("frame={}:{}:{}:{} st=?", sid, off, hex(&data), fin as u8));
                sink.monitor_fail("frame_on_unknown_stream", &format!("{}", sid));
                return false;
            };
            // monitor: the payload is what the application wrote at that offset
            let end = off as usize + data.len();
            if end > h.wbytes.len() || h.wbytes[off as usize..end] != data[..] {
                sink.monitor_fail("frame_payload_not_written_bytes", &format!("{}: frame {}+{} does not carry the written bytes", h.key, off, data.len()));
            }
            if fin && !(h.shutdown_called && end == h.wbytes.len()) {
                sink.monitor_fail("fin_before_end", &format!("{}: FIN on a frame ending at {} (written {}, shutdown {})", h.key, end, h.wbytes.len(), h.shutdown_called));
            }
            let was = h.emitted.iter().any(|(o, d, _)| *o < end as u64 && off < *o + d.len() as u64);
            sink.branch(if data.is_empty() { "load:fin-only" } else if was { "load:retransmit" } else { "load:fresh" });
            h.emitted.push((off, data.clone(), fin));
            h.delivered.push(false);
            h.acked.push(false);
            sink.line(&op, &format!("frame={}:{}:{}:{} st={}", sid, off, hex(&data), fin as u8, wd.states(ep)));
            true
        }
    }
}

fn op_deliver(wd: &mut World, i: usize, fi: usize, sink: &mut Sink) {
    let (sid, snd, key) = { let h = &wd.halves[i]; (h.sid, h.snd, h.key.clone()) };
    let (off, data, fin) = wd.halves[i].emitted[fi].clone();
    let op = format!("deliver {} {}", key, fi);
    sink.pending(&op);
    let mut f = StreamFrame::new(sid, off, data.len());
    f.set_eos_flag(fin);
    let e = &wd.eps[1 - snd];
    let r = catch(|| e.ds.recv_data((f, Bytes::from(data))));
    let h = &mut wd.halves[i];
    if h.delivered[fi] { sink.branch("deliver:dup"); } else { sink.branch("deliver:first"); }
    h.delivered[fi] = true;
    match r {
        Err(m) => { sink.line(&op, "PANIC"); sink.monitor_fail("panic:recv_data", &m); }
        Ok(Ok(n)) => sink.line(&op, &format!("fresh={} r={}", n, h.rname())),
        Ok(Err(er)) => {
            sink.line(&op, &format!("err={:?} r={}", er.kind(), h.rname()));
            sink.monitor_fail(&format!("genuine_frame_rejected:{:?}", er.kind()), &format!("{}: frame {}+{} fin={} emitted by the real sender was rejected: {}", key, off, h.emitted[fi].1.len(), fin, er));
        }
    }
}

fn op_ack_or_lose(wd: &mut World, i: usize, fi: usize, lose: bool, sink: &mut Sink) {
    let (sid, snd, key) = { let h = &wd.halves[i]; (h.sid, h.snd, h.key.clone()) };
    let (off, data, fin) = wd.halves[i].emitted[fi].clone();
    let op = format!("{} {} {}", if lose { "lose" } else { "ack" }, key, fi);
    sink.pending(&op);
    let mut f = StreamFrame::new(sid, off, data.len());
    f.set_eos_flag(fin);
    let e = &wd.eps[snd];
    let r = catch(|| if lose { e.ds.may_loss_data(&f) } else { e.ds.on_data_acked(f) });
    let h = &mut wd.halves[i];
    if !lose { h.acked[fi] = true; }
    match r {
        Ok(()) => sink.line(&op, &format!("ok s={}", h.sname())),
        Err(m) => { sink.line(&op, "PANIC"); sink.monitor_fail(if lose { "panic:may_loss_data" } else { "panic:on_data_acked" }, &m); }
    }
}

/// Returns (bytes read, eof seen, pending).
fn op_read(wd: &mut World, i: usize, cap: usize, sink: &mut Sink) -> (usize, bool, bool) {
    let key = wd.halves[i].key.clone();
    let op = format!("read {} {}", key, cap);
    let (c, wk) = cwaker();
    let mut dst = Lim(BytesMut::new(), cap);
    let r = wd.halves[i].r.poll_read(&mut Context::from_waker(&wk), &mut dst);
    wd.collect(sink);
    let h = &mut wd.halves[i];
    let msd = if h.msds.len() > h.msd_seen {
        let v = h.msds[h.msds.len() - 1];
        if h.msds.len() - h.msd_seen > 1 { sink.monitor_fail("several_msd_in_one_read", &key); }
        h.msd_seen = h.msds.len();
        format!(" msd={}", v)
    } else { String::new() };
    match r {
        Poll::Pending => {
            h.read_park = Some(c);
            sink.line(&op, &format!("pending{} r={}", msd, h.rname()));
            (0, false, true)
        }
        Poll::Ready(Ok(())) => {
            let got = dst.0.to_vec();
            if let Some(p) = h.read_park.take() {
                if p.0.load(Ordering::SeqCst) == 0 { sink.monitor_fail("wake_missing:read", &format!("{}: poll_read was Pending, data became readable, the waker was never woken", key)); }
            }
            h.rbytes.extend_from_slice(&got);
            // MONITOR: exactly the written bytes, in order, nothing missing / duplicated / altered
            if h.rbytes.len() > h.wbytes.len() || h.wbytes[..h.rbytes.len()] != h.rbytes[..] {
                sink.monitor_fail("read_not_prefix_of_written", &format!("{}: {} bytes read are not the first {} bytes written ({} written)", key, h.rbytes.len(), h.rbytes.len(), h.wbytes.len()));
            }
            let eof = got.is_empty() && cap > 0;
            if eof {
                h.eof = true;
                sink.branch("read:eof");
                if !h.shutdown_called || h.rbytes.len() != h.wbytes.len() {
                    sink.monitor_fail("eof_before_end", &format!("{}: EOF after {} of {} bytes (shutdown called: {})", key, h.rbytes.len(), h.wbytes.len(), h.shutdown_called));
                }
            }
            sink.line(&op, &format!("data={}{} r={}", hex(&got), msd, h.rname()));
            (got.len(), eof, false)
        }
        Poll::Ready(Err(e)) => {
            sink.line(&op, &format!("{}{} r={}", werr(&e), msd, h.rname()));
            (0, false, false)
        }
    }
}

fn op_cancel(wd: &mut World, i: usize, sink: &mut Sink) {
    let key = wd.halves[i].key.clone();
    let before = wd.halves[i].resets.len();
    wd.halves[i].w.cancel(7);
    wd.halves[i].aborted = true;
    wd.collect(sink);
    let h = &wd.halves[i];
    let o = if h.resets.len() > before { format!("rst={}", h.resets[h.resets.len() - 1]) } else { "none".into() };
    sink.line(&format!("cancel {}", key), &format!("{} s={}", o, h.sname()));
}

fn op_stop(wd: &mut World, i: usize, sink: &mut Sink) {
    let key = wd.halves[i].key.clone();
    let before = wd.halves[i].stops;
    wd.halves[i].r.stop(7);
    wd.halves[i].aborted = true;
    wd.collect(sink);
    let h = &wd.halves[i];
    sink.line(&format!("stop {}", key), &format!("{} r={}", if h.stops > before { "stop" } else { "none" }, h.rname()));
}

fn op_rxstop(wd: &mut World, i: usize, sink: &mut Sink) {
    let (sid, snd, key) = { let h = &wd.halves[i]; (h.sid, h.snd, h.key.clone()) };
    let before = wd.halves[i].resets.len();
    let op = format!("rxstop {}", key);
    let r = catch(|| wd.eps[snd].ds.recv_stream_control(StreamCtlFrame::StopSending(StopSendingFrame::new(sid, vi(7)))));
    wd.collect(sink);
    let h = &wd.halves[i];
    match r {
        Err(m) => { sink.line(&op, "PANIC"); sink.monitor_fail("panic:rx_stop_sending", &m); }
        Ok(Err(e)) => { sink.line(&op, &format!("err={:?}", e.kind())); sink.monitor_fail("genuine_stop_sending_rejected", &format!("{}", e)); }
        Ok(Ok(_)) => {
            let o = if h.resets.len() > before { format!("rst={}", h.resets[h.resets.len() - 1]) } else { "none".into() };
            sink.line(&op, &format!("{} s={}", o, h.sname()));
        }
    }
}

fn op_rxreset(wd: &mut World, i: usize, ri: usize, sink: &mut Sink) {
    let (sid, snd, key) = { let h = &wd.halves[i]; (h.sid, h.snd, h.key.clone()) };
    let fin = wd.halves[i].resets[ri];
    let op = format!("rxreset {} {}", key, ri);
    let r = catch(|| wd.eps[1 - snd].ds.recv_stream_control(StreamCtlFrame::ResetStream(ResetStreamFrame::new(sid, vi(7), vi(fin)))));
    wd.collect(sink);
    let h = &wd.halves[i];
    match r {
        Err(m) => { sink.line(&op, "PANIC"); sink.monitor_fail("panic:rx_reset_stream", &m); }
        Ok(Err(e)) => {
            sink.line(&op, &format!("err={:?} r={}", e.kind(), h.rname()));
            sink.monitor_fail(&format!("genuine_reset_rejected:{:?}", e.kind()), &format!("{}: RESET_STREAM final size {} emitted by the real sender was rejected: {}", key, fin, e));
        }
        Ok(Ok(n)) => sink.line(&op, &format!("sync={} r={}", n, h.rname())),
    }
}

/// A RESET_STREAM frame that this stream's sender never emitted (non-conformant peer), with an arbitrary final size.
/// Exact comparison with the model; a refusal is the expected answer, not a finding.
fn op_rxreset_forged(wd: &mut World, i: usize, fin: u64, sink: &mut Sink) {
    let (sid, snd, key) = { let h = &wd.halves[i]; (h.sid, h.snd, h.key.clone()) };
    let op = format!("rxresetforged {} {}", key, fin);
    sink.pending(&op);
    let r = catch(|| wd.eps[1 - snd].ds.recv_stream_control(StreamCtlFrame::ResetStream(ResetStreamFrame::new(sid, vi(7), vi(fin)))));
    wd.halves[i].aborted = true;
    wd.collect(sink);
    let h = &wd.halves[i];
    match r {
        Err(m) => { sink.line(&op, "PANIC"); sink.monitor_fail("panic:rx_reset_stream", &m); }
        Ok(Err(e)) => { sink.branch(&format!("forged-reset:{:?}", e.kind())); sink.line(&op, &format!("err={:?} r={}", e.kind(), h.rname())); }
        Ok(Ok(n)) => { sink.branch("forged-reset:accepted"); sink.line(&op, &format!("sync={} r={}", n, h.rname())); }
    }
}

fn op_ackreset(wd: &mut World, i: usize, sink: &mut Sink) {
    let (sid, snd, key) = { let h = &wd.halves[i]; (h.sid, h.snd, h.key.clone()) };
    let fin = wd.halves[i].resets[0];
    let op = format!("ackreset {}", key);
    let r = catch(|| wd.eps[snd].ds.on_reset_acked(ResetStreamFrame::new(sid, vi(7), vi(fin))));
    let h = &wd.halves[i];
    match r {
        Ok(()) => sink.line(&op, &format!("ok s={}", h.sname())),
        Err(m) => { sink.line(&op, "PANIC"); sink.monitor_fail("panic:on_reset_acked", &m); }
    }
}

fn op_rxmsd(wd: &mut World, i: usize, mi: usize, sink: &mut Sink) {
    let (sid, snd, key) = { let h = &wd.halves[i]; (h.sid, h.snd, h.key.clone()) };
    let v = wd.halves[i].msds[mi];
    let op = format!("rxmsd {} {}", key, mi);
    let r = catch(|| wd.eps[snd].ds.recv_stream_control(StreamCtlFrame::MaxStreamData(MaxStreamDataFrame::new(sid, vi(v)))));
    let h = &wd.halves[i];
    match r {
        Ok(Ok(_)) => sink.line(&op, &format!("win={}", writer_window(&h.w).map(|v| v.to_string()).unwrap_or("-".into()))),
        Ok(Err(e)) => { sink.line(&op, &format!("err={:?}", e.kind())); sink.monitor_fail("genuine_msd_rejected", &format!("{}", e)); }
        Err(m) => { sink.line(&op, "PANIC"); sink.monitor_fail("panic:rx_max_stream_data", &m); }
    }
}

fn op_connerr(wd: &mut World, ep: usize, sink: &mut Sink) {
    let epc = ["c", "s"];
    wd.eps[ep].ds.on_conn_error(&conn_error());
    wd.conn_err = true;
    for h in wd.halves.iter_mut() { h.aborted = true; }
    sink.line(&format!("connerr {}", epc[ep]), "ok");
}

// ---- a case ----------------------------------------------------------------------------------------

fn gen_data(rng: &mut Rng) -> Vec<u8> {
    let n = match rng.below(10) { 0 => 0, 1 | 2 => rng.range(1, 8), 3..=6 => rng.range(9, 120), 7 | 8 => rng.range(121, 700), _ => rng.range(701, 2600) } as usize;
    rng.bytes(n)
}

fn gen_cap(rng: &mut Rng) -> usize {
    (match rng.below(10) { 0 => rng.range(0, 24), 1 | 2 => rng.range(25, 40), 3 | 4 => rng.range(41, 200), 5 => 1200, 6 => 65_000, _ => rng.range(200, 1500) }) as usize
}

fn case_body(rng: &mut Rng, sink: &mut Sink, lossless: bool, world: &mut Option<World>) {
    let ca = [pick_win(rng), pick_win(rng), pick_win(rng)];
    let sa = [pick_win(rng), pick_win(rng), pick_win(rng)];
    let a = endpoint(Wiring::Client, P6 { l: ca, r: sa }, VMAX, VMAX, 100);
    let b = endpoint(Wiring::Server, P6 { l: sa, r: ca }, VMAX, VMAX, 100);
    a.rec.take();
    b.rec.take();
    *world = Some(World { eps: [a, b], halves: vec![], conn_err: false });
    let wd = world.as_mut().unwrap();
    let nstreams = rng.range(1, 3);
    for _ in 0..nstreams {
        let ep = rng.below(2) as usize;
        let bi = rng.chance(1, 2);
        if !wd.open(ep, bi, sink) { sink.monitor_fail("open_failed", "could not open a stream"); return; }
        sink.branch(&format!("open:{}:{}", if ep == 0 { "client" } else { "server" }, if bi { "bi" } else { "uni" }));
    }
    let nops = rng.range(8, 60);
    let (mut saw_loss, mut saw_dup, mut saw_reorder, mut saw_abort) = (false, false, false, false);
    for _ in 0..nops {
        let nh = wd.halves.len();
        let i = rng.below(nh as u64) as usize;
        let c = rng.below(100);
        if c < 16 {
            let d = gen_data(rng);
            op_write(wd, i, d, sink);
        } else if c < 20 {
            op_shutdown(wd, i, sink);
        } else if c < 24 {
            op_flush(wd, i, sink);
        } else if c < 26 {
            op_ready(wd, i, sink);
        } else if c < 48 {
            if wd.conn_err && rng.chance(3, 4) { continue; }
            let ep = rng.below(2) as usize;
            let cap = gen_cap(rng);
            op_load(wd, ep, cap, sink);
        } else if c < 64 {
            let h = &wd.halves[i];
            if h.emitted.is_empty() { continue; }
            // prefer frames not yet delivered; sometimes any frame (duplicate / reorder)
            let fresh: Vec<usize> = (0..h.emitted.len()).filter(|k| !h.delivered[*k]).collect();
            let fi = if lossless { if fresh.is_empty() { continue } else { fresh[0] } }
                else if !fresh.is_empty() && rng.chance(2, 3) { *rng.pick(&fresh) } else { rng.below(h.emitted.len() as u64) as usize };
            if h.delivered[fi] { saw_dup = true; }
            if fresh.first().is_some_and(|f| *f != fi) { saw_reorder = true; }
            op_deliver(wd, i, fi, sink);
        } else if c < 74 {
            let h = &wd.halves[i];
            if h.emitted.is_empty() { continue; }
            let fi = if lossless { match (0..h.emitted.len()).find(|k| h.delivered[*k] && !h.acked[*k]) { Some(k) => k, None => continue } }
                else { rng.below(h.emitted.len() as u64) as usize };
            op_ack_or_lose(wd, i, fi, false, sink);
        } else if c < 82 {
            if lossless { continue; }
            let h = &wd.halves[i];
            if h.emitted.is_empty() { continue; }
            let fi = rng.below(h.emitted.len() as u64) as usize;
            saw_loss = true;
            op_ack_or_lose(wd, i, fi, true, sink);
        } else if c < 93 {
            let cap = match rng.below(5) { 0 => rng.range(0, 3), 1 => 100_000, _ => rng.range(1, 400) } as usize;
            op_read(wd, i, cap, sink);
        } else if c < 95 {
            let h = &wd.halves[i];
            if h.msds.is_empty() { continue; }
            let mi = rng.below(h.msds.len() as u64) as usize;
            op_rxmsd(wd, i, mi, sink);
        } else if lossless {
            continue;
        } else if c < 96 {
            saw_abort = true;
            if rng.chance(1, 3) {
                // malformed stream: RESET_STREAM from a non-conformant peer, final size around the advertised limit
                // (limit-1 / limit / limit+1), around what was received, or far off
                let lim = reader_window(&wd.halves[i].r).unwrap_or(0);
                let got = wd.halves[i].emitted.iter().enumerate().filter(|(k, _)| wd.halves[i].delivered[*k]).map(|(_, (o, d, _))| o + d.len() as u64).max().unwrap_or(0);
                let fin = match rng.below(8) { 0 => lim.saturating_sub(1), 1 | 2 => lim, 3 | 4 => lim + 1, 5 => got, 6 => got.saturating_sub(1), _ => rng.range(0, 3_000_000) };
                op_rxreset_forged(wd, i, fin.min(VMAX), sink);
                continue;
            }
            op_cancel(wd, i, sink);
        } else if c < 97 {
            saw_abort = true;
            op_stop(wd, i, sink);
        } else if c < 98 {
            if wd.halves[i].stops == 0 || wd.conn_err { continue; }
            op_rxstop(wd, i, sink);
        } else if c < 99 {
            let h = &wd.halves[i];
            if h.resets.is_empty() { continue; }
            if rng.chance(1, 3) { op_ackreset(wd, i, sink); } else { let ri = rng.below(h.resets.len() as u64) as usize; op_rxreset(wd, i, ri, sink); }
        } else if rng.chance(1, 3) {
            saw_abort = true;
            let ep = rng.below(2) as usize;
            if !wd.conn_err { op_connerr(wd, ep, sink); }
        }
    }
    if saw_abort { sink.branch("case:abort"); }
    // ---- epilogue: adversarial rounds, then the cooperative suffix ---------------------------------------
    // "The network eventually delivers what is retransmitted": every frame is in the end EITHER delivered and
    // acknowledged OR declared lost for good (`dead`: never delivered or acknowledged afterwards) — a frame that
    // was declared lost is not allowed to rescue the stream later unless the schedule explicitly chose a late
    // acknowledgement for it.  Whatever the sender must retransmit it has to retransmit by itself.
    if rng.chance(1, 10) { sink.branch("case:no-suffix"); return; }
    let nh = wd.halves.len();
    let mut dead: Vec<Vec<bool>> = (0..nh).map(|i| vec![false; wd.halves[i].emitted.len()]).collect();
    let mut lostmark: Vec<Vec<bool>> = (0..nh).map(|i| vec![false; wd.halves[i].emitted.len()]).collect();
    fn grow(v: &mut Vec<Vec<bool>>, wd: &World) {
        for i in 0..v.len() { let n = wd.halves[i].emitted.len(); v[i].resize(n, false); }
    }
    // honest network: what was acknowledged had been delivered
    for i in 0..nh {
        if wd.halves[i].aborted { continue; }
        for fi in 0..wd.halves[i].emitted.len() {
            if wd.halves[i].acked[fi] && !wd.halves[i].delivered[fi] { op_deliver(wd, i, fi, sink); }
        }
    }
    let adv_rounds = if lossless { 0 } else { rng.below(4) };
    sink.branch(&format!("suffix:adv-rounds:{}", adv_rounds));
    for _ in 0..adv_rounds {
        for i in 0..nh {
            if wd.halves[i].aborted { continue; }
            for fi in 0..wd.halves[i].emitted.len() {
                if wd.halves[i].acked[fi] || dead[i][fi] { continue; }
                let r = rng.below(100);
                if lostmark[i][fi] {
                    // a frame declared lost earlier: the "lost" packet was only late (spurious loss) ...
                    if r < 45 {
                        sink.branch("suffix:late-ack-after-loss");
                        if !wd.halves[i].delivered[fi] { op_deliver(wd, i, fi, sink); }
                        op_ack_or_lose(wd, i, fi, false, sink);
                    } else if r < 60 {
                        // ... or it is declared lost once more
                        sink.branch("suffix:lose-again");
                        op_ack_or_lose(wd, i, fi, true, sink);
                        if rng.chance(1, 2) { dead[i][fi] = true; }
                    }
                } else if r < 45 {
                    saw_loss = true;
                    lostmark[i][fi] = true;
                    op_ack_or_lose(wd, i, fi, true, sink);
                    if rng.chance(1, 2) { dead[i][fi] = true; sink.branch("suffix:lose-for-good"); } else { sink.branch("suffix:lose-spurious"); }
                } else if r < 65 {
                    sink.branch("suffix:deliver-ack");
                    if !wd.halves[i].delivered[fi] { op_deliver(wd, i, fi, sink); }
                    op_ack_or_lose(wd, i, fi, false, sink);
                }
            }
        }
        // the application may shut down between a transmission and its retransmission
        for i in 0..nh {
            if !wd.halves[i].shutdown_called && !wd.halves[i].aborted && rng.chance(1, 2) {
                sink.branch("suffix:shutdown-before-retransmission");
                op_shutdown(wd, i, sink);
            }
        }
        let cap = if rng.chance(1, 2) { 1200 } else { gen_cap(rng).max(30) };
        for ep in 0..2 {
            let mut n = 0;
            while n < 4000 && op_load(wd, ep, cap, sink) { n += 1; }
        }
        grow(&mut dead, wd);
        grow(&mut lostmark, wd);
    }
    for i in 0..nh {
        if !wd.halves[i].shutdown_called && !wd.halves[i].aborted { op_shutdown(wd, i, sink); }
    }
    let mut rounds = 0;
    loop {
        rounds += 1;
        let mut progress = false;
        // the fate of every frame still in flight: lost for good (only in the first rounds, so that the suffix
        // terminates) or delivered and acknowledged
        for i in 0..nh {
            if wd.halves[i].aborted { continue; }
            let mut keep: Vec<usize> = vec![];
            for fi in 0..wd.halves[i].emitted.len() {
                if wd.halves[i].acked[fi] || dead[i][fi] { continue; }
                if !lossless && rounds <= 3 && rng.chance(1, 3) {
                    saw_loss = true;
                    sink.branch(if wd.halves[i].emitted[fi].2 { "suffix:final-loss:fin-frame" } else { "suffix:final-loss" });
                    dead[i][fi] = true;
                    op_ack_or_lose(wd, i, fi, true, sink);
                    progress = true;
                } else {
                    keep.push(fi);
                }
            }
            // random delivery order
            for k in (1..keep.len()).rev() { let j = rng.below(k as u64 + 1) as usize; keep.swap(k, j); }
            for fi in &keep { if !wd.halves[i].delivered[*fi] { op_deliver(wd, i, *fi, sink); } }
            for fi in &keep {
                if lostmark[i][*fi] { sink.branch("suffix:late-ack-after-loss"); }
                op_ack_or_lose(wd, i, *fi, false, sink);
                progress = true;
            }
        }
        for ep in 0..2 {
            let mut n = 0;
            while n < 4000 && op_load(wd, ep, 1200, sink) { n += 1; progress = true; }
        }
        grow(&mut dead, wd);
        grow(&mut lostmark, wd);
        for i in 0..nh {
            if wd.halves[i].aborted { continue; }
            loop {
                let (n, eof, pending) = op_read(wd, i, 1000, sink);
                if n > 0 { progress = true; }
                if eof || pending || n == 0 { break; }
            }
            let h = &wd.halves[i];
            if !h.msds.is_empty() {
                let mi = h.msds.len() - 1;
                let before = writer_window(&h.w);
                op_rxmsd(wd, i, mi, sink);
                if writer_window(&wd.halves[i].w) != before { progress = true; }
            }
        }
        if !progress || rounds > 200 { break; }
    }
    // MONITOR (liveness on the real objects)
    for i in 0..nh {
        if wd.halves[i].aborted { continue; }
        let sdone = op_shutdown(wd, i, sink);
        let fdone = op_flush(wd, i, sink);
        let h = &wd.halves[i];
        // what the surviving (delivered and acknowledged) frames carry
        let mut iv: Vec<(u64, u64)> = vec![];
        let mut fin_alive = false;
        for (fi, (off, d, f)) in h.emitted.iter().enumerate() {
            if h.acked[fi] && h.delivered[fi] { iv.push((*off, *off + d.len() as u64)); fin_alive |= *f; }
        }
        iv.sort();
        let mut at = 0u64;
        for (a, b) in iv { if a > at { break; } at = at.max(b); }
        if at < h.wbytes.len() as u64 {
            sink.monitor_fail("lost_data_never_retransmitted", &format!("{}: bytes from offset {} (of {}) were only carried by frames that were lost; the sender has nothing more to send (state {})", h.key, at, h.wbytes.len(), h.sname()));
        }
        if !fin_alive {
            sink.monitor_fail("lost_fin_never_retransmitted", &format!("{}: every frame that carried the FIN was lost and the sender has nothing more to send (state {})", h.key, h.sname()));
        }
        if h.rbytes.len() != h.wbytes.len() {
            sink.monitor_fail("not_all_bytes_readable", &format!("{}: everything was retransmitted, delivered and acknowledged, but only {} of {} bytes were readable", h.key, h.rbytes.len(), h.wbytes.len()));
        }
        if !h.eof { sink.monitor_fail("eof_never_seen", &format!("{}: every surviving frame was delivered but the reader never saw EOF", h.key)); }
        if !sdone { sink.monitor_fail("shutdown_never_completes", &format!("{}: every surviving frame was acknowledged and the sender has nothing more to send, but poll_shutdown is still pending (state {})", h.key, h.sname())); }
        if !fdone { sink.monitor_fail("flush_never_completes", &format!("{}: every surviving frame was acknowledged and the sender has nothing more to send, but poll_flush is still pending", h.key)); }
        sink.branch("case:completed");
    }
    if saw_loss && (saw_dup || saw_reorder) { sink.nontrivial(); }
}

pub fn run(o: &Opts) {
    crate::common::silence_panics();
    let mut sink = Sink::new_with_stats(&o.out, &o.stats);
    for i in 0..o.cases {
        if let Some(k) = o.only_case { if k != i { continue; } }
        let mut rng = Rng::new(o.seed, i);
        sink.case(&format!("{}", i));
        let lossless = i % 16 == 0;
        one_case(&mut rng, &mut sink, lossless);
    }
    sink.finish(&o.stats, "random schedules on a real client-role + server-role DataStreams pair: 1-3 concurrent uni/bidi streams opened from either side, random writes (0..2600 bytes), shutdown, flush/ready polls, one-frame packet assembly with random capacity (0..65000), then delivery / duplication / reordering / dropping / late acknowledgement / loss declaration of any frame ever emitted, reads with random buffer sizes, MAX_STREAM_DATA delivery, cancel / stop / STOP_SENDING / RESET_STREAM / connection error, and RESET_STREAM frames forged by a non-conformant peer with final sizes at limit-1 / limit / limit+1, around the largest offset received, or random; 9 of 10 cases end with 0-3 adversarial rounds (every frame in flight is declared lost spuriously / lost for good / acknowledged late after a loss / delivered and acknowledged / left alone, the application may shut down before the retransmissions are assembled, retransmissions with random capacity) and the cooperative suffix (every frame in flight is lost for good [first 3 rounds] or delivered and acknowledged, load until nothing, read everything, window updates; a frame lost for good is never delivered or acknowledged again) after which completion is demanded; every 16th case is lossless and in order; non-trivial = a loss was declared and a duplicate or out-of-order delivery happened; distinct by hash of the case transcript");
}

pub const RUNS: &[(&str, fn(&Opts))] = &[("C01", run)];
