//! C05: every frame codec of qbase driven with a type-directed generator.
//!
//! Runs:
//!  * `C05`     enc ops: build a real `Frame<Bytes>` from generated fields, `put_frame` it into a
//!              `Vec<u8>`, report the bytes, `encoding_size()`, `max_encoding_size()`, then `be_frame`
//!              the bytes (+ a generated tail) in a generated packet type and report the decoded value
//!              and the consumed count.  Independent monitors: written == declared size (+ data) <=
//!              declared max (+ data); decode(encode x) == x with consumed == written, for every
//!              frame the generator built well-formed.
//!  * `C05dec`  decode-only ops on truncated / mutated / random byte strings (outcome class + value).
//!  * `C05ft`   the frame-type table of the compiled code (`FrameType::try_from`, back conversion,
//!              `belongs_to` for I/H/0/1, `specs`) for every number that occurs + random others.
use std::net::{IpAddr, Ipv4Addr, Ipv6Addr, SocketAddr};

use bytes::Bytes;
use qbase::{
    cid::ConnectionId,
    error::{ErrorFrameType, ErrorKind},
    frame::{
        error::Error as FE, io::{WriteFrame, be_frame}, *,
    },
    net::NatType,
    packet::r#type::{Type, long::{Type as LType, Ver1}, short::OneRtt},
    sid::{Dir, StreamId},
    varint::VarInt,
};

use crate::common::{Opts, Rng, Sink, catch, hex};

pub(crate) const VMAX: u64 = (1 << 62) - 1;

pub(crate) fn vi(v: u64) -> VarInt { VarInt::from_u64(v & VMAX).unwrap() }

pub(crate) fn pkt_type(i: u64) -> (Type, &'static str) {
    match i {
        0 => (Type::Long(LType::V1(Ver1::INITIAL)), "I"),
        1 => (Type::Long(LType::V1(Ver1::HANDSHAKE)), "H"),
        2 => (Type::Long(LType::V1(Ver1::ZERO_RTT)), "0"),
        3 => (Type::Short(OneRtt::from(0)), "1"),
        4 => (Type::Long(LType::V1(Ver1::RETRY)), "R"),
        _ => (Type::Long(LType::VersionNegotiation), "V"),
    }
}

/// boundary-biased 62-bit value
pub(crate) fn bv(r: &mut Rng) -> u64 {
    const B: [u64; 16] = [0, 1, 63, 64, 16383, 16384, (1 << 30) - 1, 1 << 30, (1 << 62) - 1, (1 << 62) - 2,
        (1 << 32) - 1, 1 << 32, 1 << 60, (1 << 60) + 1, 1 << 61, (1 << 61) - 1];
    match r.below(5) {
        0 | 1 => *r.pick(&B),
        2 => r.below(300),
        3 => r.below(1 << 20),
        _ => r.next_u64() & VMAX,
    }
}

fn bv32(r: &mut Rng) -> u32 {
    const B: [u32; 10] = [0, 1, 63, 64, 16383, 16384, (1 << 30) - 1, 1 << 30, u32::MAX, u32::MAX - 1];
    match r.below(3) { 0 | 1 => *r.pick(&B), _ => r.next_u64() as u32 }
}

/// payload length: empty, varint-width boundaries, occasionally large
fn plen(r: &mut Rng, big: bool) -> usize {
    const B: [usize; 8] = [0, 1, 62, 63, 64, 65, 100, 1200];
    match r.below(if big { 40 } else { 39 }) {
        0..=19 => *r.pick(&B),
        20..=36 => r.below(40) as usize,
        37 => *r.pick(&[16383usize, 16384, 16385]),
        38 => r.range(1000, 3000) as usize,
        _ => 70000,
    }
}

/// Address classes (the generator of EVERY address-bearing codec: ADD_ADDRESS, PUNCH_ME_NOW,
/// EndpointAddr, Link, PreferredAddress).  An IPv6 value is any of the 2^128 bit patterns — in
/// particular the ones that *look like* IPv4 (IPv4-mapped `::ffff:a.b.c.d`, IPv4-compatible
/// `::a.b.c.d`, NAT64, 6to4) stay IPv6 values and must be written as 16 bytes.
pub(crate) fn ip4_special(r: &mut Rng) -> u32 {
    match r.below(12) {
        0 => 0,                                    // unspecified 0.0.0.0
        1 => u32::MAX,                             // limited broadcast
        2 => 0x7f00_0001,                          // loopback
        3 => 0xa9fe_0000 | r.below(1 << 16) as u32, // link-local 169.254/16
        4 => 0xe000_0001,                          // multicast 224.0.0.1
        5 => 0xc000_0201,                          // documentation 192.0.2.1
        6 => 0x0a00_0000 | r.below(1 << 24) as u32, // private 10/8
        7 => 0xc0a8_01ff,                          // directed broadcast 192.168.1.255
        8 => 0x0000_0001,                          // 0.0.0.1
        _ => r.next_u64() as u32,
    }
}

pub(crate) fn ip6_special(r: &mut Rng) -> (u128, &'static str) {
    let v4 = ip4_special(r) as u128;
    match r.below(16) {
        0 | 1 | 2 => ((0xffffu128 << 32) | v4, "v4-mapped"),           // ::ffff:a.b.c.d
        3 => (v4, "v4-compatible"),                                  // ::a.b.c.d  (includes :: and ::1-like)
        4 => (0, "unspecified"),
        5 => (1, "loopback"),
        6 => ((0xfe80u128 << 112) | r.next_u64() as u128, "link-local"),
        7 => ((0xff02u128 << 112) | 1, "multicast"),
        8 => ((0xff0eu128 << 112) | r.next_u64() as u128, "multicast"),
        9 => (u128::MAX, "all-ones"),
        10 => ((0x0064_ff9bu128 << 96) | v4, "nat64"),               // 64:ff9b::a.b.c.d
        11 => ((0x2002u128 << 112) | (v4 << 80), "6to4"),            // 2002:a.b.c.d::
        12 => ((0x2001_0db8u128 << 96) | r.next_u64() as u128, "documentation"),
        13 => ((0xfc00u128 << 112) | r.next_u64() as u128, "unique-local"),
        _ => (((r.next_u64() as u128) << 64) | r.next_u64() as u128, "random"),
    }
}

pub(crate) fn port_special(r: &mut Rng) -> u16 {
    let rp = r.next_u64() as u16;
    *r.pick(&[0u16, 0, 1, 255, 256, 443, 65535, 65535, rp, rp])
}

/// `(address, class)`; link-local IPv6 addresses sometimes carry a scope id / flowinfo (host-local,
/// never encoded: the monitors compare modulo them).
pub(crate) fn sock_c(r: &mut Rng, v6: bool) -> (SocketAddr, &'static str) {
    let port = port_special(r);
    if v6 {
        let (ip, class) = ip6_special(r);
        if class == "link-local" && r.chance(1, 2) {
            let a = std::net::SocketAddrV6::new(Ipv6Addr::from(ip), port, r.below(3) as u32, 1 + r.below(9) as u32);
            return (SocketAddr::V6(a), "link-local-scoped");
        }
        (SocketAddr::new(IpAddr::V6(Ipv6Addr::from(ip)), port), class)
    } else {
        (SocketAddr::new(IpAddr::V4(Ipv4Addr::from(ip4_special(r))), port), "v4")
    }
}

pub(crate) fn sock(r: &mut Rng, v6: bool) -> SocketAddr { sock_c(r, v6).0 }

pub(crate) fn show_sock(a: &SocketAddr) -> String {
    match a.ip() {
        IpAddr::V4(ip) => format!("4:{}:{}", u32::from(ip), a.port()),
        IpAddr::V6(ip) => format!("6:{}:{}", u128::from(ip), a.port()),
    }
}

fn kind_name(k: ErrorKind) -> String {
    match k {
        ErrorKind::Crypto(x) => format!("Crypto:{}", x),
        k => format!("{:?}", k),
    }
}

const KINDS: [ErrorKind; 17] = [
    ErrorKind::None, ErrorKind::Internal, ErrorKind::ConnectionRefused, ErrorKind::FlowControl, ErrorKind::StreamLimit,
    ErrorKind::StreamState, ErrorKind::FinalSize, ErrorKind::FrameEncoding, ErrorKind::TransportParameter,
    ErrorKind::ConnectionIdLimit, ErrorKind::ProtocolViolation, ErrorKind::InvalidToken, ErrorKind::Application,
    ErrorKind::CryptoBufferExceeded, ErrorKind::KeyUpdate, ErrorKind::AeadLimitReached, ErrorKind::NoViablePath,
];

const NATS: [NatType; 6] = [NatType::Blocked, NatType::FullCone, NatType::RestrictedCone, NatType::RestrictedPort, NatType::Symmetric, NatType::Dynamic];

/// numbers of every frame type of the table (used by generators and `C05ft`)
pub(crate) const FT_NUMS: [u64; 39] = [0, 1, 2, 3, 4, 5, 6, 7, 8, 9, 10, 11, 12, 13, 14, 15, 16, 17, 18, 19, 20, 21, 22, 23, 24, 25, 26, 27, 28, 29, 30,
    0x30, 0x31, 0x3d7e90, 0x3d7e91, 0x3d7e92, 0x3d7e93, 0x3d7e94, 0x3d7e95];

fn show_efty(t: ErrorFrameType) -> String {
    match t {
        ErrorFrameType::V1(ft) => format!("V1:{}", ft_name(ft)),
        ErrorFrameType::Ext(v) => format!("EXT:{}", v.into_u64()),
    }
}

fn ft_name(ft: FrameType) -> String { format!("{:?}", ft).replace(' ', "") }

fn show_reason(s: &str) -> String {
    let b = s.as_bytes();
    if b.windows(3).any(|w| w == [0xEF, 0xBF, 0xBD]) { "LOSSY".into() } else { hex(b) }
}

fn kind_of(f: &Frame) -> &'static str {
    match f {
        Frame::Padding(_) => "PADDING", Frame::Ping(_) => "PING", Frame::Ack(_) => "ACK",
        Frame::Close(ConnectionCloseFrame::App(_)) => "CLOSE_APP", Frame::Close(ConnectionCloseFrame::Quic(_)) => "CLOSE_QUIC",
        Frame::NewToken(_) => "NEW_TOKEN", Frame::MaxData(_) => "MAX_DATA", Frame::DataBlocked(_) => "DATA_BLOCKED",
        Frame::NewConnectionId(_) => "NEW_CID", Frame::RetireConnectionId(_) => "RETIRE_CID", Frame::HandshakeDone(_) => "HANDSHAKE_DONE",
        Frame::PathChallenge(_) => "PATH_CHALLENGE", Frame::PathResponse(_) => "PATH_RESPONSE",
        Frame::StreamCtl(StreamCtlFrame::ResetStream(_)) => "RESET_STREAM", Frame::StreamCtl(StreamCtlFrame::StopSending(_)) => "STOP_SENDING",
        Frame::StreamCtl(StreamCtlFrame::MaxStreamData(_)) => "MAX_STREAM_DATA", Frame::StreamCtl(StreamCtlFrame::MaxStreams(_)) => "MAX_STREAMS",
        Frame::StreamCtl(StreamCtlFrame::StreamDataBlocked(_)) => "STREAM_DATA_BLOCKED", Frame::StreamCtl(StreamCtlFrame::StreamsBlocked(_)) => "STREAMS_BLOCKED",
        Frame::Stream(..) => "STREAM", Frame::Crypto(..) => "CRYPTO", Frame::Datagram(..) => "DATAGRAM",
        Frame::AddAddress(_) => "ADD_ADDRESS", Frame::RemoveAddress(_) => "REMOVE_ADDRESS", Frame::PunchMeNow(_) => "PUNCH_ME_NOW",
        Frame::PunchHello(_) => "PUNCH_HELLO", Frame::PunchDone(_) => "PUNCH_DONE",
    }
}

fn b01(b: bool) -> u8 { b as u8 }

/// canonical, space-separated rendering of a frame value (the Lean driver parses and prints the same)
pub(crate) fn show(f: &Frame) -> String {
    let k = kind_of(f);
    match f {
        Frame::Padding(_) | Frame::Ping(_) | Frame::HandshakeDone(_) => k.to_string(),
        Frame::Ack(a) => {
            let rs: Vec<String> = a.ranges().iter().map(|(g, x)| format!("{}:{}", g.into_u64(), x.into_u64())).collect();
            let ecn = match a.ecn() { Some(e) => format!("{}:{}:{}", e.ect0(), e.ect1(), e.ce()), None => "-".into() };
            format!("{} {} {} {} {} {}", k, a.largest(), a.delay(), a.first_range(), if rs.is_empty() { "-".into() } else { rs.join(",") }, ecn)
        }
        Frame::Close(ConnectionCloseFrame::App(a)) => format!("{} {} {}", k, a.error_code(), show_reason(a.reason())),
        Frame::Close(ConnectionCloseFrame::Quic(q)) => format!("{} {} {} {}", k, kind_name(q.error_kind()), show_efty(q.frame_type()), show_reason(q.reason())),
        Frame::NewToken(t) => format!("{} {}", k, hex(t.token())),
        Frame::MaxData(m) => format!("{} {}", k, m.max_data()),
        Frame::DataBlocked(m) => format!("{} {}", k, m.limit()),
        Frame::NewConnectionId(n) => format!("{} {} {} {} {}", k, n.sequence(), n.retire_prior_to(), hex(n.connection_id()), hex(n.reset_token().as_slice())),
        Frame::RetireConnectionId(n) => format!("{} {}", k, n.sequence()),
        Frame::PathChallenge(p) => format!("{} {}", k, hex(&p[..])),
        Frame::PathResponse(p) => format!("{} {}", k, hex(&p[..])),
        Frame::StreamCtl(s) => match s {
            StreamCtlFrame::ResetStream(x) => format!("{} {} {} {}", k, VarInt::from(x.stream_id()).into_u64(), x.app_error_code(), x.final_size()),
            StreamCtlFrame::StopSending(x) => format!("{} {} {}", k, VarInt::from(x.stream_id()).into_u64(), x.app_err_code()),
            StreamCtlFrame::MaxStreamData(x) => format!("{} {} {}", k, VarInt::from(x.stream_id()).into_u64(), x.max_stream_data()),
            StreamCtlFrame::MaxStreams(MaxStreamsFrame::Bi(n)) => format!("{} 0 {}", k, n.into_u64()),
            StreamCtlFrame::MaxStreams(MaxStreamsFrame::Uni(n)) => format!("{} 1 {}", k, n.into_u64()),
            StreamCtlFrame::StreamDataBlocked(x) => format!("{} {} {}", k, VarInt::from(x.stream_id()).into_u64(), x.maximum_stream_data()),
            StreamCtlFrame::StreamsBlocked(StreamsBlockedFrame::Bi(n)) => format!("{} 0 {}", k, n.into_u64()),
            StreamCtlFrame::StreamsBlocked(StreamsBlockedFrame::Uni(n)) => format!("{} 1 {}", k, n.into_u64()),
        },
        Frame::Stream(s, d) => {
            let lenbit = matches!(s.frame_type(), FrameType::Stream(_, Len::Explicit, _));
            format!("{} {} {} {} {} {} {}", k, VarInt::from(s.stream_id()).into_u64(), s.offset(), s.len(), b01(lenbit), b01(s.is_fin()), hex(d))
        }
        Frame::Crypto(c, d) => format!("{} {} {} {}", k, c.offset(), c.len(), hex(d)),
        Frame::Datagram(g, d) => format!("{} {} {} {}", k, b01(g.encode_len()), g.len().into_u64(), hex(d)),
        Frame::AddAddress(a) => format!("{} {} {} {} {}", k, a.seq_num_raw(), show_sock(&**a), a.tire_raw(), a.nat_type() as u8),
        Frame::RemoveAddress(a) => format!("{} {}", k, a.seq_num.into_u64()),
        Frame::PunchMeNow(p) => format!("{} {} {} {} {} {}", k, p.local_seq_raw(), p.remote_seq_raw(), show_sock(&p.address()), p.tire_raw(), p.nat_type() as u8),
        Frame::PunchHello(p) => format!("{} {} {} {}", k, p.local_seq_raw(), p.remote_seq_raw(), p.probe_id_raw()),
        Frame::PunchDone(p) => format!("{} {} {} {}", k, p.local_seq_raw(), p.remote_seq_raw(), p.probe_id_raw()),
    }
}

/// Fields that the public accessors truncate to `u32` are read from the derived `Debug` output
/// (`seq_num: VarInt(5)`), so that a decoded 62-bit value is compared in full.
trait Raw { fn raw(&self, field: &str) -> u64; }
impl<T: std::fmt::Debug> Raw for T {
    fn raw(&self, field: &str) -> u64 {
        let d = format!("{:?}", self);
        let pat = format!("{}: VarInt(", field);
        let p = d.find(&pat).map(|p| p + pat.len()).expect("Debug shape");
        let e = d[p..].find(')').unwrap() + p;
        d[p..e].parse().unwrap()
    }
}
trait RawAdd { fn seq_num_raw(&self) -> u64; fn tire_raw(&self) -> u64; }
impl RawAdd for AddAddressFrame { fn seq_num_raw(&self) -> u64 { self.raw("seq_num") } fn tire_raw(&self) -> u64 { self.raw("tire") } }
trait RawPmn { fn local_seq_raw(&self) -> u64; fn remote_seq_raw(&self) -> u64; fn tire_raw(&self) -> u64; }
impl RawPmn for PunchMeNowFrame { fn local_seq_raw(&self) -> u64 { self.raw("local_seq") } fn remote_seq_raw(&self) -> u64 { self.raw("remote_seq") } fn tire_raw(&self) -> u64 { self.raw("tire") } }
trait RawPh { fn local_seq_raw(&self) -> u64; fn remote_seq_raw(&self) -> u64; fn probe_id_raw(&self) -> u64; }
impl RawPh for PunchHelloFrame { fn local_seq_raw(&self) -> u64 { self.raw("local_seq") } fn remote_seq_raw(&self) -> u64 { self.raw("remote_seq") } fn probe_id_raw(&self) -> u64 { self.raw("probe_id") } }
impl RawPh for PunchDoneFrame { fn local_seq_raw(&self) -> u64 { self.raw("local_seq") } fn remote_seq_raw(&self) -> u64 { self.raw("remote_seq") } fn probe_id_raw(&self) -> u64 { self.raw("probe_id") } }

fn reason(r: &mut Rng) -> String {
    let n = match r.below(12) { 0 => 0, 1 => 63, 2 => 64, 3 => 16383, 4 => *r.pick(&[16384usize, 16390]), _ => r.below(30) as usize };
    let mut s = String::new();
    let multi = r.chance(1, 4);
    while s.len() < n {
        let c = if multi && r.chance(1, 3) && s.len() + 4 <= n { *r.pick(&['é', '中', '𝄞', '\u{7ff}', '\u{800}', '\u{d7ff}', '\u{e000}', '\u{10ffff}']) } else { (0x20 + r.below(95) as u8) as char };
        if s.len() + c.len_utf8() <= n { s.push(c); }
    }
    s
}

/// (frame, well-formed?, has a self-delimiting length (may be followed by a tail)?)
pub(crate) fn gen_frame(r: &mut Rng, kind: u64, sink: &mut Sink) -> (Frame, bool, bool) {
    match kind {
        0 => (Frame::Padding(PaddingFrame), true, true),
        1 => (Frame::Ping(PingFrame), true, true),
        2 => (Frame::HandshakeDone(HandshakeDoneFrame), true, true),
        3 => {
            let n = match r.below(8) { 0 => 0, 1 => 1, 2 => 63, 3 => 64, 4 => 70, _ => r.below(6) } as usize;
            let ranges: Vec<(VarInt, VarInt)> = (0..n).map(|_| (vi(bv(r)), vi(bv(r)))).collect();
            let ecn = if r.chance(1, 2) { Some(EcnCounts::new(vi(bv(r)), vi(bv(r)), vi(bv(r)))) } else { None };
            sink.branch(if ecn.is_some() { "ack:ecn" } else { "ack:noecn" });
            (Frame::Ack(AckFrame::new(vi(bv(r)), vi(bv(r)), vi(bv(r)), ranges, ecn)), true, true)
        }
        4 => {
            let s = reason(r);
            let wf = s.len() < 16384;
            (Frame::Close(ConnectionCloseFrame::new_app(vi(bv(r)), s)), wf, true)
        }
        5 => {
            let s = reason(r);
            let rb = r.next_u64() as u8;
            let k = if r.chance(1, 4) { ErrorKind::Crypto(*r.pick(&[0u8, 1, 0x7f, 0x80, 0xff, rb])) } else { *r.pick(&KINDS) };
            let (t, wf_t) = match r.below(4) {
                0 => { let v = bv(r); (ErrorFrameType::Ext(vi(v)), FrameType::try_from(vi(v)).is_err()) }
                1 => { let v = *r.pick(&[0x1fu64, 0x20, 0x2f, 0x32, 0x40, 0x3d7e8f, 0x3d7e97, 0x3fff, 0x4000, VMAX]); (ErrorFrameType::Ext(vi(v)), true) }
                _ => (ErrorFrameType::V1(FrameType::try_from(vi(*r.pick(&FT_NUMS))).unwrap()), true),
            };
            sink.branch(match t { ErrorFrameType::V1(_) => "close:v1", ErrorFrameType::Ext(_) => "close:ext" });
            let wf = s.len() < 16384 && wf_t;
            (Frame::Close(ConnectionCloseFrame::new_quic(k, t, s)), wf, true)
        }
        6 => { let n = plen(r, false); (Frame::NewToken(NewTokenFrame::new(r.bytes(n))), true, true) }
        7 => (Frame::MaxData(MaxDataFrame::new(vi(bv(r)))), true, true),
        8 => (Frame::DataBlocked(DataBlockedFrame::new(vi(bv(r)))), true, true),
        9 => {
            let seq = bv(r);
            let rpt = match r.below(6) { 0 => seq, 1 => seq.saturating_sub(1), 2 => 0, 3 => (seq + 1) & VMAX, _ => bv(r) };
            let n = match r.below(4) { 0 => r.below(21), 1 => *r.pick(&[0u64, 1, 20]), _ => r.range(1, 20) } as usize;
            let cid = ConnectionId::from_slice(&r.bytes(n));
            (Frame::NewConnectionId(NewConnectionIdFrame::new(cid, vi(seq), vi(rpt))), rpt <= seq && n > 0, true)
        }
        10 => (Frame::RetireConnectionId(RetireConnectionIdFrame::new(vi(bv(r)))), true, true),
        11 => { let d = match r.below(4) { 0 => vec![0u8; 8], 1 => vec![0xffu8; 8], _ => r.bytes(8) }; (Frame::PathChallenge(PathChallengeFrame::from_slice(&d)), true, true) }
        12 => (Frame::PathResponse(PathResponseFrame::from(PathChallengeFrame::from_slice(&r.bytes(8)))), true, true),
        13 => (Frame::StreamCtl(ResetStreamFrame::new(StreamId::from(vi(bv(r))), vi(bv(r)), vi(bv(r))).into()), true, true),
        14 => (Frame::StreamCtl(StopSendingFrame::new(StreamId::from(vi(bv(r))), vi(bv(r))).into()), true, true),
        15 => (Frame::StreamCtl(MaxStreamDataFrame::new(StreamId::from(vi(bv(r))), vi(bv(r))).into()), true, true),
        16 => {
            let n = if r.chance(1, 3) { *r.pick(&[(1u64 << 60) - 1, 1 << 60, (1 << 60) + 1]) } else { bv(r) };
            let d = if r.chance(1, 2) { Dir::Bi } else { Dir::Uni };
            (Frame::StreamCtl(MaxStreamsFrame::with(d, vi(n)).into()), n <= qbase::sid::MAX_STREAMS_LIMIT, true)
        }
        17 => (Frame::StreamCtl(StreamDataBlockedFrame::new(StreamId::from(vi(bv(r))), vi(bv(r))).into()), true, true),
        18 => {
            let d = if r.chance(1, 2) { Dir::Bi } else { Dir::Uni };
            (Frame::StreamCtl(StreamsBlockedFrame::with(d, vi(bv(r))).into()), true, true)
        }
        19 => {
            let n = plen(r, true);
            let off = match r.below(5) { 0 => 0, 1 => VMAX - n as u64, 2 => (VMAX - n as u64 + 1) & VMAX, _ => bv(r) };
            let declared = match r.below(12) { 0 => n + 1, 1 => n.saturating_sub(1), 2 => (1usize << 32) + n, _ => n };
            let mut f = StreamFrame::new(StreamId::from(vi(bv(r))), off, declared);
            let lenbit = r.chance(1, 2);
            let fin = r.chance(1, 2);
            if lenbit { f.set_len_bit(Len::Explicit); }
            f.set_eos_flag(fin);
            sink.branch(&format!("stream:o{}l{}f{}", b01(off != 0), b01(lenbit), b01(fin)));
            let wf = declared == n && off.checked_add(n as u64).map_or(false, |e| e <= VMAX);
            (Frame::Stream(f, Bytes::from(r.bytes(n))), wf, lenbit)
        }
        20 => {
            let n = plen(r, true);
            let off = match r.below(6) { 0 => 0, 1 => VMAX - n as u64, 2 => (VMAX - n as u64 + 1) & VMAX, 3 => 1 << 61, _ => bv(r) };
            let declared = if r.chance(1, 15) { n as u64 + 1 } else { n as u64 };
            let wf = declared == n as u64 && off + n as u64 <= VMAX;
            (Frame::Crypto(CryptoFrame::new(vi(off), vi(declared)), Bytes::from(r.bytes(n))), wf, true)
        }
        21 => {
            let n = plen(r, true);
            let with_len = r.chance(1, 2);
            let declared = if r.chance(1, 15) { n as u64 + 1 } else { n as u64 };
            sink.branch(if with_len { "datagram:len" } else { "datagram:nolen" });
            (Frame::Datagram(DatagramFrame::new(with_len, vi(declared)), Bytes::from(r.bytes(n))), declared == n as u64, with_len)
        }
        22 => { let v6 = r.chance(1, 2); let (a, c) = sock_c(r, v6); sink.branch(&format!("addr:{}", c)); (Frame::AddAddress(AddAddressFrame::new(bv32(r), a, bv32(r), *r.pick(&NATS))), true, true) }
        23 => (Frame::RemoveAddress(RemoveAddressFrame { seq_num: vi(bv(r)) }), true, true),
        24 => { let v6 = r.chance(1, 2); let (a, c) = sock_c(r, v6); sink.branch(&format!("addr:{}", c)); (Frame::PunchMeNow(PunchMeNowFrame::new(bv32(r), bv32(r), a, bv32(r), *r.pick(&NATS))), true, true) }
        25 => (Frame::PunchHello(PunchHelloFrame::new(bv32(r), bv32(r), bv32(r))), true, true),
        _ => (Frame::PunchDone(PunchDoneFrame::new(bv32(r), bv32(r), bv32(r))), true, true),
    }
}
pub(crate) const NKINDS: u64 = 27;

pub(crate) fn nom_code(desc: &str) -> &'static str {
    match desc {
        "End of file" => "Eof",
        "Needed data size is too large" => "TooLarge",
        "predicate verification" => "Verify",
        "Alternative" => "Alt",
        _ => "Other",
    }
}

pub(crate) fn dec_obs(input: &Bytes, pt: Type) -> (String, Option<(usize, Frame)>) {
    let inp = input.clone();
    match catch(move || be_frame(&inp, pt)) {
        Err(_) => ("PANIC".into(), None),
        Ok(Err(e)) => (
            match e {
                FE::NoFrames => "err NoFrames".into(),
                FE::IncompleteType(_) => "err IncompleteType".into(),
                FE::InvalidType(v) => format!("err InvalidType:{}", v.into_u64()),
                FE::WrongType(..) => "err WrongType".into(),
                FE::IncompleteFrame(..) => "err IncompleteFrame".into(),
                FE::ParseError(_, d) => format!("err ParseError:{}", nom_code(&d)),
            },
            None,
        ),
        Ok(Ok((used, f, _))) => (format!("ok used={} {}", used, show(&f)), Some((used, f))),
    }
}

pub(crate) struct Enc { pub bytes: Vec<u8>, pub size: usize, pub max: usize }

pub(crate) fn encode(f: &Frame) -> Result<Enc, String> {
    let f = f.clone();
    catch(move || {
        let mut v: Vec<u8> = Vec::new();
        v.put_frame(&f);
        Enc { bytes: v, size: f.encoding_size(), max: f.max_encoding_size() }
    })
}

pub(crate) fn data_len(f: &Frame) -> usize {
    match f { Frame::Stream(_, d) | Frame::Crypto(_, d) | Frame::Datagram(_, d) => d.len(), _ => 0 }
}

fn permitted(f: &Frame) -> Vec<u64> {
    (0..4).filter(|&i| f.belongs_to(pkt_type(i).0)).collect()
}

fn enc_op(r: &mut Rng, sink: &mut Sink, kind: u64) -> Option<Vec<u8>> {
    let (f, wf, delimited) = gen_frame(r, kind, sink);
    let k = kind_of(&f);
    sink.branch(&format!("kind:{}", k));
    let perm = permitted(&f);
    let pti = if r.chance(5, 6) { *r.pick(&perm) } else { r.below(6) };
    let (pt, ptn) = pkt_type(pti);
    let tn = r.range(1, 9) as usize;
    let tail = if delimited && r.chance(1, 2) { r.bytes(tn) } else { vec![] };
    let op = format!("enc {} {} {}", ptn, hex(&tail), show(&f));
    sink.pending(&op);
    let e = match encode(&f) {
        Ok(e) => e,
        Err(msg) => {
            sink.line(&op, "PANIC");
            if wf { sink.monitor_fail(&format!("panic:enc:{}", k), &format!("put_frame / encoding_size panicked on a well-formed {}: {}", k, msg)); }
            return None;
        }
    };
    let mut input = e.bytes.clone();
    input.extend_from_slice(&tail);
    let input = Bytes::from(input);
    let (d, val) = dec_obs(&input, pt);
    sink.line(&op, &format!("wf={} bytes={} size={} max={} {}", b01(wf), hex(&e.bytes), e.size, e.max, d));
    if wf {
        sink.nontrivial();
        // monitors: never consult the model
        let dl = data_len(&f);
        if e.bytes.len() != e.size + dl {
            sink.monitor_fail(&format!("size:{}", k), &format!("{} wrote {} bytes but declared encoding_size {} (+{} data): {}", k, e.bytes.len(), e.size, dl, short(&show(&f))));
        }
        if e.size > e.max {
            sink.monitor_fail(&format!("max:{}", k), &format!("{} encoding_size {} > max_encoding_size {}: {}", k, e.size, e.max, short(&show(&f))));
        }
        if perm.contains(&pti) {
            match val {
                Some((used, g)) => {
                    // scope id / flowinfo of an IPv6 socket address are host-local and not encoded: `show` omits them
                    if g != f && show(&g) != show(&f) { sink.monitor_fail(&format!("roundtrip:{}", k), &format!("{} decodes to a different value: {} -> {}", k, short(&show(&f)), short(&show(&g)))); }
                    else if used != e.bytes.len() { sink.monitor_fail(&format!("consumed:{}", k), &format!("{} wrote {} bytes, decoder consumed {}", k, e.bytes.len(), used)); }
                }
                None => sink.monitor_fail(&format!("roundtrip:{}", k), &format!("{} does not decode ({}): {}", k, d, short(&show(&f)))),
            }
        }
    } else {
        sink.branch("enc:not-wf");
    }
    Some(e.bytes)
}

fn short(s: &str) -> String { if s.len() > 160 { format!("{}…", &s[..160]) } else { s.to_string() } }

pub fn run_enc(o: &Opts) {
    let mut sink = Sink::new_with_stats(&o.out, &o.stats);
    for i in 0..o.cases {
        if let Some(k) = o.only_case { if k != i { continue; } }
        let mut rng = Rng::new(o.seed, i);
        sink.case(&format!("{}", i));
        // every kind in turn (case index) so that small runs still cover all 27 kinds
        let kind = if i < 4 * NKINDS { i % NKINDS } else { rng.below(NKINDS) };
        for _ in 0..3 { enc_op(&mut rng, &mut sink, kind); }
    }
    sink.finish(&o.stats, "C05: type-directed frames (27 kinds incl. both CONNECTION_CLOSE layers, 6 stream-control kinds, 5 traversal extension frames; every STREAM/ACK/DATAGRAM flag combination; fields from the boundary set {0,1,63,64,16383,16384,2^30-1,2^30,2^32-1,2^32,2^60,2^60+1,2^61,2^62-2,2^62-1} + small + uniform 62-bit; cid lengths 0..20; payload lengths 0..70000 around 63/64/16383/16384), encoded by the real put_frame into a Vec, decoded by be_frame in a generated packet type with a random tail; non-trivial = frame built well-formed (monitors evaluated); distinct by transcript hash");
}

fn dec_line(sink: &mut Sink, pti: u64, input: Vec<u8>) {
    let (pt, ptn) = pkt_type(pti);
    let op = format!("dec {} {}", ptn, hex(&input));
    sink.pending(&op);
    let (d, _) = dec_obs(&Bytes::from(input), pt);
    sink.branch(&format!("dec:{}", d.split(' ').take(2).collect::<Vec<_>>().join("_").split(':').next().unwrap()));
    sink.line(&op, &d);
}

pub fn run_dec(o: &Opts) {
    let mut sink = Sink::new_with_stats(&o.out, &o.stats);
    let mut quiet = Sink::new("/dev/null");
    for i in 0..o.cases {
        if let Some(k) = o.only_case { if k != i { continue; } }
        let mut rng = Rng::new(o.seed, i);
        sink.case(&format!("{}", i));
        let kind = if i < 4 * NKINDS { i % NKINDS } else { rng.below(NKINDS) };
        // a valid encoding to start from (small payloads: the interesting part is the header)
        let base = loop {
            let (f, _, _) = gen_frame(&mut rng, kind, &mut quiet);
            if data_len(&f) > 300 { continue; }
            if let Frame::Close(_) | Frame::NewToken(_) = f { if f.encoding_size() > 400 { continue; } }
            if let Ok(e) = encode(&f) { break e.bytes; }
        };
        for _ in 0..4 {
            let pti = if rng.chance(4, 5) { 3 } else { rng.below(6) };
            let mut b = base.clone();
            match rng.below(8) {
                0 => { let n = rng.below(b.len() as u64 + 1) as usize; b.truncate(n); sink.branch("mut:truncate"); }
                1 => { if !b.is_empty() { let p = rng.below(b.len() as u64) as usize; b[p] = rng.next_u64() as u8; } sink.branch("mut:byte"); }
                2 => { if !b.is_empty() { let p = rng.below(b.len() as u64) as usize; b[p] ^= 1 << rng.below(8); } sink.branch("mut:bit"); }
                3 => { let n = rng.range(1, 12) as usize; let x = rng.bytes(n); b.extend(x); sink.branch("mut:extend"); }
                4 => {
                    // overwrite a position after the type with a boundary varint
                    let v = bv(&mut rng);
                    let mut enc = vec![];
                    qbase::varint::WriteVarInt::put_varint(&mut enc, &vi(v));
                    let p = rng.range(1, b.len().max(1) as u64) as usize;
                    b.truncate(p.min(b.len()));
                    b.extend(enc);
                    let n = rng.below(20) as usize; let x = rng.bytes(n); b.extend(x);
                    sink.branch("mut:varint");
                }
                5 => { let n = rng.below(24) as usize; b = rng.bytes(n); sink.branch("mut:random"); }
                6 => {
                    // frame type from the table + random body
                    let mut enc = vec![];
                    qbase::varint::WriteVarInt::put_varint(&mut enc, &vi(*rng.pick(&FT_NUMS)));
                    let n = rng.below(40) as usize; let x = rng.bytes(n); enc.extend(x);
                    b = enc;
                    sink.branch("mut:type+random");
                }
                _ => { sink.branch("mut:none"); }
            }
            dec_line(&mut sink, pti, b);
        }
        sink.nontrivial();
    }
    sink.finish(&o.stats, "C05dec: be_frame on truncations, byte / bit mutations, extensions, boundary-varint overwrites of valid encodings produced by the C05 generator, random bytes, and table frame types with random bodies; outcome class (ok + value + consumed | error variant + nom code | PANIC) compared exactly; distinct by transcript hash");
}

pub fn run_ft(o: &Opts) {
    let mut sink = Sink::new_with_stats(&o.out, &o.stats);
    sink.case("0");
    let mut rng = Rng::new(o.seed, 0);
    let mut nums: Vec<u64> = (0..300).collect();
    nums.extend((0x3d7e80..0x3d7eb0).collect::<Vec<u64>>());
    nums.extend([16383, 16384, (1 << 30) - 1, 1 << 30, VMAX]);
    for _ in 0..o.cases { nums.push(bv(&mut rng)); }
    for n in nums {
        let op = format!("ftype {}", n);
        let obs = match FrameType::try_from(vi(n)) {
            Err(_) => "none".to_string(),
            Ok(ft) => {
                let bits: String = (0..6).map(|i| if ft.belongs_to(pkt_type(i).0) { '1' } else { '0' }).collect();
                format!("{} num={} in={} specs={}", ft_name(ft), VarInt::from(ft).into_u64(), bits, ft.specs())
            }
        };
        sink.line(&op, &obs);
    }
    sink.nontrivial();
    sink.finish(&o.stats, "C05ft: FrameType::try_from / VarInt::from / belongs_to(I,H,0,1,Retry,VN) / specs of the compiled code for 0..300, 0x3d7e80..0x3d7eb0, boundaries and random 62-bit numbers, compared with the table generated from the source text");
}

pub const RUNS: &[(&str, fn(&Opts))] = &[("C05", run_enc), ("C05dec", run_dec), ("C05ft", run_ft)];
