//! C16 (see c16.rs for the runner): stream `Listener` (accept_bi / accept_uni on a real client `DataStreams`) and
//! the `SendWakers::wake_all_by` fan-out over two paths.
use std::{future::Future, pin::Pin, task::Context};

use bytes::Bytes;
use qbase::{
    frame::StreamFrame,
    net::{
        addr::EndpointAddr,
        route::Pathway,
        tx::{ArcSendWaker, ArcSendWakers, Signals},
    },
    role::Role,
    sid::{Dir, StreamId},
};

use super::c11::conn_error;
use super::c11s::{endpoint, Endpoint, Wiring, P6};
use super::c16::{poll_tok, run_inst, Inst, Wakers, NWAKERS};
use crate::common::{Opts, Rng};

// ------------------------------------------------------------------------------------------------
// 11. Listener
pub const LISTEN_LIMIT: u64 = 8;
struct ListenI {
    e: Endpoint,
}
impl Inst for ListenI {
    const NAME: &'static str = "Listener";
    // `accept_bi(&self)` / `accept_uni(&self)` on a cloneable connection handle: several acceptor tasks are a
    // legitimate use, so multi-task losses ARE reported for this instance
    const MULTI: bool = true;
    const CLOSE: &'static str = "conn_error";
    fn new(_: &mut Rng) -> Self {
        ListenI { e: endpoint(Wiring::Client, P6 { l: [100, 100, 100], r: [100, 100, 100] }, 100_000, 100_000, LISTEN_LIMIT) }
    }
    fn gen_op(&self, rng: &mut Rng, _single: bool) -> String {
        // 3 of 4 cases: one acceptor task; else two
        match rng.below(10) {
            0..=4 => {
                let t = if rng.chance(3, 4) { 0 } else { rng.below(2) };
                format!("poll {} {} {}", t, if rng.chance(2, 3) { t } else { rng.below(NWAKERS as u64) }, rng.below(2))
            }
            5..=7 => format!("arrive {} {}", rng.below(2), rng.below(7)),
            8 => "conn_error".into(),
            _ => format!("dropfut {}", rng.below(2)),
        }
    }
    fn alphabet() -> Vec<String> {
        ["poll 0 0 0", "poll 0 1 1", "poll 0 2 0", "arrive 0 0", "arrive 0 2", "arrive 1 1", "conn_error"].iter().map(|s| s.to_string()).collect()
    }
    fn apply(&mut self, op: &[&str], wk: &Wakers) -> String {
        match op[0] {
            "poll" => {
                let w: usize = op[2].parse().unwrap();
                let mut cx = Context::from_waker(&wk.w[w]);
                if op[3] == "0" {
                    let mut f = self.e.ds.accept_bi(&self.e.params);
                    poll_tok(Pin::new(&mut f).poll(&mut cx), |v| match v {
                        Ok((sid, _)) => format!("ready:{}", sid.id()),
                        Err(_) => "err".into(),
                    })
                } else {
                    let mut f = self.e.ds.accept_uni();
                    poll_tok(Pin::new(&mut f).poll(&mut cx), |v| match v {
                        Ok((sid, _)) => format!("ready:{}", sid.id()),
                        Err(_) => "err".into(),
                    })
                }
            }
            "arrive" => {
                let dir = if op[1] == "0" { Dir::Bi } else { Dir::Uni };
                let sid = StreamId::new(Role::Server, dir, op[2].parse().unwrap());
                match self.e.ds.recv_data((StreamFrame::new(sid, 0, 0), Bytes::new())) {
                    Ok(_) => "-".into(),
                    Err(_) => "err".into(),
                }
            }
            "conn_error" => {
                self.e.ds.on_conn_error(&conn_error());
                "-".into()
            }
            _ => "-".into(),
        }
    }
}

// ------------------------------------------------------------------------------------------------
// 12. SendWakers fan-out
fn way(i: u16) -> Pathway {
    let a: std::net::SocketAddr = format!("127.0.0.1:{}", 1000 + i).parse().unwrap();
    let b: std::net::SocketAddr = format!("127.0.0.1:{}", 2000 + i).parse().unwrap();
    Pathway::new(EndpointAddr::Direct { addr: a }, EndpointAddr::Direct { addr: b })
}
struct FanI {
    all: ArcSendWakers,
    p: [ArcSendWaker; 2],
}
const MASKS: [u16; 6] = [1, 2, 3, 4, 6, 0x3ff];
impl Inst for FanI {
    const NAME: &'static str = "SendWakers";
    const MULTI: bool = true; // task t is path t's own burst task: both may wait at once
    const CLOSE: &'static str = "-";
    fn new(_: &mut Rng) -> Self {
        FanI { all: ArcSendWakers::new(), p: [ArcSendWaker::new(), ArcSendWaker::new()] }
    }
    fn gen_op(&self, rng: &mut Rng, _single: bool) -> String {
        match rng.below(12) {
            0..=4 => {
                let t = rng.below(2);
                // one task per path; its waker may change
                format!("poll {} {} {}", t, if rng.chance(3, 4) { t } else { 2 + t }, rng.pick(&MASKS))
            }
            5..=8 => format!("wake_all {}", rng.pick(&MASKS)),
            9 => format!("insert {}", rng.below(2)),
            10 => if rng.chance(1, 2) { format!("insert {}", rng.below(2)) } else { format!("remove {}", rng.below(2)) },
            _ => format!("dropfut {}", rng.below(2)),
        }
    }
    fn alphabet() -> Vec<String> {
        ["poll 0 0 1", "poll 1 1 3", "poll 0 2 6", "wake_all 1", "wake_all 2", "insert 0", "insert 1", "remove 1"].iter().map(|s| s.to_string()).collect()
    }
    fn apply(&mut self, op: &[&str], wk: &Wakers) -> String {
        match op[0] {
            "poll" => {
                let t: usize = op[1].parse().unwrap();
                let w: usize = op[2].parse().unwrap();
                let sig = Signals::from_bits_truncate(op[3].parse().unwrap());
                let mut f = Box::pin(self.p[t.min(1)].wait_for(sig));
                poll_tok(f.as_mut().poll(&mut Context::from_waker(&wk.w[w])), |_| "ready:0".into())
            }
            "wake_all" => {
                self.all.wake_all_by(Signals::from_bits_truncate(op[1].parse().unwrap()));
                "-".into()
            }
            "insert" => {
                let i: usize = op[1].parse().unwrap();
                self.all.insert(way(i as u16), &self.p[i]);
                "-".into()
            }
            "remove" => {
                let i: usize = op[1].parse().unwrap();
                self.all.remove(&way(i as u16));
                "-".into()
            }
            _ => "-".into(),
        }
    }
}

pub const RUNS: &[(&str, fn(&Opts))] = &[("C16lsn", run_inst::<ListenI>), ("C16fan", run_inst::<FanI>)];
