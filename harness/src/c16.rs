//! C16 — no wake-up is ever lost.  Drives the REAL waiter/notifier objects of gm-quic with sequential op
//! lists (every method takes the object's mutex, so a sequential list *is* an interleaving at lock
//! granularity) and counting wakers; the transcript is compared line by line with the Lean model
//! (`GmQuic/Model/Wake*.lean`).
//!
//! Line grammar:   `poll <task> <waker> [args] | <notifier op> [args] | close-like op | dropfut <task>`
//!                 `=> <pending|ready:<v>|done|err|PANIC|-> wakes=<sorted waker ids woken by this op | ->`
//!
//! Monitors (independent of the model; they only look at what the real code answered):
//!  * `lost-wakeup:<Inst>:<class>` — at the end of every case each task whose last poll was `Pending`, none of
//!    whose wakers was woken since, and which did not drop its future, polls once more with the same
//!    arguments: anything but `Pending` means the condition holds and the task would have slept forever.
//!    Reported only when the API admits the schedule: for single-slot protocols only if no other task polled
//!    in between (`class` = `plain` | `waker-changed`); for multi-waiter protocols always (`multi-task`).
//!  * `close-no-wake:<Inst>` — the close/fail/reset op did not wake a current sleeper.
use std::{
    future::Future,
    pin::Pin,
    sync::{Arc, Mutex},
    task::{Context, Poll, Wake, Waker},
};

use qbase::{
    frame::{io::ReceiveFrame, MaxStreamsFrame, StreamCtlFrame},
    net::tx::{ArcSendWaker, Signals},
    util::ArcAsyncDeque,
    varint::VarInt,
};

use super::c11::conn_error;
use super::c11s::{endpoint, Endpoint, Wiring, P6};
use crate::common::{catch, Opts, Rng, Sink};

pub const NWAKERS: usize = 6;

struct Wk {
    id: usize,
    log: Arc<Mutex<Vec<usize>>>,
}
impl Wake for Wk {
    fn wake(self: Arc<Self>) {
        self.log.lock().unwrap().push(self.id);
    }
    fn wake_by_ref(self: &Arc<Self>) {
        self.log.lock().unwrap().push(self.id);
    }
}

pub struct Wakers {
    log: Arc<Mutex<Vec<usize>>>,
    pub w: Vec<Waker>,
}
impl Wakers {
    fn new() -> Self {
        let log = Arc::new(Mutex::new(vec![]));
        let w = (0..NWAKERS).map(|id| Waker::from(Arc::new(Wk { id, log: log.clone() }))).collect();
        Wakers { log, w }
    }
    fn drain(&self) -> Vec<usize> {
        let mut v = std::mem::take(&mut *self.log.lock().unwrap());
        v.sort();
        v
    }
}

pub trait Inst: Sized {
    const NAME: &'static str;
    /// several tasks may legitimately wait at once (one registration per waiter)
    const MULTI: bool;
    /// name of the close-like op (first token), if the object has one
    const CLOSE: &'static str;
    /// ops that the waiting task performs itself (it is awake: its sleeper entry is void), as task 0
    const OWNER_OPS: &'static [&'static str] = &[];
    fn new(rng: &mut Rng) -> Self;
    /// a random op (text); `single`: only task 0 polls
    fn gen_op(&self, rng: &mut Rng, single: bool) -> String;
    /// small alphabet for the exhaustive tier
    fn alphabet() -> Vec<String>;
    /// apply to the REAL object; result token
    fn apply(&mut self, op: &[&str], wk: &Wakers) -> String;
}

pub fn poll_tok<T>(p: Poll<T>, f: impl FnOnce(T) -> String) -> String {
    match p {
        Poll::Pending => "pending".into(),
        Poll::Ready(v) => f(v),
    }
}

struct Slp {
    task: usize,
    waker: usize,
    op: String,
    others_polled: bool,
    changed: bool,
}

fn run_case<I: Inst>(sink: &mut Sink, id: &str, ops: &mut dyn FnMut(&I, usize) -> Option<String>, rng: &mut Rng) {
    sink.case(id);
    let wk = Wakers::new();
    let mut inst = I::new(rng);
    let mut slp: Vec<Slp> = vec![];
    let mut last_waker: Vec<Option<usize>> = vec![None; 8];
    let mut n = 0usize;
    let mut panicked = false;
    let mut interesting = false;
    loop {
        let Some(op) = ops(&inst, n) else { break };
        n += 1;
        let toks: Vec<&str> = op.split(' ').collect();
        sink.pending(&op);
        let res = match catch(|| inst.apply(&toks, &wk)) {
            Ok(r) => r,
            Err(_) => "PANIC".to_string(),
        };
        let wakes = wk.drain();
        let ws = if wakes.is_empty() { "-".to_string() } else { wakes.iter().map(|x| x.to_string()).collect::<Vec<_>>().join(",") };
        sink.line(&op, &format!("{} wakes={}", res, ws));
        sink.branch(&format!("{}:{}", toks[0], res.split(':').next().unwrap()));
        // ---- monitor bookkeeping (independent of the model)
        if toks[0] == I::CLOSE {
            for s in &slp {
                if !wakes.contains(&s.waker) && (I::MULTI || !s.others_polled) {
                    let key = if s.others_polled { format!("close-no-wake:{}:multi-task", I::NAME) } else { format!("close-no-wake:{}", I::NAME) };
                    sink.monitor_fail(&key, &format!("{} did not wake waker {} of task {} which is asleep in `{}`", op, s.waker, s.task, s.op));
                }
            }
        }
        if toks[0] == "poll" {
            let t: usize = toks[1].parse().unwrap();
            let w: usize = toks[2].parse().unwrap();
            let changed = slp.iter().any(|s| s.task == t && s.waker != w);
            slp.retain(|s| s.task != t);
            for s in slp.iter_mut() {
                s.others_polled = true;
            }
            if res == "pending" {
                slp.push(Slp { task: t, waker: w, op: op.clone(), others_polled: false, changed });
            }
            last_waker[t] = Some(w);
        } else if toks[0] == "dropfut" {
            let t: usize = toks[1].parse().unwrap();
            slp.retain(|s| s.task != t);
        } else if I::OWNER_OPS.contains(&toks[0]) {
            // the single owner acted: it is awake (in the multi-task stress mode of a single-owner API every
            // task index stands for that owner)
            if I::MULTI { slp.retain(|s| s.task != 0); } else { slp.clear(); }
        }
        if !wakes.is_empty() {
            interesting = true;
        }
        slp.retain(|s| !wakes.contains(&s.waker));
        if res == "PANIC" {
            panicked = true;
            break;
        }
    }
    // ---- quiescence: every remaining sleeper polls once more
    if !panicked {
        let rest: Vec<Slp> = std::mem::take(&mut slp);
        let mut rest_flags: Vec<bool> = vec![false];
        for mut s in rest {
            if rest_flags[0] {
                s.others_polled = true;
            }
            let toks: Vec<&str> = s.op.split(' ').collect();
            sink.pending(&s.op);
            let res = match catch(|| inst.apply(&toks, &wk)) {
                Ok(r) => r,
                Err(_) => "PANIC".to_string(),
            };
            let wakes = wk.drain();
            let ws = if wakes.is_empty() { "-".to_string() } else { wakes.iter().map(|x| x.to_string()).collect::<Vec<_>>().join(",") };
            sink.line(&s.op, &format!("{} wakes={}", res, ws));
            if res == "PANIC" {
                break;
            }
            // this re-poll is itself a poll by another task as far as the remaining sleepers are concerned
            for later in rest_flags.iter_mut() {
                *later = true;
            }
            if res != "pending" {
                let class = if s.others_polled { "multi-task" } else if s.changed { "waker-changed" } else { "plain" };
                if s.others_polled && !I::MULTI {
                    sink.branch("single-slot-overwritten-by-other-task(not a finding: one waiting task by API)");
                } else {
                    sink.monitor_fail(
                        &format!("lost-wakeup:{}:{}", I::NAME, class),
                        &format!("task {} polled `{}` => pending, waker {} was never woken afterwards, yet the same poll now answers `{}`", s.task, s.op, s.waker, res),
                    );
                }
            } else {
                sink.branch("quiescent-sleeper-still-pending");
            }
        }
    }
    if interesting {
        sink.nontrivial();
    }
}

pub fn run_inst<I: Inst>(o: &Opts) {
    let mut sink = Sink::new_with_stats(&o.out, &o.stats);
    // random schedules
    for case in 0..o.cases {
        if let Some(only) = o.only_case {
            if only != case {
                continue;
            }
        }
        let mut rng = Rng::new(o.seed, case);
        let len = rng.range(1, 12) as usize;
        let single = !I::MULTI && !rng.chance(1, 4);
        let mut r2 = Rng::new(o.seed ^ 0x5555, case);
        let mut f = |i: &I, n: usize| if n < len { Some(i.gen_op(&mut r2, single)) } else { None };
        run_case::<I>(&mut sink, &format!("{}", case), &mut f, &mut rng);
    }
    // exhaustive small scope
    let alpha = I::alphabet();
    let budget: u64 = if o.thorough() { 400_000 } else { 30_000 };
    let mut maxlen = 1usize;
    {
        let mut total = alpha.len() as u64;
        let mut pow = alpha.len() as u64;
        while maxlen < 8 {
            pow = pow.saturating_mul(alpha.len() as u64);
            if total + pow > budget {
                break;
            }
            total += pow;
            maxlen += 1;
        }
    }
    sink.note("exhaustive", serde_json::json!({"alphabet": alpha, "max_len": maxlen}));
    if o.only_case.is_none() || o.only_case.map(|c| c >= o.cases).unwrap_or(false) {
        let mut idx = o.cases;
        for len in 1..=maxlen {
            let mut ctr = vec![0usize; len];
            loop {
                let this = idx;
                idx += 1;
                if o.only_case.is_none() || o.only_case == Some(this) {
                    let mut rng = Rng::new(o.seed, this);
                    let c = ctr.clone();
                    let a = &alpha;
                    let mut f = |_: &I, n: usize| if n < c.len() { Some(a[c[n]].clone()) } else { None };
                    run_case::<I>(&mut sink, &format!("{}", this), &mut f, &mut rng);
                }
                // next
                let mut k = 0;
                while k < len {
                    ctr[k] += 1;
                    if ctr[k] < alpha.len() {
                        break;
                    }
                    ctr[k] = 0;
                    k += 1;
                }
                if k == len {
                    break;
                }
            }
        }
    }
    sink.finish(&o.stats, &format!("{}: random op lists (1..12 ops; polls by up to 2 tasks with up to {} wakers, notifier ops, close, drop) + every op list over a small alphabet up to the noted length; every case ends with a re-poll of every remaining sleeper; non-trivial = at least one waker was woken", I::NAME, NWAKERS));
}

// ------------------------------------------------------------------------------------------------
// 1. AsyncDeque
struct DequeI {
    q: ArcAsyncDeque<u32>,
    next: u32,
}
impl Inst for DequeI {
    const NAME: &'static str = "AsyncDeque";
    const MULTI: bool = false;
    const CLOSE: &'static str = "close";
    fn new(_: &mut Rng) -> Self {
        DequeI { q: ArcAsyncDeque::new(), next: 0 }
    }
    fn gen_op(&self, rng: &mut Rng, single: bool) -> String {
        match rng.below(10) {
            0..=3 => format!("poll {} {}", if single { 0 } else { rng.below(2) }, if rng.chance(3, 4) { 0 } else { rng.below(NWAKERS as u64) }),
            4..=5 => format!("push_back {}", rng.below(100)),
            6 => format!("push_front {}", rng.below(100)),
            7 => format!("extend {} {}", rng.below(100), rng.below(100)),
            8 => "close".into(),
            _ => format!("dropfut {}", rng.below(2)),
        }
    }
    fn alphabet() -> Vec<String> {
        ["poll 0 0", "poll 0 1", "poll 1 1", "push_back 7", "push_front 9", "close"].iter().map(|s| s.to_string()).collect()
    }
    fn apply(&mut self, op: &[&str], wk: &Wakers) -> String {
        let _ = self.next;
        match op[0] {
            "poll" => {
                let w: usize = op[2].parse().unwrap();
                poll_tok(self.q.poll_pop(&mut Context::from_waker(&wk.w[w])), |v| match v {
                    Some(v) => format!("ready:{}", v),
                    None => "done".into(),
                })
            }
            "push_back" => {
                self.q.push_back(op[1].parse().unwrap());
                "-".into()
            }
            "push_front" => {
                self.q.push_front(op[1].parse().unwrap());
                "-".into()
            }
            "extend" => {
                let mut q = &self.q;
                q.extend([op[1].parse::<u32>().unwrap(), op[2].parse::<u32>().unwrap()]);
                "-".into()
            }
            "close" => {
                self.q.close();
                "-".into()
            }
            _ => "-".into(),
        }
    }
}

// ------------------------------------------------------------------------------------------------
// 2. Receiving
struct RecvI {
    r: qbase::ArcReceiving<u32>,
}
impl Inst for RecvI {
    const NAME: &'static str = "Receiving";
    const MULTI: bool = false;
    const CLOSE: &'static str = "reset";
    fn new(_: &mut Rng) -> Self {
        RecvI { r: Default::default() }
    }
    fn gen_op(&self, rng: &mut Rng, single: bool) -> String {
        match rng.below(10) {
            0..=4 => format!("poll {} {}", if single { 0 } else { rng.below(2) }, if rng.chance(2, 3) { 0 } else { rng.below(NWAKERS as u64) }),
            5..=7 => format!("recv {}", rng.below(100)),
            8 => "reset".into(),
            _ => format!("dropfut {}", rng.below(2)),
        }
    }
    fn alphabet() -> Vec<String> {
        ["poll 0 0", "poll 0 1", "poll 1 2", "recv 5", "recv 6", "reset"].iter().map(|s| s.to_string()).collect()
    }
    fn apply(&mut self, op: &[&str], wk: &Wakers) -> String {
        match op[0] {
            "poll" => {
                let w: usize = op[2].parse().unwrap();
                let mut f = self.r.clone();
                poll_tok(Pin::new(&mut f).poll(&mut Context::from_waker(&wk.w[w])), |v| match v {
                    Ok(Some(v)) => format!("ready:{}", v),
                    Ok(None) => "done".into(),
                    Err(_) => "err".into(),
                })
            }
            "recv" => {
                let _ = self.r.recv_frame(op[1].parse::<u32>().unwrap());
                "-".into()
            }
            "reset" => {
                self.r.reset();
                "-".into()
            }
            _ => "-".into(),
        }
    }
}

// ------------------------------------------------------------------------------------------------
// 3. SendWaker
struct SendWakerI {
    s: ArcSendWaker,
}
const MASKS: [u16; 7] = [1, 2, 3, 4, 6, 0x3ff, 0x200];
impl Inst for SendWakerI {
    const NAME: &'static str = "SendWaker";
    const MULTI: bool = false;
    const CLOSE: &'static str = "wake_all_signals";
    fn new(_: &mut Rng) -> Self {
        SendWakerI { s: ArcSendWaker::new() }
    }
    fn gen_op(&self, rng: &mut Rng, single: bool) -> String {
        match rng.below(10) {
            0..=4 => format!("poll {} {} {}", if single { 0 } else { rng.below(2) }, if rng.chance(2, 3) { 0 } else { rng.below(NWAKERS as u64) }, rng.pick(&MASKS)),
            5..=8 => format!("wake_by {}", rng.pick(&MASKS)),
            _ => format!("dropfut {}", rng.below(2)),
        }
    }
    fn alphabet() -> Vec<String> {
        ["poll 0 0 1", "poll 0 1 3", "poll 0 0 6", "poll 1 2 1", "wake_by 1", "wake_by 2", "wake_by 4"].iter().map(|s| s.to_string()).collect()
    }
    fn apply(&mut self, op: &[&str], wk: &Wakers) -> String {
        match op[0] {
            "poll" => {
                let w: usize = op[2].parse().unwrap();
                let sig = Signals::from_bits_truncate(op[3].parse().unwrap());
                let mut f = Box::pin(self.s.wait_for(sig));
                poll_tok(f.as_mut().poll(&mut Context::from_waker(&wk.w[w])), |_| "ready:0".into())
            }
            "wake_by" => {
                self.s.wake_by(Signals::from_bits_truncate(op[1].parse().unwrap()));
                "-".into()
            }
            _ => "-".into(),
        }
    }
}

// ------------------------------------------------------------------------------------------------
// 4. opening a stream: DataStreams::open_{bi,uni} -> LocalStreamIds::poll_alloc_sid
struct OpenI {
    e: Endpoint,
}
impl Inst for OpenI {
    const NAME: &'static str = "OpenStream";
    const MULTI: bool = true;
    const CLOSE: &'static str = "conn_error";
    fn new(_: &mut Rng) -> Self {
        OpenI { e: endpoint(Wiring::Client, P6 { l: [100, 100, 100], r: [100, 100, 100] }, 1000, 1000, 0) }
    }
    fn gen_op(&self, rng: &mut Rng, _single: bool) -> String {
        match rng.below(10) {
            0..=4 => {
                let t = rng.below(3);
                format!("poll {} {} {}", t, if rng.chance(3, 4) { t } else { rng.below(NWAKERS as u64) }, rng.below(2))
            }
            5..=7 => format!("max_streams {} {}", rng.below(2), rng.below(4)),
            8 => "conn_error".into(),
            _ => format!("dropfut {}", rng.below(3)),
        }
    }
    fn alphabet() -> Vec<String> {
        ["poll 0 0 0", "poll 1 1 0", "poll 1 1 1", "max_streams 0 1", "max_streams 0 2", "max_streams 1 1", "conn_error"].iter().map(|s| s.to_string()).collect()
    }
    fn apply(&mut self, op: &[&str], wk: &Wakers) -> String {
        match op[0] {
            "poll" => {
                let w: usize = op[2].parse().unwrap();
                let mut cx = Context::from_waker(&wk.w[w]);
                if op[3] == "0" {
                    let mut f = self.e.ds.open_bi(&self.e.params);
                    poll_tok(Pin::new(&mut f).poll(&mut cx), |v| match v {
                        Ok(Some((sid, _))) => format!("ready:{}", sid.id()),
                        Ok(None) => "done".into(),
                        Err(_) => "err".into(),
                    })
                } else {
                    let mut f = self.e.ds.open_uni(&self.e.params);
                    poll_tok(Pin::new(&mut f).poll(&mut cx), |v| match v {
                        Ok(Some((sid, _))) => format!("ready:{}", sid.id()),
                        Ok(None) => "done".into(),
                        Err(_) => "err".into(),
                    })
                }
            }
            "max_streams" => {
                let v = VarInt::from_u64(op[2].parse().unwrap()).unwrap();
                let f = if op[1] == "0" { MaxStreamsFrame::Bi(v) } else { MaxStreamsFrame::Uni(v) };
                let _ = self.e.ds.recv_frame(StreamCtlFrame::MaxStreams(f));
                "-".into()
            }
            "conn_error" => {
                self.e.ds.on_conn_error(&conn_error());
                "-".into()
            }
            _ => "-".into(),
        }
    }
}

pub const RUNS: &[(&str, fn(&Opts))] = &[
    ("C16dq", run_inst::<DequeI>),
    ("C16rx", run_inst::<RecvI>),
    ("C16sw", run_inst::<SendWakerI>),
    ("C16open", run_inst::<OpenI>),
];
