//! C17 — closing or failing a connection ends every pending operation.
//!
//! * `C17st`  REAL `qconnection::state::ArcConnState`: random sequential lists of `enter_handshaked /
//!   enter_closing / enter_draining / update(Closed)` (exact against `Model/ConnState.lean`, every call run to
//!   completion), plus real threads racing the same entry points behind a barrier (monitor only).
//! * `C17p`   the poison graph on REAL `DataStreams` (client and server role, remote parameters ready or still
//!   awaited), `DatagramFlow`, `ArcParameters`: EXHAUSTIVE enumeration of (pending-op kind × object state), then
//!   random histories mixing normal operations, the three `on_conn_error` calls of
//!   `Components::enter_closing` (also split, repeated, with other ops in between) and late operations.
//! * `C17i`   REAL `qbase::time::ArcIdleTimer` under tokio's paused clock.
//!
//! Monitors (never consult the model): after `on_conn_error` no operation on the poisoned object returns
//! Pending, nor Ok unless the stream half had reached a terminal state before; every counting waker that was
//! parked on the poisoned object has been woken; the error returned is the first one; state codes never
//! decrease and the termination error never changes; TIMEOUT never earlier than max_idle (+defer) after the
//! last effective packet and strictly later than max_idle after the last received packet.
use std::{
    collections::BTreeMap,
    future::Future,
    pin::Pin,
    sync::{
        Arc, Barrier,
        atomic::{AtomicUsize, Ordering},
    },
    task::{Context, Poll, Wake, Waker},
};

use bytes::Bytes;
use qbase::{
    cid::ConnectionId,
    error::{Error, ErrorFrameType, ErrorKind, QuicError},
    flow::{ArcRecvController, ArcSendControler},
    frame::{ConnectionCloseFrame, DatagramFrame, FrameType, ResetStreamFrame, StreamCtlFrame, StreamFrame},
    net::tx::ArcSendWakers,
    packet::PacketContent,
    param::{ClientParameters, ParameterId, ServerParameters, core::Parameters as RoleParams},
    role::Role,
    sid::{Dir, StreamId, handy::DemandConcurrency},
    time::ArcIdleConfig,
    varint::VarInt,
};
use qconnection::state::{ArcConnState, encode};
use qdatagram::{DatagramFlow, DatagramReader, DatagramWriter};
use qevent::quic::connectivity::BaseConnectionStates;
use qrecovery::{send::CancelStream, streams::DataStreams};

use super::c11::Rec;
use super::c11s::{endpoint, Endpoint, Pkt, Wiring, P6, R, W};
use crate::common::{catch, Opts, Rng, Sink};

pub const RUNS: &[(&str, fn(&Opts))] = &[("C17st", run_st), ("C17p", run_p), ("C17i", run_i)];

const VMAX: u64 = (1 << 62) - 1;
fn vi(v: u64) -> VarInt {
    VarInt::from_u64(v).unwrap()
}

struct Cnt(AtomicUsize);
impl Wake for Cnt {
    fn wake(self: Arc<Self>) {
        self.0.fetch_add(1, Ordering::SeqCst);
    }
}
fn cwaker() -> (Arc<Cnt>, Waker) {
    let c = Arc::new(Cnt(AtomicUsize::new(0)));
    (c.clone(), Waker::from(c))
}
fn noop_cx() -> Context<'static> {
    Context::from_waker(futures::task::noop_waker_ref())
}

fn mk_qerr(n: u64) -> QuicError {
    QuicError::new(ErrorKind::Internal, ErrorFrameType::V1(FrameType::Padding), format!("verif-err-{}!", n))
}
fn mk_err(n: u64) -> Error {
    mk_qerr(n).into()
}
/// canonical name of an error from its Debug text: the id of our connection error, or `es` (stream-level)
fn ename(d: &str) -> String {
    if let Some(p) = d.find("verif-err-") {
        let rest = &d[p + 10..];
        let e = rest.find(|c: char| !c.is_ascii_digit()).unwrap_or(rest.len());
        return format!("err:{}", &rest[..e]);
    }
    if d.contains("Reset") || d.contains("EosSent") {
        return "es".into();
    }
    format!("err:?{}", d.chars().filter(|c| c.is_ascii_alphanumeric()).take(24).collect::<String>())
}

// =====================================================================================================
// C17st — ArcConnState
// =====================================================================================================

fn poll_once<F: Future>(f: F) -> Option<F::Output> {
    let mut f = Box::pin(f);
    match f.as_mut().poll(&mut noop_cx()) {
        Poll::Ready(v) => Some(v),
        Poll::Pending => None,
    }
}

fn st_obs(st: &ArcConnState) -> (u8, Option<String>, bool) {
    let code = st.current().map(encode).unwrap_or(0);
    let term = poll_once(st.terminated()).map(|e| ename(&format!("{:?}", e)));
    // `handshaked()` selects between the two cells at random when both are set: retry until Ok shows up
    let mut hs = false;
    for _ in 0..64 {
        match poll_once(st.handshaked()) {
            Some(Ok(())) => { hs = true; break; }
            Some(Err(_)) => continue,
            None => break,
        }
    }
    (code, term, hs)
}

fn run_st(o: &Opts) {
    let mut sink = Sink::new_with_stats(&o.out, &o.stats);
    for case in 0..o.cases {
        if let Some(only) = o.only_case { if only != case { continue; } }
        let mut rng = Rng::new(o.seed, case);
        sink.case(&case.to_string());
        let st = ArcConnState::new();
        let n = rng.range(1, 9);
        let (mut last_code, mut last_term): (u8, Option<String>) = (0, None);
        let mut first_close: Option<String> = None;
        let mut bare_closed = false;
        for k in 0..n {
            let e = case * 16 + k + 1;
            let which = rng.below(10);
            let (op, r): (String, Result<Option<u8>, String>) = match which {
                0 | 1 => ("hs".into(), catch(|| st.enter_handshaked().map(encode))),
                2..=4 => (format!("closing {}", e), catch(|| st.enter_closing(&mk_qerr(e)).map(encode))),
                5..=7 => {
                    let ccf = ConnectionCloseFrame::new_quic(ErrorKind::Internal, ErrorFrameType::V1(FrameType::Padding), format!("verif-err-{}!", e));
                    (format!("draining {}", e), catch(|| st.enter_draining(&ccf).map(encode)))
                }
                _ => ("terminate".into(), catch(|| st.update(BaseConnectionStates::Closed.into()).map(encode))),
            };
            sink.branch(op.split(' ').next().unwrap());
            let (code, term, hs) = st_obs(&st);
            let obs = match &r {
                Err(m) => { sink.monitor_fail(&format!("panic:{}", op.split(' ').next().unwrap()), m); "PANIC".to_string() }
                Ok(old) => format!(
                    "ret={} code={} term={} hs={}",
                    old.map(|c| c.to_string()).unwrap_or("-".into()), code, term.clone().unwrap_or("-".into()), hs as u8
                ),
            };
            // monitors
            if code < last_code { sink.monitor_fail("state_code_decreased", &format!("{} -> {}", last_code, code)); }
            if last_term.is_some() && term != last_term { sink.monitor_fail("termination_error_changed", &format!("{:?} -> {:?}", last_term, term)); }
            if let Ok(Some(old)) = &r {
                if (op.starts_with("closing") || op.starts_with("draining")) && *old < 7 && first_close.is_none() { first_close = Some(format!("err:{}", e)); }
                if op == "terminate" && *old < 7 { bare_closed = true; }
                sink.nontrivial();
            }
            if term.is_some() && term != first_close { sink.monitor_fail("termination_error_not_first", &format!("{:?} vs first closer {:?}", term, first_close)); }
            if !bare_closed && (code >= 7) != term.is_some() { sink.monitor_fail("closed_without_error", &format!("code {} term {:?}", code, term)); }
            last_code = code;
            if term.is_some() { last_term = term; }
            sink.line(&op, &obs);
        }
    }
    // real threads racing (monitor only; the transcript line carries the verdict the model checks trivially)
    let rounds = if o.thorough() { 20000 } else { 4000 };
    sink.case("race");
    let mut bad = 0u64;
    for round in 0..rounds {
        sink.pending("race");
        let st = ArcConnState::new();
        let nthr = 2 + (round % 3) as usize;
        let bar = Arc::new(Barrier::new(nthr));
        let winners = Arc::new(AtomicUsize::new(0));
        let panics = Arc::new(AtomicUsize::new(0));
        let won_id = Arc::new(AtomicUsize::new(0));
        let mut hs = vec![];
        for t in 0..nthr {
            let (st, bar, winners, panics, won_id) = (st.clone(), bar.clone(), winners.clone(), panics.clone(), won_id.clone());
            hs.push(std::thread::spawn(move || {
                let e = (t + 1) as u64;
                bar.wait();
                let r = catch(|| match (t + round as usize) % 3 {
                    0 => st.enter_closing(&mk_qerr(e)).map(encode),
                    1 => {
                        let ccf = ConnectionCloseFrame::new_quic(ErrorKind::Internal, ErrorFrameType::V1(FrameType::Padding), format!("verif-err-{}!", e));
                        st.enter_draining(&ccf).map(encode)
                    }
                    _ => { st.enter_handshaked(); st.enter_closing(&mk_qerr(e)).map(encode) }
                });
                match r {
                    Err(_) => { panics.fetch_add(1, Ordering::SeqCst); }
                    Ok(Some(old)) if old < 7 => { winners.fetch_add(1, Ordering::SeqCst); won_id.store(e as usize, Ordering::SeqCst); }
                    _ => {}
                }
            }));
        }
        for h in hs { let _ = h.join(); }
        let (code, term, _) = st_obs(&st);
        let w = winners.load(Ordering::SeqCst);
        let p = panics.load(Ordering::SeqCst);
        let want = format!("err:{}", won_id.load(Ordering::SeqCst));
        if p != 0 { bad += 1; sink.monitor_fail("race:expect_panicked", &format!("round {} threads {}", round, nthr)); }
        if w != 1 { bad += 1; sink.monitor_fail("race:winners_not_one", &format!("round {} winners {}", round, w)); }
        if term.as_deref() != Some(want.as_str()) { bad += 1; sink.monitor_fail("race:error_not_winners", &format!("round {} term {:?} want {}", round, term, want)); }
        if code < 7 { bad += 1; sink.monitor_fail("race:not_closed", &format!("code {}", code)); }
    }
    sink.line(&format!("race rounds={}", rounds), &format!("bad={}", bad));
    sink.note("race_rounds", serde_json::json!(rounds));
    sink.finish(&o.stats, "random sequential lists (1..8 calls) of enter_handshaked / enter_closing / enter_draining / update(Closed) on a real ArcConnState, every observable (returned old state, current(), terminated(), handshaked()) compared exactly; non-trivial = a call returned Some; plus real racing threads (2..4 behind a barrier), monitors only");
}

// =====================================================================================================
// C17p — poison graph
// =====================================================================================================

const SST: [&str; 6] = ["ready", "sending", "datasent", "datarcvd", "resetsent", "resetrcvd"];
const RST: [&str; 6] = ["recv", "sizeknown", "datarcvd", "dataread", "resetrcvd", "resetread"];

fn state_name(d: &str) -> String {
    let Some(p) = d.find("data: ") else { return "?".into() };
    let rest = &d[p + 6..];
    if rest.starts_with("Err(") { return "Err".into(); }
    let Some(rest) = rest.strip_prefix("Ok(") else { return "?".into() };
    let e = rest.find(|c: char| !c.is_ascii_alphanumeric()).unwrap_or(rest.len());
    rest[..e].to_string()
}

struct SndH { sid: StreamId, w: W, emitted: Vec<(u64, u64, bool)>, term: bool, cw: [(Arc<Cnt>, Waker); 3] }
struct RcvH { r: R, term: bool, c: (Arc<Cnt>, Waker) }

fn fill<Rl: qbase::role::IntoRole + Default>(p: &mut RoleParams<Rl>, win: u64, streams: u64) {
    for id in [ParameterId::InitialMaxStreamDataBidiLocal, ParameterId::InitialMaxStreamDataBidiRemote, ParameterId::InitialMaxStreamDataUni] {
        p.set(id, vi(win)).unwrap();
    }
    p.set(ParameterId::InitialMaxData, vi(VMAX)).unwrap();
    p.set(ParameterId::InitialMaxStreamsBidi, vi(streams)).unwrap();
    p.set(ParameterId::InitialMaxStreamsUni, vi(streams)).unwrap();
}

const WIN: u64 = 1000;
const STREAMS: u64 = 6;

/// endpoint whose peer parameters have NOT arrived yet (and none remembered)
fn pre_endpoint(role: Role) -> (Endpoint, ClientParameters, ServerParameters) {
    let rec = Rec::default();
    let wakers = ArcSendWakers::default();
    let odcid = ConnectionId::from_slice(&[7u8; 8]);
    let mut cp = ClientParameters::default();
    let mut sp = ServerParameters::default();
    fill(&mut cp, WIN, STREAMS);
    fill(&mut sp, WIN, STREAMS);
    cp.set(ParameterId::InitialSourceConnectionId, ConnectionId::from_slice(&[1u8; 8])).unwrap();
    sp.set(ParameterId::InitialSourceConnectionId, ConnectionId::from_slice(&[2u8; 8])).unwrap();
    sp.set(ParameterId::OriginalDestinationConnectionId, odcid).unwrap();
    let e = match role {
        Role::Client => {
            let ds = DataStreams::new(Role::Client, &cp, &ServerParameters::default(), Box::new(DemandConcurrency), rec.clone(), wakers.clone(), None);
            let ps = qbase::param::Parameters::new_client(cp.clone(), None, odcid);
            Endpoint { role, ds, params: ps.into(), rec: rec.clone(), fc: ArcSendControler::new(0, rec.clone(), wakers), rc: ArcRecvController::new(VMAX, rec) }
        }
        Role::Server => {
            let ds = DataStreams::new(Role::Server, &sp, &ClientParameters::default(), Box::new(DemandConcurrency), rec.clone(), wakers.clone(), None);
            let ps = qbase::param::Parameters::new_server(sp.clone());
            Endpoint { role, ds, params: ps.into(), rec: rec.clone(), fc: ArcSendControler::new(0, rec.clone(), wakers), rc: ArcRecvController::new(VMAX, rec) }
        }
    };
    (e, cp, sp)
}

struct World {
    ep: Endpoint,
    pre: Option<(ClientParameters, ServerParameters)>, // Some = remote parameters still awaited
    dg: DatagramFlow,
    dgr: DatagramReader,
    dgw: DatagramWriter,
    snds: Vec<SndH>,
    rcvs: Vec<RcvH>,
    nrem: u64, // remote-initiated uni streams created so far
    nrem_bi: u64,
    quni: u64,
    named: BTreeMap<&'static str, (Arc<Cnt>, Waker)>, // ab au ob ou dg pr
    parked: Vec<(String, &'static str, Arc<Cnt>, usize)>, // label, object (ds|dg|pr), counter, count at parking
    open_where: BTreeMap<&'static str, &'static str>,
    err_ds: Option<String>,
    err_dg: Option<String>,
    err_pr: Option<String>,
    big: ArcSendControler<Rec>,
}

impl World {
    fn new(role: Role, params_ready: bool) -> World {
        let (ep, pre) = if params_ready {
            let w = if role == Role::Client { Wiring::Client } else { Wiring::Server };
            (endpoint(w, P6 { l: [WIN; 3], r: [WIN; 3] }, VMAX, VMAX, STREAMS), None)
        } else {
            let (e, cp, sp) = pre_endpoint(role);
            (e, Some((cp, sp)))
        };
        let dg = DatagramFlow::new(1200, Default::default());
        let dgr = dg.reader().expect("reader");
        let dgw = dg.writer(1200).expect("writer");
        let mut named = BTreeMap::new();
        for k in ["ab", "au", "ob", "ou", "dg", "pr"] { named.insert(k, cwaker()); }
        World { ep, pre, dg, dgr, dgw, snds: vec![], rcvs: vec![], nrem: 0, nrem_bi: 0, quni: 0, named, parked: vec![], open_where: BTreeMap::new(),
                err_ds: None, err_dg: None, err_pr: None, big: ArcSendControler::new(VMAX, Rec::default(), ArcSendWakers::default()) }
    }
    fn peer(&self) -> Role { if self.ep.role == Role::Client { Role::Server } else { Role::Client } }

    fn park(&mut self, label: String, obj: &'static str, c: &Arc<Cnt>) {
        if !self.parked.iter().any(|p| p.0 == label) {
            self.parked.push((label, obj, c.clone(), c.0.load(Ordering::SeqCst)));
        }
    }
    /// labels (sorted) of parked counting wakers woken since they were parked; they are removed from the list
    fn collect_woken(&mut self) -> String {
        let mut w: Vec<String> = vec![];
        self.parked.retain(|(l, _, c, at)| {
            if c.0.load(Ordering::SeqCst) > *at { w.push(l.clone()); false } else { true }
        });
        w.sort();
        if w.is_empty() { "-".into() } else { w.join(",") }
    }
    fn load(&mut self, i: usize) {
        for _ in 0..8 {
            let mut pkt = Pkt::new(1200);
            if self.ep.ds.try_load_data_into(&mut pkt, &self.big, false).is_err() { break; }
            for (s, a, b, f) in &pkt.frames {
                for h in self.snds.iter_mut() { if u64::from(h.sid) == *s { h.emitted.push((*a, *b, *f)); } }
            }
        }
        let _ = i;
    }
}

fn res_unit<E: std::fmt::Debug>(p: Poll<Result<(), E>>) -> String {
    match p {
        Poll::Pending => "pending".into(),
        Poll::Ready(Ok(())) => "ok".into(),
        Poll::Ready(Err(e)) => ename(&format!("{:?}", e)),
    }
}

/// executes one op on the real objects; returns the observation
fn do_op(wd: &mut World, op: &[&str], sink: &mut Sink) -> String {
    match op {
        ["mk", "snd", st, full] => {
            let Some((sid, mut w)) = wd.ep.open_uni() else { return "fail".into() };
            let n = if *full == "1" { WIN as usize } else { 4 };
            if w.write(Bytes::from(vec![7u8; n])).is_err() { return "fail".into(); }
            let cw = [cwaker(), cwaker(), cwaker()];
            wd.snds.push(SndH { sid, w, emitted: vec![], term: false, cw });
            let i = wd.snds.len() - 1;
            let sti = SST.iter().position(|s| s == st).unwrap();
            if (1..=3).contains(&sti) { wd.load(i); }
            if (2..=3).contains(&sti) {
                let wk = wd.snds[i].cw[2].1.clone();
                let c = wd.snds[i].cw[2].0.clone();
                let _ = wd.snds[i].w.poll_shutdown(&mut Context::from_waker(&wk));
                wd.park(format!("s{}", i), "ds", &c);
                wd.load(i);
            }
            if sti == 3 {
                for (a, b, f) in wd.snds[i].emitted.clone() {
                    let mut fr = StreamFrame::new(sid, a, (b - a) as usize);
                    fr.set_eos_flag(f);
                    wd.ep.ds.on_data_acked(fr);
                }
                wd.snds[i].term = true;
            }
            if sti >= 4 {
                wd.load(i);
                wd.snds[i].w.cancel(7);
                wd.snds[i].term = true;
            }
            if sti == 5 { wd.ep.ds.on_reset_acked(ResetStreamFrame::new(sid, vi(7), vi(n as u64))); }
            let woken = wd.collect_woken();
            format!("ok st={} woken={}", state_name(&format!("{:?}", wd.snds[i].w)), woken)
        }
        ["mk", "rcv", st] => {
            if wd.err_ds.is_some() { return "fail".into(); }
            if wd.quni > 0 { return "skip".into(); }
            let sid = StreamId::new(wd.peer(), Dir::Uni, wd.nrem);
            wd.nrem += 1;
            if wd.ep.ds.recv_data((StreamFrame::new(sid, 0, 0), Bytes::new())).is_err() { return "fail".into(); }
            let Some((s2, r)) = wd.ep.accept_uni() else { return "fail".into() };
            if s2 != sid { return "fail:sid".into(); }
            wd.rcvs.push(RcvH { r, term: false, c: cwaker() });
            let i = wd.rcvs.len() - 1;
            let sti = RST.iter().position(|s| s == st).unwrap();
            match sti {
                0 => {}
                1 => { let mut f = StreamFrame::new(sid, 2, 2); f.set_eos_flag(true); let _ = wd.ep.ds.recv_data((f, Bytes::from_static(&[1, 2]))); }
                2 | 3 => { let mut f = StreamFrame::new(sid, 0, 4); f.set_eos_flag(true); let _ = wd.ep.ds.recv_data((f, Bytes::from_static(&[1, 2, 3, 4]))); wd.rcvs[i].term = true; }
                _ => { let _ = wd.ep.ds.recv_stream_control(StreamCtlFrame::ResetStream(ResetStreamFrame::new(sid, vi(9), vi(0)))); wd.rcvs[i].term = true; }
            }
            if sti == 3 || sti == 5 {
                let mut dst: Vec<u8> = vec![];
                let _ = wd.rcvs[i].r.poll_read(&mut noop_cx(), &mut dst);
            }
            let woken = wd.collect_woken();
            format!("ok st={} woken={}", state_name(&format!("{:?}", wd.rcvs[i].r)), woken)
        }
        ["queue", d] => {
            let dir = if *d == "bi" { Dir::Bi } else { Dir::Uni };
            let k = if dir == Dir::Bi { wd.nrem_bi += 1; wd.nrem_bi - 1 } else { wd.nrem += 1; wd.nrem - 1 };
            let sid = StreamId::new(wd.peer(), dir, k);
            let r = wd.ep.ds.recv_data((StreamFrame::new(sid, 0, 0), Bytes::new()));
            if r.is_ok() && wd.err_ds.is_none() && dir == Dir::Uni { wd.quni += 1; }
            format!("{} woken={}", if r.is_ok() { "ok" } else { "err" }, wd.collect_woken())
        }
        ["exhaust"] => {
            for _ in 0..2 * STREAMS + 2 { if wd.ep.open_uni().is_none() { break; } }
            for _ in 0..2 * STREAMS + 2 { if wd.ep.open_bi().is_none() { break; } }
            "ok".into()
        }
        ["params"] => {
            let Some((cp, sp)) = wd.pre.clone() else { return "already".into() };
            let r = {
                let mut g = match wd.ep.params.lock_guard() { Ok(g) => g, Err(e) => return ename(&format!("{:?}", e)) };
                if wd.ep.role == Role::Client {
                    g.recv_remote_params(sp.clone()).and_then(|_| g.initial_scid_from_peer_need_equal(ConnectionId::from_slice(&[2u8; 8])))
                } else {
                    g.recv_remote_params(cp.clone()).and_then(|_| g.initial_scid_from_peer_need_equal(ConnectionId::from_slice(&[1u8; 8])))
                }
            };
            if r.is_err() { return "fail".into(); }
            wd.pre = None;
            if wd.ep.role == Role::Client { wd.ep.ds.revise_params(false, &sp); } else { wd.ep.ds.revise_params(false, &cp); }
            format!("ok woken={}", wd.collect_woken())
        }
        [k @ ("write" | "flush" | "shutdown"), i] => {
            let i: usize = i.parse().unwrap();
            if i >= wd.snds.len() { return "fail".into(); }
            let slot = match *k { "write" => 0, "flush" => 1, _ => 2 };
            let (c, wk) = wd.snds[i].cw[slot].clone();
            let mut cx = Context::from_waker(&wk);
            let r = match *k {
                "write" => res_unit(wd.snds[i].w.poll_write(&mut cx, Bytes::from_static(&[9]))),
                "flush" => res_unit(wd.snds[i].w.poll_flush(&mut cx)),
                _ => res_unit(wd.snds[i].w.poll_shutdown(&mut cx)),
            };
            if r == "pending" { wd.park(format!("{}{}", &k[..1], i), "ds", &c); }
            if wd.err_ds.is_some() {
                if r == "pending" { sink.monitor_fail(&format!("pending_after_error:{}", k), &format!("snd {}", i)); }
                if r == "ok" && !wd.snds[i].term { sink.monitor_fail(&format!("ok_after_error:{}", k), &format!("snd {}", i)); }
                if r.starts_with("err:") && Some(&r) != wd.err_ds.as_ref() { sink.monitor_fail("error_not_first", &format!("{} got {} first {:?}", k, r, wd.err_ds)); }
            }
            r
        }
        ["read", i] => {
            let i: usize = i.parse().unwrap();
            if i >= wd.rcvs.len() { return "fail".into(); }
            let (c, wk) = wd.rcvs[i].c.clone();
            let mut dst: Vec<u8> = vec![];
            let r = match wd.rcvs[i].r.poll_read(&mut Context::from_waker(&wk), &mut dst) {
                Poll::Pending => "pending".to_string(),
                Poll::Ready(Ok(())) => if dst.is_empty() { "eof".into() } else { "data".into() },
                Poll::Ready(Err(e)) => ename(&format!("{:?}", e)),
            };
            if r == "pending" { wd.park(format!("r{}", i), "ds", &c); }
            if wd.err_ds.is_some() {
                if r == "pending" { sink.monitor_fail("pending_after_error:read", &format!("rcv {}", i)); }
                if (r == "data" || r == "eof") && !wd.rcvs[i].term { sink.monitor_fail("ok_after_error:read", &format!("rcv {}", i)); }
                if r.starts_with("err:") && Some(&r) != wd.err_ds.as_ref() { sink.monitor_fail("error_not_first", &format!("read got {} first {:?}", r, wd.err_ds)); }
            }
            r
        }
        [k @ ("acceptbi" | "acceptuni" | "openbi" | "openuni")] => {
            let lab: &'static str = match *k { "acceptbi" => "ab", "acceptuni" => "au", "openbi" => "ob", _ => "ou" };
            let (c, wk) = wd.named[lab].clone();
            let mut cx = Context::from_waker(&wk);
            let r = match *k {
                "acceptbi" => { let mut f = wd.ep.ds.accept_bi(&wd.ep.params); match Pin::new(&mut f).poll(&mut cx) { Poll::Pending => "pending".to_string(), Poll::Ready(Ok(_)) => "ok".into(), Poll::Ready(Err(e)) => ename(&format!("{:?}", e)) } }
                "acceptuni" => { let mut f = wd.ep.ds.accept_uni(); match Pin::new(&mut f).poll(&mut cx) { Poll::Pending => "pending".to_string(), Poll::Ready(Ok(_)) => { wd.quni -= 1; "ok".into() }, Poll::Ready(Err(e)) => ename(&format!("{:?}", e)) } }
                "openbi" => { let mut f = wd.ep.ds.open_bi(&wd.ep.params); match Pin::new(&mut f).poll(&mut cx) { Poll::Pending => "pending".to_string(), Poll::Ready(Ok(Some(_))) => "ok".into(), Poll::Ready(Ok(None)) => "none".into(), Poll::Ready(Err(e)) => ename(&format!("{:?}", e)) } }
                _ => { let mut f = wd.ep.ds.open_uni(&wd.ep.params); match Pin::new(&mut f).poll(&mut cx) { Poll::Pending => "pending".to_string(), Poll::Ready(Ok(Some(_))) => "ok".into(), Poll::Ready(Ok(None)) => "none".into(), Poll::Ready(Err(e)) => ename(&format!("{:?}", e)) } }
            };
            if r == "pending" {
                // where the waiter sits: remote parameters (a parameters waiter) or listener / stream-id allocator (DataStreams)
                let on_params = wd.pre.is_some() && lab != "au";
                wd.open_where.insert(lab, if on_params { "params" } else if lab.starts_with('o') { "stream_limit" } else { "listener" });
                wd.park(lab.to_string(), if on_params { "pr" } else { "ds" }, &c);
            }
            if wd.err_ds.is_some() {
                if r == "pending" { sink.monitor_fail(&format!("pending_after_error:{}", k), ""); }
                if r == "ok" { sink.monitor_fail(&format!("ok_after_error:{}", k), ""); }
                if r.starts_with("err:") && Some(&r) != wd.err_ds.as_ref() { sink.monitor_fail("error_not_first", &format!("{} got {} first {:?}", k, r, wd.err_ds)); }
            } else if wd.err_pr.is_some() && lab != "au" {
                if r == "pending" { sink.monitor_fail(&format!("pending_after_error:{}", k), "parameters poisoned"); }
            }
            r
        }
        ["ready"] => {
            let (c, wk) = wd.named["pr"].clone();
            let r = {
                let mut f = Box::pin(wd.ep.params.remote_ready());
                match f.as_mut().poll(&mut Context::from_waker(&wk)) { Poll::Pending => "pending".to_string(), Poll::Ready(Ok(_)) => "ok".into(), Poll::Ready(Err(e)) => ename(&format!("{:?}", e)) }
            };
            if r == "pending" { wd.park("pr".into(), "pr", &c); }
            if wd.err_pr.is_some() && !r.starts_with("err:") { sink.monitor_fail("not_failed_after_error:remote_ready", &r); }
            r
        }
        ["dgrecv"] => {
            let (c, wk) = wd.named["dg"].clone();
            let r = match wd.dgr.poll_recv(&mut Context::from_waker(&wk)) {
                Poll::Pending => "pending".to_string(),
                Poll::Ready(Ok(_)) => "data".into(),
                Poll::Ready(Err(e)) => ename(&format!("{:?}", e)),
            };
            if r == "pending" { wd.park("dg".into(), "dg", &c); }
            if wd.err_dg.is_some() && !r.starts_with("err:") { sink.monitor_fail("not_failed_after_error:dgrecv", &r); }
            r
        }
        ["dgsend"] => {
            let r = match wd.dgw.send_bytes(Bytes::from_static(&[1, 2, 3])) { Ok(()) => "ok".to_string(), Err(e) => ename(&format!("{:?}", e)) };
            if wd.err_dg.is_some() && !r.starts_with("err:") { sink.monitor_fail("not_failed_after_error:dgsend", &r); }
            r
        }
        ["dgnew"] => {
            let a = match wd.dg.reader() { Ok(_) => "ok".to_string(), Err(e) => ename(&format!("{:?}", e)) };
            let b = match wd.dg.writer(1200) { Ok(_) => "ok".to_string(), Err(e) => ename(&format!("{:?}", e)) };
            if wd.err_dg.is_some() && (a == "ok" || b == "ok") { sink.monitor_fail("not_failed_after_error:dgnew", &format!("{} {}", a, b)); }
            format!("{} {}", a, b)
        }
        ["dgin"] => {
            use qbase::frame::io::ReceiveFrame;
            let r = wd.dg.recv_frame((DatagramFrame::new(true, vi(2)), Bytes::from_static(&[5, 6])));
            let s = match r { Ok(()) => "ok".to_string(), Err(e) => ename(&format!("{:?}", e)) };
            format!("{} woken={}", s, wd.collect_woken())
        }
        [k @ ("errds" | "errdg" | "errpr"), e] => {
            let n: u64 = e.parse().unwrap();
            let err = mk_err(n);
            let obj: &'static str = match *k { "errds" => "ds", "errdg" => "dg", _ => "pr" };
            match *k {
                "errds" => { wd.ep.ds.on_conn_error(&err); if wd.err_ds.is_none() { wd.err_ds = Some(format!("err:{}", n)); } }
                "errdg" => { wd.dg.on_conn_error(&err); if wd.err_dg.is_none() { wd.err_dg = Some(format!("err:{}", n)); } }
                _ => { wd.ep.params.on_conn_error(&err); if wd.err_pr.is_none() { wd.err_pr = Some(format!("err:{}", n)); } }
            }
            // monitor: every counting waker parked on this object must have been woken
            let stuck: Vec<(String, String)> = wd.parked.iter()
                .filter(|(_, o, c, at)| *o == obj && c.0.load(Ordering::SeqCst) == *at)
                .map(|(l, _, _, _)| {
                    let kind = match &l[..1] { "w" => "write", "f" => "flush", "s" => "shutdown", "r" => "read", _ => match l.as_str() { "ab" => "accept_bi", "au" => "accept_uni", "ob" => "open_bi", "ou" => "open_uni", "dg" => "datagram_recv", _ => "remote_ready" } };
                    let wher = wd.open_where.get(l.as_str()).copied().unwrap_or("");
                    (l.clone(), if wher.is_empty() { kind.to_string() } else { format!("{}:{}", kind, wher) })
                }).collect();
            for (l, kind) in &stuck {
                let key = if kind.starts_with("open_") { format!("pending_not_released:open:{}", kind.split(':').nth(1).unwrap_or("")) } else { format!("pending_not_released:{}", kind) };
                sink.monitor_fail(&key, &format!("waiter {} ({}) parked before {} was not woken by on_conn_error", l, kind, k));
            }
            wd.parked.retain(|(l, o, _, _)| !(*o == obj && stuck.iter().any(|(s, _)| s == l)));
            format!("woken={}", wd.collect_woken())
        }
        _ => "BADOP".into(),
    }
}

fn run_ops(wd: &mut World, ops: &[String], sink: &mut Sink) {
    for op in ops {
        let toks: Vec<&str> = op.split(' ').collect();
        sink.pending(op);
        let r = catch(std::panic::AssertUnwindSafe(|| do_op(wd, &toks, sink)));
        match r {
            Ok(obs) => {
                sink.branch(&format!("{}:{}", toks[0], obs.split([' ', ':']).next().unwrap_or("")));
                sink.line(op, &obs);
            }
            Err(m) => { sink.monitor_fail(&format!("panic:{}", toks[0]), &m); sink.line(op, "PANIC"); return; }
        }
    }
}

fn err3(e: u64) -> Vec<String> {
    vec![format!("errds {}", e), format!("errdg {}", e), format!("errpr {}", e)]
}

fn run_p(o: &Opts) {
    let mut sink = Sink::new_with_stats(&o.out, &o.stats);
    let mut cells = 0u64;
    let s = |x: &str| x.to_string();
    // ---- exhaustive enumeration --------------------------------------------------------------------
    for role in [Role::Client, Role::Server] {
        let rn = if role == Role::Client { "client" } else { "server" };
        let mut cases: Vec<(String, bool, Vec<String>)> = vec![];
        for st in SST {
            for full in ["1", "0"] {
                for wp in ["write", "flush", "shutdown"] {
                    let mut ops = vec![format!("mk snd {} {}", st, full), format!("{} 0", wp)];
                    ops.extend(err3(1));
                    ops.extend([format!("{} 0", wp), s("write 0"), s("flush 0"), s("shutdown 0")]);
                    ops.extend(err3(2));
                    ops.push(format!("{} 0", wp));
                    cases.push((format!("{}.snd.{}.{}.{}", rn, st, full, wp), true, ops));
                }
            }
        }
        for st in RST {
            let mut ops = vec![format!("mk rcv {}", st), s("read 0")];
            ops.extend(err3(1));
            ops.extend([s("read 0"), s("read 0")]);
            cases.push((format!("{}.rcv.{}", rn, st), true, ops));
        }
        for (acc, q) in [("acceptbi", "bi"), ("acceptuni", "uni")] {
            let mut ops = vec![s(acc)];
            ops.extend(err3(1));
            ops.extend([s(acc), format!("queue {}", q), s(acc)]);
            cases.push((format!("{}.lis.{}.empty", rn, acc), true, ops));
            let mut ops = vec![format!("queue {}", q), format!("queue {}", q), s(acc)];
            ops.extend(err3(1));
            ops.push(s(acc));
            cases.push((format!("{}.lis.{}.queued", rn, acc), true, ops));
        }
        for op in ["openbi", "openuni"] {
            let mut ops = vec![s("exhaust"), s(op)];
            ops.extend(err3(1));
            ops.push(s(op));
            cases.push((format!("{}.open.{}.limit", rn, op), true, ops));
            let mut ops = vec![s(op)];
            ops.extend(err3(1));
            ops.push(s(op));
            cases.push((format!("{}.open.{}.free", rn, op), true, ops));
        }
        for op in ["openbi", "openuni", "acceptbi", "acceptuni", "ready"] {
            for which in 0..4 {
                let mut ops = vec![s(op)];
                match which { 0 => ops.extend(err3(1)), 1 => ops.push(s("errds 1")), 2 => ops.push(s("errpr 1")), _ => { ops.push(s("params")); ops.push(s(op)); ops.extend(err3(1)); } }
                ops.push(s(op));
                cases.push((format!("{}.pre.{}.{}", rn, op, which), false, ops));
            }
        }
        for q in [false, true] {
            let mut ops = vec![];
            if q { ops.push(s("dgin")); ops.push(s("dgin")); ops.push(s("dgsend")); }
            ops.push(s("dgrecv"));
            ops.extend(err3(1));
            ops.extend([s("dgrecv"), s("dgsend"), s("dgnew"), s("dgin")]);
            cases.push((format!("{}.dg.{}", rn, q as u8), true, ops));
        }
        for (id, ready, ops) in cases {
            cells += 1;
            sink.case(&format!("E.{}", id));
            sink.line(&format!("env {} {}", rn, if ready { "ready" } else { "wait" }), "ok");
            let mut wd = World::new(role, ready);
            sink.nontrivial();
            run_ops(&mut wd, &ops, &mut sink);
        }
    }
    sink.note("exhaustive", serde_json::json!(true));
    sink.note("cells", serde_json::json!(cells));
    // ---- random histories ---------------------------------------------------------------------------
    for case in 0..o.cases {
        if let Some(only) = o.only_case { if only != case { continue; } }
        let mut rng = Rng::new(o.seed, case);
        let role = if rng.chance(1, 2) { Role::Client } else { Role::Server };
        let ready = !rng.chance(1, 4);
        sink.case(&case.to_string());
        sink.line(&format!("env {} {}", if role == Role::Client { "client" } else { "server" }, if ready { "ready" } else { "wait" }), "ok");
        let mut wd = World::new(role, ready);
        let mut is_ready = ready;
        let (mut ns, mut nr) = (0usize, 0usize);
        let (mut nq_bi, mut nq_uni) = (0u64, 0u64);
        let n = rng.range(6, 40);
        let mut ops: Vec<String> = vec![];
        let err_at = rng.below(n);
        let mut nerr = 0;
        let mut exhausted = false;
        let mut shut_seen = false; // after a `shutdown` no more `mk snd`: its packet assembly would also emit the FIN of the other stream (C16's upgrade protocol, not modelled here)
        let mut k = 0;
        while k < n {
            k += 1;
            if k == err_at || (nerr > 0 && rng.chance(1, 12)) {
                nerr += 1;
                let mut e3 = err3(nerr);
                match rng.below(4) {
                    0 => ops.extend(e3),
                    1 => { let i = rng.below(3) as usize; ops.push(e3.remove(i)); } // only one of them now
                    2 => { e3.reverse(); ops.extend(e3); }
                    _ => { ops.push(e3[0].clone()); ops.push(s(*rng.pick(&["dgsend", "ready", "dgrecv", "acceptuni"]))); ops.push(e3[1].clone()); ops.push(e3[2].clone()); }
                }
                continue;
            }
            let c = rng.below(24);
            let op = match c {
                0..=2 if is_ready && nerr == 0 && ns < 3 && !exhausted && !shut_seen => { ns += 1; format!("mk snd {} {}", rng.pick(&SST), rng.below(2)) }
                3..=4 if nerr == 0 && nr < 3 && nq_uni == 0 => { nr += 1; format!("mk rcv {}", rng.pick(&RST)) }
                5 if nq_bi < 2 && rng.chance(1, 2) => { nq_bi += 1; s("queue bi") }
                5 if nq_uni < 2 => { nq_uni += 1; s("queue uni") }
                6 if is_ready && nerr == 0 => { exhausted = true; s("exhaust") }
                7 if !is_ready => { is_ready = true; s("params") }
                8..=11 if ns > 0 => { let w = *rng.pick(&["write", "flush", "shutdown"]); if w == "shutdown" { shut_seen = true; } format!("{} {}", w, rng.below(ns as u64)) }
                12..=13 if nr > 0 => format!("read {}", rng.below(nr as u64)),
                14 => s("acceptbi"), 15 => s("acceptuni"), 16 => s("openbi"), 17 => s("openuni"),
                18 => s("ready"), 19 => s("dgrecv"), 20 => s("dgsend"), 21 => s("dgin"), 22 => s("dgnew"),
                _ => continue,
            };
            ops.push(op);
        }
        if nerr > 0 { sink.nontrivial(); }
        run_ops(&mut wd, &ops, &mut sink);
    }
    sink.finish(&o.stats, "EXHAUSTIVE part (cases E.*): both roles × every sender state × window full/free × {write, flush, shutdown}, every receiver state × read, accept_bi/uni on an empty and on a non-empty listener, open_bi/uni blocked on the stream limit and unblocked, every op blocked on the remote parameters × {all three on_conn_error calls, only DataStreams, only parameters, parameters arrive first}, datagram reader/writer: park a counting waker, call on_conn_error, check wake + error + later ops; then random histories (6..40 ops) with the error calls whole, single, reversed or interleaved with other ops and repeated with a different error; non-trivial = the history contains an on_conn_error call");
}

// =====================================================================================================
// C17i — IdleTimer under the paused tokio clock
// =====================================================================================================

fn run_i(o: &Opts) {
    let mut sink = Sink::new_with_stats(&o.out, &o.stats);
    let rt = tokio::runtime::Builder::new_current_thread().enable_time().start_paused(true).build().unwrap();
    rt.block_on(async {
        let t0 = tokio::time::Instant::now();
        // ---- fixed replay: a peer that went silent while we keep (re)transmitting once per second ---------------
        if o.only_case.is_none() {
            let us = |x: u64| std::time::Duration::from_micros(x);
            for (name, max_idle, period, periods) in [("S.blackhole.3s.1s", 3_000_000u64, 1_000_000u64, 1000u64), ("S.blackhole.3s.2999ms", 3_000_000, 2_999_000, 400)] {
                sink.case(name);
                let cfg = ArcIdleConfig::new(us(max_idle), us(0));
                let timer = cfg.timer();
                let start = tokio::time::Instant::now();
                sink.line(&format!("new {} 0", max_idle), "ok");
                timer.on_rcvd(PacketContent::EffectivePayload);
                sink.line("rcvd 1 0", "none");
                let mut timed_out_at: Option<u64> = None;
                for _ in 0..periods {
                    tokio::time::advance(us(period)).await;
                    let now = (tokio::time::Instant::now() - start).as_micros() as u64;
                    timer.on_sent(PacketContent::EffectivePayload);
                    sink.line(&format!("sent 1 {}", now), "none");
                    let r = timer.health();
                    let obs = match &r { Ok(None) => "none", Ok(Some(_)) => "ping", Err(_) => "timeout" };
                    sink.line(&format!("health {}", now), obs);
                    if r.is_err() { timed_out_at = Some(now); sink.nontrivial(); break; }
                }
                match timed_out_at {
                    None => sink.monitor_fail("idle_timeout_missing:while_sending", &format!("{}: nothing received since t=0, one effective packet sent every {} us and health() polled for {} periods, max_idle {} us: never TIMEOUT", name, period, periods, max_idle)),
                    Some(t) => if t > max_idle + 2 * period + period { sink.monitor_fail("idle_timeout_late:while_sending", &format!("{}: TIMEOUT only at {}", name, t)); },
                }
            }
        }
        for case in 0..o.cases {
            if let Some(only) = o.only_case { if only != case { continue; } }
            let mut rng = Rng::new(o.seed, case);
            sink.case(&case.to_string());
            let us = |x: u64| std::time::Duration::from_micros(x);
            let pick_idle = |rng: &mut Rng| match rng.below(6) { 0 => 0u64, 1 => rng.range(1, 50), 2 => rng.range(1_000_000, 4_000_000), 3 => 2_000_000, _ => rng.range(50, 3_000_000) };
            let max_idle = pick_idle(&mut rng);
            let defer = match rng.below(4) { 0 => 0, 1 => rng.range(1, 100), _ => rng.range(100, 5_000_000) };
            let cfg = ArcIdleConfig::new(us(max_idle), us(defer));
            let timer = cfg.timer();
            let start = tokio::time::Instant::now();
            let _ = t0;
            sink.line(&format!("new {} {}", max_idle, defer), "ok");
            let mut cur_max = max_idle;
            let mut now = 0u64;
            let mut last_eff: Option<u64> = None;
            let mut last_rcvd: Option<u64> = None;
            // RFC 9000 §10.1 bookkeeping, independent of the model: last restart, "sent since last receive", and the
            // first poll after restart + defer (from which on max_idle of silence must end in TIMEOUT)
            let mut restart: Option<u64> = None;
            let mut sent_since_rcvd = false;
            let mut idle_poll: Option<u64> = None;
            let mut n = rng.range(3, 30);
            let tail_from = if rng.chance(1, 3) { let k = n; n += rng.range(5, 40); k } else { u64::MAX };
            let mut step_no = 0u64;
            for _ in 0..n {
                step_no += 1;
                let in_tail = step_no > tail_from; // send-only tail: sends (mostly effective) and polls, nothing received
                // advance the clock
                let dt = if in_tail { match rng.below(4) { 0 => cur_max.saturating_sub(1).max(1), 1 => rng.range(1, cur_max.max(2)), _ => rng.range(1000, 1_500_000) } } else { match rng.below(8) { 0 => 0, 1 => 1, 2 => rng.range(1, 1000), 3 => cur_max.max(1), 4 => cur_max + 1, 5 => defer + 1, _ => rng.range(1000, 3_000_000) } };
                tokio::time::advance(us(dt)).await;
                now = (tokio::time::Instant::now() - start).as_micros() as u64;
                let c = if in_tail { if rng.chance(1, 2) { 0 } else { 9 } } else { rng.below(10) };
                match c {
                    0 | 1 => {
                        let eff = rng.chance(2, 3) || (in_tail && rng.chance(2, 3));
                        timer.on_sent(if eff { PacketContent::EffectivePayload } else { PacketContent::JustPing });
                        if eff { last_eff = Some(now); }
                        if eff && !sent_since_rcvd { sent_since_rcvd = true; restart = Some(now); idle_poll = None; }
                        if in_tail { sink.branch("tail:sent"); }
                        sink.line(&format!("sent {} {}", eff as u8, now), "none");
                    }
                    2 | 3 => {
                        let eff = rng.chance(1, 2);
                        timer.on_rcvd(if eff { PacketContent::EffectivePayload } else { PacketContent::JustPing });
                        if eff { last_eff = Some(now); }
                        sent_since_rcvd = false;
                        if eff { restart = Some(now); idle_poll = None; } else if idle_poll.is_some() { idle_poll = Some(now); }
                        last_rcvd = Some(now);
                        sink.line(&format!("rcvd {} {}", eff as u8, now), "none");
                    }
                    4 if rng.chance(1, 3) => {
                        let r = pick_idle(&mut rng);
                        cfg.negotiate_max_idle_timeout(us(r));
                        // monitor: RFC 9000 §10.1 minimum of the non-zero values
                        let want = if r == 0 { cur_max } else if cur_max == 0 { r } else { cur_max.min(r) };
                        cur_max = want;
                        sink.line(&format!("negotiate {}", r), "none");
                    }
                    _ => {
                        let r = catch(|| timer.health());
                        // liveness monitor (RFC rule): max_idle after the first poll past restart + defer, nothing received since
                        if let (Some(p), Ok(Ok(_))) = (idle_poll, &r) {
                            if cur_max != 0 && now > p + cur_max {
                                sink.monitor_fail("idle_timeout_missing:while_sending", &format!("now {} idle since poll {} (restart {:?}, defer {}), max_idle {}, nothing received since, yet health() is not TIMEOUT", now, p, restart, defer, cur_max));
                            }
                        }
                        if let (Some(r0), None) = (restart, idle_poll) { if now > r0 + defer { idle_poll = Some(now); } }
                        let obs = match r {
                            Err(m) => { sink.monitor_fail("panic:health", &m); "PANIC" }
                            Ok(Ok(None)) => "none",
                            Ok(Ok(Some(_))) => "ping",
                            Ok(Err(_)) => {
                                sink.nontrivial();
                                // monitors
                                if cur_max == 0 { sink.monitor_fail("timeout_while_disabled", &format!("now {}", now)); }
                                let _ = last_eff;
                                match restart {
                                    None => sink.monitor_fail("timeout_without_traffic", ""),
                                    Some(c0) => if now - c0 <= cur_max + defer { sink.monitor_fail("timeout_too_early:effective", &format!("now {} last restart (effective receive / first effective send since a receive) {} max_idle {} defer {}", now, c0, cur_max, defer)); }
                                }
                                if let Some(x) = last_rcvd { if now - x <= cur_max { sink.monitor_fail("timeout_too_early:received", &format!("now {} last received {} max_idle {}", now, x, cur_max)); } }
                                "timeout"
                            }
                        };
                        sink.branch(&format!("health:{}", obs));
                        sink.line(&format!("health {}", now), obs);
                    }
                }
            }
            // liveness monitor: with traffic seen and idle enabled, two more polls far enough apart must time out
            if let (Some(_), true) = (last_eff, cur_max != 0) {
                tokio::time::advance(us(defer + 1)).await;
                let now1 = (tokio::time::Instant::now() - start).as_micros() as u64;
                let r1 = timer.health();
                sink.line(&format!("health {}", now1), match &r1 { Ok(None) => "none", Ok(Some(_)) => "ping", Err(_) => "timeout" });
                tokio::time::advance(us(cur_max + 1)).await;
                let now2 = (tokio::time::Instant::now() - start).as_micros() as u64;
                let r2 = timer.health();
                sink.line(&format!("health {}", now2), match &r2 { Ok(None) => "none", Ok(Some(_)) => "ping", Err(_) => "timeout" });
                if r1.is_ok() && r2.is_ok() { sink.monitor_fail("idle_timeout_missing", &format!("no traffic since {:?}, polled at {} and {}, max_idle {} defer {}", last_eff, now1, now2, cur_max, defer)); }
                sink.branch("tail:timeout");
            }
            let _ = now;
        }
    });
    sink.finish(&o.stats, "random op lists (sent/rcvd effective or not, negotiate, health) on a real ArcIdleTimer with tokio's paused clock advanced by boundary-biased steps (0, 1, max_idle, max_idle+1, defer+1, random); observation of every health() compared exactly; non-trivial = a TIMEOUT was observed");
}
