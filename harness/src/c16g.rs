//! C16 (see c16.rs for the runner): the connection-level send flow-control credit wait (`ArcSendControler` + the
//! path's `ArcSendWaker`, reached through `ArcSendWakers::wake_all_by(FLOW_CONTROL)`), and `Wakers::combine_with`.
//! Whole methods run back to back; for `combine_with` the inner poll closure itself can trigger the resource's
//! notification right after its check — the only way a sequential harness can put the notifier BETWEEN the
//! registration and the return of `Pending`.
use std::{
    future::Future,
    sync::{Arc, Mutex},
    task::{Context, Poll, Waker},
};

use qbase::{
    flow::{ArcSendControler, Credit},
    frame::{io::ReceiveFrame, MaxDataFrame},
    net::{addr::EndpointAddr, route::Pathway, tx::{ArcSendWaker, ArcSendWakers, Signals}},
    util::Wakers as QWakers,
    varint::VarInt,
};

use super::c11::{conn_error, Rec};
use super::c16::{poll_tok, run_inst, Inst, Wakers, NWAKERS};
use crate::common::{Opts, Rng};

// ------------------------------------------------------------------------------------------------
// 16. flow-control credit
pub const FLOW_INIT: u64 = 5;
struct FlowI {
    flow: &'static ArcSendControler<Rec>,
    path: ArcSendWaker,
    held: Vec<Credit<'static, Rec>>,
}
impl Inst for FlowI {
    const NAME: &'static str = "FlowCredit";
    const MULTI: bool = false;
    const CLOSE: &'static str = "-";
    fn new(_: &mut Rng) -> Self {
        let all = ArcSendWakers::new();
        let path = ArcSendWaker::new();
        let a: std::net::SocketAddr = "127.0.0.1:1".parse().unwrap();
        let b: std::net::SocketAddr = "127.0.0.1:2".parse().unwrap();
        all.insert(Pathway::new(EndpointAddr::Direct { addr: a }, EndpointAddr::Direct { addr: b }), &path);
        // leaked on purpose: `Credit` borrows the controller and other paths' credits are held across ops
        let flow: &'static ArcSendControler<Rec> = Box::leak(Box::new(ArcSendControler::new(FLOW_INIT, Rec::default(), all)));
        FlowI { flow, path, held: vec![] }
    }
    fn gen_op(&self, rng: &mut Rng, _single: bool) -> String {
        match rng.below(16) {
            0..=5 => format!("poll 0 {} {}", if rng.chance(3, 4) { 0 } else { rng.below(NWAKERS as u64) }, rng.range(1, 6)),
            6..=7 => format!("max_data {}", rng.below(30)),
            8..=9 => format!("revise {} {}", rng.below(2), rng.below(30)),
            10..=11 => format!("other_take {}", rng.range(1, 6)),
            12..=13 => "other_return".into(),
            14 => "error".into(),
            _ => "dropfut 0".into(),
        }
    }
    fn alphabet() -> Vec<String> {
        ["poll 0 0 9", "poll 0 1 2", "max_data 12", "revise 1 3", "revise 1 20", "revise 0 20", "other_take 3", "other_return"].iter().map(|s| s.to_string()).collect()
    }
    fn apply(&mut self, op: &[&str], wk: &Wakers) -> String {
        match op[0] {
            "poll" => {
                let w: usize = op[2].parse().unwrap();
                let q: usize = op[3].parse().unwrap();
                let got = match self.flow.credit(q) {
                    Ok(mut c) => {
                        let a = c.available();
                        c.post_sent(a);
                        a // the Credit is dropped here
                    }
                    Err(_) => 0,
                };
                if got > 0 {
                    format!("ready:{}", got)
                } else {
                    let mut f = Box::pin(self.path.wait_for(Signals::FLOW_CONTROL));
                    poll_tok(f.as_mut().poll(&mut Context::from_waker(&wk.w[w])), |_| "ready:0".into())
                }
            }
            "max_data" => {
                let _ = self.flow.recv_frame(MaxDataFrame::new(VarInt::from_u64(op[1].parse().unwrap()).unwrap()));
                "-".into()
            }
            "revise" => {
                self.flow.revise_max_data(op[1] == "1", op[2].parse().unwrap());
                "-".into()
            }
            "other_take" => {
                if let Ok(c) = self.flow.credit(op[1].parse().unwrap()) {
                    self.held.push(c);
                }
                "-".into()
            }
            "other_return" => {
                if !self.held.is_empty() {
                    drop(self.held.remove(0));
                }
                "-".into()
            }
            "error" => {
                self.flow.on_error(&conn_error());
                "-".into()
            }
            _ => "-".into(),
        }
    }
}

// ------------------------------------------------------------------------------------------------
// 17. Wakers::combine_with
#[derive(Default)]
struct Res {
    ready: bool,
    waker: Option<Waker>,
}
impl Res {
    fn make_ready(&mut self) {
        self.ready = true;
        if let Some(w) = self.waker.take() {
            w.wake();
        }
    }
}
struct WksI {
    wakers: Arc<QWakers>,
    res: Arc<Mutex<Res>>,
}
impl Inst for WksI {
    const NAME: &'static str = "Wakers";
    const MULTI: bool = true;
    const CLOSE: &'static str = "-";
    fn new(_: &mut Rng) -> Self {
        WksI { wakers: Arc::new(QWakers::new()), res: Default::default() }
    }
    fn gen_op(&self, rng: &mut Rng, _single: bool) -> String {
        match rng.below(10) {
            0..=5 => {
                let t = rng.below(3);
                // more distinct wakers than the inline capacity (N = 4) of the `Wakers` list
                format!("poll {} {} {}", t, if rng.chance(1, 2) { t } else { rng.below(NWAKERS as u64) }, if rng.chance(1, 3) { 1 } else { 0 })
            }
            6..=8 => "notify".into(),
            _ => format!("dropfut {}", rng.below(3)),
        }
    }
    fn alphabet() -> Vec<String> {
        ["poll 0 0 0", "poll 0 0 1", "poll 1 1 0", "poll 1 2 0", "poll 2 3 0", "poll 2 4 0", "notify"].iter().map(|s| s.to_string()).collect()
    }
    fn apply(&mut self, op: &[&str], wk: &Wakers) -> String {
        match op[0] {
            "poll" => {
                let w: usize = op[2].parse().unwrap();
                let inside = op[3] == "1";
                let res = self.res.clone();
                let p: Poll<u32> = self.wakers.combine_with(&mut Context::from_waker(&wk.w[w]), |cx| {
                    let mut r = res.lock().unwrap();
                    if r.ready {
                        r.ready = false;
                        Poll::Ready(1)
                    } else {
                        r.waker = Some(cx.waker().clone());
                        if inside {
                            // the resource becomes ready right after this caller's check
                            r.make_ready();
                        }
                        Poll::Pending
                    }
                });
                poll_tok(p, |v| format!("ready:{}", v))
            }
            "notify" => {
                self.res.lock().unwrap().make_ready();
                "-".into()
            }
            _ => "-".into(),
        }
    }
}

pub const RUNS: &[(&str, fn(&Opts))] = &[("C16flow", run_inst::<FlowI>), ("C16wks", run_inst::<WksI>)];
