//! C12, stream-id bookkeeping on the REAL `qbase::sid::{ArcLocalStreamIds, ArcRemoteStreamIds}`:
//!
//! * `C12i` — random histories of local opens, MAX_STREAMS / `revise_max_streams`, peer stream ids
//!   (`try_accept_sid`, every `NeedCreate` iterated), `on_end_of_stream`, STREAMS_BLOCKED, for both roles,
//!   three concurrency strategies (`ConsistentConcurrency`, `DemandConcurrency`, harness-defined `Eager`).
//! * `C12x` — the same objects, exhaustive small scope: limits 0..4 × ids 0..6 × 2 roles × 3 strategies.
//!
//! Monitors know only RFC 9000 §4.6 / §3.2 / §19.11 / §19.14, never the model.
use std::{
    sync::{
        Arc, Mutex,
        atomic::{AtomicU64, Ordering},
    },
    task::{Context, Poll, Wake, Waker},
};

use qbase::{
    frame::{MaxStreamsFrame, StreamsBlockedFrame, io::SendFrame},
    net::tx::ArcSendWakers,
    role::Role,
    sid::{
        ArcLocalStreamIds, ArcRemoteStreamIds, ControlStreamsConcurrency, Dir, StreamId,
        handy::{ConsistentConcurrency, DemandConcurrency},
        remote_sid::AcceptSid,
    },
    varint::VarInt,
};

use crate::common::{Opts, Rng, Sink, catch};

pub const LIMIT: u64 = (1 << 60) - 1; // the monitors' own constant: RFC 9000 §4.6 says 2^60, see docs/C12.md
pub const VMAX: u64 = (1 << 62) - 1;

/// Recording broker for MAX_STREAMS / STREAMS_BLOCKED.
#[derive(Clone, Default, Debug)]
pub struct SidRec(pub Arc<Mutex<Vec<(char, Dir, u64)>>>);

impl SidRec {
    pub fn take(&self) -> Vec<(char, Dir, u64)> {
        std::mem::take(&mut *self.0.lock().unwrap())
    }
}

impl SendFrame<MaxStreamsFrame> for SidRec {
    fn send_frame<I: IntoIterator<Item = MaxStreamsFrame>>(&self, iter: I) {
        let mut g = self.0.lock().unwrap();
        for f in iter {
            g.push(match f {
                MaxStreamsFrame::Bi(v) => ('M', Dir::Bi, v.into_u64()),
                MaxStreamsFrame::Uni(v) => ('M', Dir::Uni, v.into_u64()),
            });
        }
    }
}

impl SendFrame<StreamsBlockedFrame> for SidRec {
    fn send_frame<I: IntoIterator<Item = StreamsBlockedFrame>>(&self, iter: I) {
        let mut g = self.0.lock().unwrap();
        for f in iter {
            g.push(match f {
                StreamsBlockedFrame::Bi(v) => ('B', Dir::Bi, v.into_u64()),
                StreamsBlockedFrame::Uni(v) => ('B', Dir::Uni, v.into_u64()),
            });
        }
    }
}

/// Harness-defined strategy: the only one that answers in `on_accept_streams` (keeps `w` more streams
/// available than the highest one used, never lowering the limit).
#[derive(Debug)]
pub struct Eager(pub u64, pub [u64; 2]);

impl ControlStreamsConcurrency for Eager {
    fn on_accept_streams(&mut self, dir: Dir, sid: u64) -> Option<u64> {
        let want = sid + 1 + self.0;
        if want > self.1[dir as usize] {
            self.1[dir as usize] = want;
            Some(want)
        } else {
            None
        }
    }
    fn on_end_of_stream(&mut self, _dir: Dir, _sid: u64) -> Option<u64> {
        None
    }
    fn on_streams_blocked(&mut self, _dir: Dir, _max_streams: u64) -> Option<u64> {
        None
    }
}

#[derive(Clone, Copy, PartialEq, Eq, Debug)]
pub enum Strat {
    Consistent,
    Demand,
    Eager(u64),
}

impl Strat {
    pub fn name(self) -> String {
        match self {
            Strat::Consistent => "consistent".into(),
            Strat::Demand => "demand".into(),
            Strat::Eager(w) => format!("eager:{}", w),
        }
    }
    pub fn key(self) -> &'static str {
        match self {
            Strat::Consistent => "consistent",
            Strat::Demand => "demand",
            Strat::Eager(_) => "eager",
        }
    }
    pub fn make(self, mb: u64, mu: u64) -> Box<dyn ControlStreamsConcurrency> {
        match self {
            Strat::Consistent => Box::new(ConsistentConcurrency::new(mb, mu)),
            Strat::Demand => Box::new(DemandConcurrency),
            Strat::Eager(w) => Box::new(Eager(w, [mb, mu])),
        }
    }
}

struct CountWaker(AtomicU64);
impl Wake for CountWaker {
    fn wake(self: Arc<Self>) {
        self.0.fetch_add(1, Ordering::SeqCst);
    }
    fn wake_by_ref(self: &Arc<Self>) {
        self.0.fetch_add(1, Ordering::SeqCst);
    }
}

pub fn dn(d: Dir) -> &'static str {
    if d == Dir::Bi { "bi" } else { "uni" }
}
pub fn rn(r: Role) -> &'static str {
    if r == Role::Client { "c" } else { "s" }
}
pub fn other(r: Role) -> Role {
    if r == Role::Client { Role::Server } else { Role::Client }
}

/// `<name>: [a, b]` of a derived `Debug` rendering; entries may be `StreamId(n)`.
fn dbg_pair(d: &str, name: &str) -> Option<(u64, u64)> {
    let key = format!("{}: [", name);
    let p = d.find(&key)? + key.len();
    let rest = &d[p..];
    let e = rest.find(']')?;
    let nums: Vec<u64> = rest[..e]
        .split(',')
        .filter_map(|t| {
            let t: String = t.chars().filter(|c| c.is_ascii_digit()).collect();
            t.parse().ok()
        })
        .collect();
    if nums.len() == 2 { Some((nums[0], nums[1])) } else { None }
}

fn ids_tok(ids: &[u64]) -> String {
    ids.iter().map(|v| v.to_string()).collect::<Vec<_>>().join(",")
}

/// What the monitors remember about the local allocator (RFC view).
#[derive(Default)]
struct LocalMon {
    granted: [u64; 2], // largest limit the peer has granted so far
    count: [u64; 2],   // streams opened so far
}

/// What the monitors remember about the peer's ids (RFC view).
struct RemoteMon {
    advertised: [u64; 2], // largest limit ever advertised (initial parameter / MAX_STREAMS)
    high: [u64; 2],       // number of peer streams opened so far (per kind)
    seen: std::collections::BTreeSet<u64>,
}

pub struct Ids {
    role: Role,
    local: Option<ArcLocalStreamIds<SidRec>>,
    remote: Option<ArcRemoteStreamIds<SidRec>>,
    strat: Strat,
    lrec: SidRec,
    rrec: SidRec,
    wakes: Arc<CountWaker>,
    lmon: LocalMon,
    rmon: RemoteMon,
}

impl Ids {
    fn new(role: Role) -> Self {
        Ids {
            role,
            local: None,
            remote: None,
            strat: Strat::Demand,
            lrec: SidRec::default(),
            rrec: SidRec::default(),
            wakes: Arc::new(CountWaker(AtomicU64::new(0))),
            lmon: LocalMon::default(),
            rmon: RemoteMon { advertised: [0, 0], high: [0, 0], seen: Default::default() },
        }
    }

    fn ltail(&self) -> String {
        let d = format!("{:?}", self.local.as_ref().unwrap());
        match (dbg_pair(&d, "max"), dbg_pair(&d, "unallocated")) {
            (Some(m), Some(u)) => {
                // what `opened_streams` answers (gate of `try_load_data_into_once` and of `check_local_created`)
                let l = self.local.as_ref().unwrap();
                format!("max={},{} un={},{} op={},{}", m.0, m.1, u.0, u.1, l.opened_streams(Dir::Bi), l.opened_streams(Dir::Uni))
            }
            _ => "max=? un=?".into(),
        }
    }
    fn rtail(&self) -> String {
        let d = format!("{:?}", self.remote.as_ref().unwrap());
        match (dbg_pair(&d, "max"), dbg_pair(&d, "unallocated")) {
            (Some(m), Some(u)) => format!("max={},{} un={},{}", m.0, m.1, u.0 >> 2, u.1 >> 2),
            _ => "max=? un=?".into(),
        }
    }

    fn linit(&mut self, sink: &mut Sink, mb: u64, mu: u64) {
        let op = format!("linit {} {} {}", rn(self.role), mb, mu);
        sink.pending(&op);
        let rec = self.lrec.clone();
        let role = self.role;
        match catch(|| ArcLocalStreamIds::new(role, mb, mu, rec, ArcSendWakers::default())) {
            Ok(l) => {
                self.local = Some(l);
                self.lmon.granted = [mb, mu];
                sink.line(&op, "ok");
            }
            Err(_) => {
                sink.branch("linit:panic");
                sink.line(&op, "PANIC");
            }
        }
    }

    fn alloc(&mut self, sink: &mut Sink, dir: Dir) {
        let Some(l) = self.local.clone() else { return };
        let op = format!("alloc {}", dn(dir));
        sink.pending(&op);
        let waker = Waker::from(self.wakes.clone());
        let r = catch(|| {
            let mut cx = Context::from_waker(&waker);
            l.poll_alloc_sid(&mut cx, dir)
        });
        let frames = self.lrec.take();
        let i = dir as usize;
        match r {
            Ok(Poll::Ready(Some(sid))) => {
                sink.branch("alloc:sid");
                let v = u64::from(sid);
                // RFC 9000 §4.6: only streams with a stream id below the peer's cumulative limit may be opened
                if sid.role() != self.role || sid.dir() != dir || sid.id() != self.lmon.count[i] {
                    sink.monitor_fail("open_wrong_id", &format!("alloc {} returned stream id {} (expected index {})", dn(dir), v, self.lmon.count[i]));
                }
                if sid.id() >= self.lmon.granted[i] {
                    sink.monitor_fail("open_beyond_limit", &format!("opened {} stream index {} with the peer's limit at {}", dn(dir), sid.id(), self.lmon.granted[i]));
                }
                self.lmon.count[i] += 1;
                if !frames.is_empty() {
                    sink.monitor_fail("blocked_frame_on_success", &format!("{:?}", frames));
                }
                sink.line(&op, &format!("sid={} {}", v, self.ltail()));
            }
            Ok(Poll::Ready(None)) => {
                sink.branch("alloc:none");
                sink.line(&op, &format!("none {}", self.ltail()));
            }
            Ok(Poll::Pending) => {
                sink.branch("alloc:pending");
                let sb: Vec<String> = frames.iter().map(|(k, d, v)| format!("{}{}{}", k, dn(*d), v)).collect();
                let tok = match frames.as_slice() {
                    [('B', d, v)] if *d == dir => format!("sb={}", v),
                    _ => format!("frames={}", sb.join("+")),
                };
                sink.line(&op, &format!("pending {} {}", tok, self.ltail()));
            }
            Err(_) => {
                sink.branch("alloc:panic");
                sink.line(&op, "PANIC");
            }
        }
    }

    fn maxstreams(&mut self, sink: &mut Sink, dir: Dir, v: u64) {
        let Some(l) = self.local.clone() else { return };
        let op = format!("maxstreams {} {}", dn(dir), v);
        sink.pending(&op);
        let before = self.wakes.0.load(Ordering::SeqCst);
        let r = catch(|| l.recv_max_streams_frame(MaxStreamsFrame::with(dir, VarInt::from_u64(v).unwrap())));
        let woke = self.wakes.0.load(Ordering::SeqCst) - before;
        match r {
            Ok(()) => {
                sink.branch(if woke > 0 { "maxstreams:woke" } else { "maxstreams:ok" });
                let i = dir as usize;
                self.lmon.granted[i] = self.lmon.granted[i].max(v);
                sink.line(&op, &format!("ok woke={} {}", woke, self.ltail()));
            }
            Err(_) => {
                sink.branch("maxstreams:panic");
                sink.line(&op, "PANIC");
            }
        }
    }

    fn revise(&mut self, sink: &mut Sink, rej: bool, b: u64, u: u64) {
        let Some(l) = self.local.clone() else { return };
        let op = format!("revise {} {} {}", rej as u8, b, u);
        sink.pending(&op);
        let before = self.wakes.0.load(Ordering::SeqCst);
        let r = catch(|| l.revise_max_streams(rej, b, u));
        let woke = self.wakes.0.load(Ordering::SeqCst) - before;
        match r {
            Ok(()) => {
                sink.branch(if rej { "revise:rejected" } else { "revise:ok" });
                if rej {
                    // the remembered limits are void; what the peer allows now is what it just sent
                    self.lmon.granted = [b, u];
                } else {
                    self.lmon.granted = [self.lmon.granted[0].max(b), self.lmon.granted[1].max(u)];
                }
                sink.line(&op, &format!("ok woke={} {}", woke, self.ltail()));
                if rej {
                    for (i, d) in [(0usize, Dir::Bi), (1usize, Dir::Uni)] {
                        if self.lmon.count[i] > self.lmon.granted[i] {
                            sink.branch("revise:rejected:more_open_than_allowed");
                            // the streams beyond the peer's real limit must be held back: `opened_streams` is what
                            // `DataStreams::try_load_data_into_once` lets send
                            let usable = l.opened_streams(d);
                            if usable > self.lmon.granted[i] {
                                sink.monitor_fail("open_beyond_limit:usable_after_0rtt_rejected", &format!("0-RTT rejected: the peer allows {} {} streams, opened_streams still answers {}", self.lmon.granted[i], dn(d), usable));
                            }
                        }
                    }
                }
            }
            Err(_) => {
                sink.branch("revise:panic");
                sink.line(&op, "PANIC");
            }
        }
    }

    fn rinit(&mut self, sink: &mut Sink, mb: u64, mu: u64, strat: Strat) {
        let peer = other(self.role);
        let op = format!("rinit {} {} {} {}", rn(peer), mb, mu, strat.name());
        self.strat = strat;
        self.remote = Some(ArcRemoteStreamIds::new(peer, mb, mu, self.rrec.clone(), strat.make(mb, mu)));
        self.rmon.advertised = [mb, mu];
        sink.line(&op, "ok");
    }

    /// frames emitted by the remote side since the last call → ` ms=<v>` token and monitor bookkeeping
    fn ms_tok(&mut self, sink: &mut Sink, dir: Dir) -> String {
        let frames = self.rrec.take();
        let mut tok = String::new();
        for (k, d, v) in &frames {
            if *k == 'M' && *d == dir && tok.is_empty() {
                tok = format!(" ms={}", v);
            } else {
                tok.push_str(&format!(" extra={}{}{}", k, dn(*d), v));
            }
            if *k == 'M' {
                let i = *d as usize;
                // RFC 9000 §19.11: a MAX_STREAMS value above 2^60 is illegal on the wire
                if *v > (1 << 60) {
                    sink.monitor_fail(&format!("max_streams_frame_over_2^60:{}", self.strat.key()), &format!("MAX_STREAMS({}) {} emitted", dn(*d), v));
                }
                if *v < self.rmon.advertised[i] {
                    sink.branch("ms:decreasing");
                }
                self.rmon.advertised[i] = self.rmon.advertised[i].max(*v);
            }
        }
        tok
    }

    fn accept(&mut self, sink: &mut Sink, sid: u64) {
        let Some(r) = self.remote.clone() else { return };
        let op = format!("accept {}", sid);
        sink.pending(&op);
        let s = StreamId::from(VarInt::from_u64(sid).unwrap());
        let dir = s.dir();
        let i = dir as usize;
        let wrong_role = s.role() != other(self.role);
        let poisoned_before = format!("{:?}", r).contains("poisoned: true");
        let adv = self.rmon.advertised[i]; // before the call
        let res = catch(|| r.try_accept_sid(s));
        match res {
            Ok(Ok(AcceptSid::Old)) => {
                sink.branch("accept:old");
                let ms = self.ms_tok(sink, dir);
                if s.id() >= self.rmon.high[i] {
                    sink.monitor_fail("implicit_open:never_offered", &format!("stream {} reported as existing but no NeedCreate ever yielded it", sid));
                }
                sink.line(&op, &format!("old{} {}", ms, self.rtail()));
            }
            Ok(Ok(AcceptSid::New(nc))) => {
                sink.branch("accept:new");
                // RFC 9000 §4.6: "An endpoint that receives a frame with a stream ID exceeding the limit it
                // has sent MUST treat this as a connection error of type STREAM_LIMIT_ERROR"; a limit of
                // N allows the indices 0..N-1.
                if s.id() >= adv {
                    let key = if s.id() == adv { "peer_over_limit_accepted:eq" } else { "peer_over_limit_accepted:gt" };
                    sink.monitor_fail(key, &format!("peer stream {} (index {}) accepted although only {} {} streams were ever allowed", sid, s.id(), adv, dn(dir)));
                }
                let dbg = format!("{:?}", nc);
                let first = self.rmon.high[i] * 4 + (sid & 3);
                let n = s.id() + 1 - self.rmon.high[i].min(s.id() + 1);
                let tok = if n <= 4096 {
                    let ids: Vec<u64> = nc.map(u64::from).collect();
                    // RFC 9000 §3.2: every lower-numbered stream of the kind is opened too, each exactly once
                    for v in &ids {
                        if !self.rmon.seen.insert(*v) {
                            sink.monitor_fail("implicit_open:dup", &format!("stream {} offered twice", v));
                        }
                    }
                    let want: Vec<u64> = (self.rmon.high[i]..=s.id()).map(|k| k * 4 + (sid & 3)).collect();
                    if ids != want {
                        sink.monitor_fail("implicit_open:gap", &format!("accepting {} created {:?}, RFC 9000 §3.2 wants {:?}", sid, ids, want));
                    }
                    if ids.len() <= 16 { ids_tok(&ids) } else { format!("{}..{}#{}", ids[0], ids[ids.len() - 1], ids.len()) }
                } else {
                    sink.branch("accept:new:huge");
                    // not iterated: taken from the Debug rendering of NeedCreate { start, end }
                    let nums: Vec<u64> = dbg.split(|c: char| !c.is_ascii_digit()).filter(|t| !t.is_empty()).filter_map(|t| t.parse().ok()).collect();
                    if nums.len() == 2 && (nums[0] != first || nums[1] != sid) {
                        sink.monitor_fail("implicit_open:gap", &format!("accepting {} gave {}", sid, dbg));
                    }
                    format!("{}..{}#{}", nums.first().copied().unwrap_or(0), nums.get(1).copied().unwrap_or(0), n)
                };
                self.rmon.high[i] = s.id() + 1;
                let ms = self.ms_tok(sink, dir);
                sink.line(&op, &format!("new ids={}{} {}", tok, ms, self.rtail()));
            }
            Ok(Err(e)) => {
                sink.branch("accept:err");
                let ms = self.ms_tok(sink, dir);
                // a peer that stays below the largest limit it was ever told must not be refused
                if s.id() < adv {
                    sink.monitor_fail(&format!("conformant_peer_rejected:{}", self.strat.key()), &format!("peer stream {} (index {}) refused although {} {} streams were allowed ({})", sid, s.id(), adv, dn(dir), e));
                }
                let lim = e.to_string().rsplit(' ').next().unwrap_or("?").to_string();
                sink.line(&op, &format!("err limit={}{} {}", lim, ms, self.rtail()));
            }
            Err(_) => {
                sink.branch(if wrong_role { "accept:panic:wrong_role" } else { "accept:panic" });
                if !wrong_role && !poisoned_before {
                    sink.monitor_fail(&format!("panic:try_accept_sid:{}", self.strat.key()), &format!("accept {}", sid));
                }
                sink.line(&op, "PANIC");
            }
        }
    }

    fn eos(&mut self, sink: &mut Sink, sid: u64) {
        let Some(r) = self.remote.clone() else { return };
        let op = format!("eos {}", sid);
        sink.pending(&op);
        let s = StreamId::from(VarInt::from_u64(sid).unwrap());
        match catch(|| r.on_end_of_stream(s)) {
            Ok(()) => {
                let ms = self.ms_tok(sink, s.dir());
                sink.branch(if ms.is_empty() { "eos:none" } else { "eos:ms" });
                sink.line(&op, &format!("ok{} {}", ms, self.rtail()));
            }
            Err(_) => {
                sink.branch("eos:panic");
                sink.line(&op, "PANIC");
            }
        }
    }

    fn blocked(&mut self, sink: &mut Sink, dir: Dir, v: u64) {
        let Some(r) = self.remote.clone() else { return };
        let op = format!("blocked {} {}", dn(dir), v);
        sink.pending(&op);
        let poisoned_before = format!("{:?}", r).contains("poisoned: true");
        match catch(|| r.recv_streams_blocked_frame(StreamsBlockedFrame::with(dir, VarInt::from_u64(v).unwrap()))) {
            Ok(()) => {
                let ms = self.ms_tok(sink, dir);
                sink.branch(if ms.is_empty() { "blocked:none" } else { "blocked:ms" });
                sink.line(&op, &format!("ok{} {}", ms, self.rtail()));
            }
            Err(_) => {
                sink.branch("blocked:panic");
                if !poisoned_before {
                    // any STREAMS_BLOCKED value is parsed from the wire without a bound: a peer can send this
                    sink.monitor_fail(&format!("panic:streams_blocked:{}", self.strat.key()), &format!("STREAMS_BLOCKED({}) {} panics", dn(dir), v));
                }
                sink.line(&op, "PANIC");
            }
        }
    }
}

fn small_or_edge(rng: &mut Rng, around: u64) -> u64 {
    match rng.below(12) {
        0..=4 => rng.below(7),
        5..=7 => (around + rng.below(4)).saturating_sub(1).min(VMAX),
        8 => {
            if rng.chance(1, 4) { *rng.pick(&[LIMIT + 1, LIMIT + 2, VMAX - 1, VMAX]) } else { *rng.pick(&[LIMIT - 1, LIMIT, 1 << 40, 5000]) }
        }
        9 => rng.below(5000),
        _ => rng.below(40),
    }
}

fn pick_strat(rng: &mut Rng) -> Strat {
    match rng.below(3) {
        0 => Strat::Consistent,
        1 => Strat::Demand,
        _ => Strat::Eager(*rng.pick(&[0, 1, 2, 5, 1000])),
    }
}

fn case_random(sink: &mut Sink, rng: &mut Rng) {
    let role = if rng.chance(1, 2) { Role::Client } else { Role::Server };
    let mut e = Ids::new(role);
    // local side: a server always starts from 0,0 (it cannot remember parameters)
    let (mb, mu) = if role == Role::Client && rng.chance(1, 2) { (rng.below(6), rng.below(6)) } else if rng.chance(1, 60) { (rng.below(3), 1) } else { (0, 0) };
    e.linit(sink, mb, mu);
    // our own initial limits are configuration, not peer input: kept legal (far below 2^60)
    let (rb, ru) = (small_or_edge(rng, 3).min(if rng.chance(9, 10) { 8 } else { 1 << 40 }), rng.below(6));
    let strat = pick_strat(rng);
    e.rinit(sink, rb, ru, strat);
    let peer = other(role);
    let n = rng.range(4, 40);
    let mut interesting = 0;
    for _ in 0..n {
        let dir = if rng.chance(1, 2) { Dir::Bi } else { Dir::Uni };
        let i = dir as usize;
        match rng.below(16) {
            0..=3 => e.alloc(sink, dir),
            4..=5 => {
                let v = small_or_edge(rng, e.lmon.granted[i]);
                e.maxstreams(sink, dir, v);
            }
            6 => {
                let rej = rng.chance(1, 3);
                let b = small_or_edge(rng, e.lmon.granted[0]);
                let u = small_or_edge(rng, e.lmon.granted[1]);
                e.revise(sink, rej, b, u);
            }
            7..=11 => {
                // peer stream id around the high-water mark and the limit
                let adv = e.rmon.advertised[i];
                let idx = match rng.below(10) {
                    0..=2 => e.rmon.high[i] + rng.below(3),
                    3..=4 => (adv + rng.below(3)).saturating_sub(1),
                    5 => rng.below(e.rmon.high[i] + 1),
                    6 => small_or_edge(rng, adv),
                    _ => rng.below(8),
                }
                .min(LIMIT);
                let r = if rng.chance(1, 150) { role } else { peer };
                let sid = (idx << 2) | ((dir as u64) << 1) | (r as u64);
                e.accept(sink, sid);
                interesting += 1;
            }
            12..=13 => {
                let idx = rng.below(e.rmon.high[i] + 2);
                let r = if rng.chance(1, 6) { role } else { peer };
                e.eos(sink, (idx << 2) | ((dir as u64) << 1) | (r as u64));
            }
            _ => {
                let v = match rng.below(6) {
                    0 => rng.below(e.rmon.advertised[i] + 1), // stale
                    1 => small_or_edge(rng, e.rmon.advertised[i]),
                    _ => e.rmon.advertised[i].min(VMAX),
                };
                e.blocked(sink, dir, v);
            }
        }
    }
    if interesting >= 2 {
        sink.nontrivial();
    }
}

pub fn run_i(o: &Opts) {
    let mut sink = Sink::new_with_stats(&o.out, &o.stats);
    for c in 0..o.cases {
        if let Some(only) = o.only_case {
            if c != only {
                continue;
            }
        }
        let mut rng = Rng::new(o.seed, c);
        sink.case(&c.to_string());
        case_random(&mut sink, &mut rng);
    }
    sink.finish(&o.stats, "a case is non-trivial when it contains at least two try_accept_sid calls");
}

/// Exhaustive small scope: limits 0..4 × ids 0..6 × 2 roles × 3 strategies (two peer ids with one
/// operation in between), and for the local allocator limits 0..4 × a raise 0..6 × up to 6 opens.
pub fn run_x(o: &Opts) {
    let mut sink = Sink::new_with_stats(&o.out, &o.stats);
    let mut c = 0u64;
    for role in [Role::Client, Role::Server] {
        let peer = other(role);
        for strat in [Strat::Consistent, Strat::Demand, Strat::Eager(1)] {
            for limit in 0..=4u64 {
                for dir in [Dir::Bi, Dir::Uni] {
                    for a in 0..=6u64 {
                        for mid in 0..4 {
                            for b in 0..=6u64 {
                                c += 1;
                                if o.only_case.is_some_and(|x| x != c) {
                                    continue;
                                }
                                sink.case(&c.to_string());
                                sink.nontrivial();
                                let mut e = Ids::new(role);
                                let (lb, lu) = if dir == Dir::Bi { (limit, 0) } else { (0, limit) };
                                e.rinit(&mut sink, lb, lu, strat);
                                let sid = |k: u64| (k << 2) | ((dir as u64) << 1) | (peer as u64);
                                e.accept(&mut sink, sid(a));
                                match mid {
                                    0 => {}
                                    1 => e.eos(&mut sink, sid(a)),
                                    2 => e.blocked(&mut sink, dir, limit),
                                    _ => e.blocked(&mut sink, dir, 0),
                                }
                                e.accept(&mut sink, sid(b));
                            }
                        }
                    }
                }
            }
        }
        for limit in 0..=4u64 {
            for raise in 0..=6u64 {
                for dir in [Dir::Bi, Dir::Uni] {
                    for rej in [false, true] {
                        c += 1;
                        if o.only_case.is_some_and(|x| x != c) {
                            continue;
                        }
                        sink.case(&c.to_string());
                        sink.nontrivial();
                        let mut e = Ids::new(role);
                        let init = if role == Role::Client { limit } else { 0 };
                        e.linit(&mut sink, init, init);
                        if role == Role::Server {
                            e.revise(&mut sink, false, limit, limit);
                        }
                        for _ in 0..3 {
                            e.alloc(&mut sink, dir);
                        }
                        if rej {
                            e.revise(&mut sink, true, raise, raise);
                        } else {
                            e.maxstreams(&mut sink, dir, raise);
                        }
                        for _ in 0..4 {
                            e.alloc(&mut sink, dir);
                        }
                    }
                }
            }
        }
    }
    sink.note("exhaustive", serde_json::json!(true));
    sink.finish(&o.stats, "exhaustive small scope: every case counts");
}

pub const RUNS: &[(&str, fn(&Opts))] = &[("C12i", run_i), ("C12x", run_x)];
