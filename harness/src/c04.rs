//! C04: hostile but well-formed frames cost bounded work and get the RFC's error.
//!
//! Runs `C04a` (ACK path), `C04p` (packet-number arrival), `C04c` (NEW_CONNECTION_ID / RETIRE_CONNECTION_ID /
//! set_limit).  Every case = a short legitimate history + one hostile (or benign) operation, executed on the REAL
//! objects (`ArcCC`, `ArcRcvdJournal`, `ArcSentJournal<u32>`, `ArcRemoteCids`, `ArcLocalCids`) inside a WORKER
//! PROCESS (`gmq-harness C04w`, started through `sh -c "ulimit -v …"`): the parent feeds one operation per line and
//! waits at most `OP_CAP_MS` for the answer.  No answer ⇒ the worker is killed and the outcome is `TIMEOUT`;
//! the worker dying on a failed allocation ⇒ `OOM`; a panic is caught in the worker ⇒ `PANIC`.
//! The ACK path replays the dispatcher arm `Frame::Ack` of `qconnection/src/space/{initial,handshake,data}.rs` plus
//! `Ack*Space::recv_frame` call for call: [`AckFrame::validate` iff `read_plain_packet` calls it — read from the source
//! text of the tree under test] → `cc.on_ack_rcvd` → `rcvd_journal.on_rcvd_ack` → `update_largest` → collect → `on_packet_acked`*.
//!
//! Monitors (never consult the model): per operation wall time and peak-RSS growth within a generous bound that
//! does not depend on the numeric fields; the error kind is the one RFC 9000 prescribes for the situation the
//! generator built (classified from the generator's own books); a frame refused as malformed leaves the journals
//! untouched.
use std::{
    io::{BufRead, BufReader, Write},
    process::{Child, ChildStdin, Command, Stdio},
    sync::{
        Arc, Mutex,
        atomic::{AtomicBool, AtomicU16, AtomicU64, Ordering},
        mpsc::{Receiver, RecvTimeoutError, channel},
    },
    time::{Duration, Instant as StdInstant},
};

use qbase::{
    Epoch,
    cid::{ArcLocalCids, ArcRemoteCids, ConnectionId, GenUniqueCid, RetireCid},
    error::{Error, ErrorKind, QuicError},
    frame::{
        AckFrame, NewConnectionIdFrame, RetireConnectionIdFrame,
        io::{ReceiveFrame, SendFrame},
    },
    net::tx::ArcSendWaker,
    packet::{InvalidPacketNumber, PacketNumber},
    varint::VarInt,
};
use qcongestion::{Algorithm, ArcCC, Feedback, HandshakeStatus, PathStatus, Transport};
use qevent::quic::recovery::PacketLostTrigger;
use qrecovery::journal::{ArcRcvdJournal, ArcSentJournal};

use crate::common::{catch, Opts, Rng, Sink};

const OP_CAP_MS: u64 = 10000;
/// monitor bounds: independent of every numeric field of the hostile frame (histories hold < 100 elements)
const TIME_BOUND_MS: u64 = 4000;
const MEM_BOUND_KB: u64 = 48 * 1024;
const WORKER_AS_KB: u64 = 3 * 1024 * 1024;

// ------------------------------------------------------------------------------------------------
// worker
// ------------------------------------------------------------------------------------------------

static VALIDATE_ABSENT: AtomicBool = AtomicBool::new(false);

/// `AckFrame::validate` exists only with `fix-C04-ack-validate.diff`; an inherent method wins over this trait
/// method, so the same harness source builds against both trees.
trait ValidateFallback {
    fn validate(&self) -> Result<(), QuicError>;
}
impl ValidateFallback for AckFrame {
    fn validate(&self) -> Result<(), QuicError> {
        VALIDATE_ABSENT.store(true, Ordering::Relaxed);
        Ok(())
    }
}

struct NoFb;
impl Feedback for NoFb {
    fn may_loss(&self, _t: PacketLostTrigger, pns: &mut dyn Iterator<Item = u64>) {
        for _ in pns {}
    }
}

#[derive(Clone, Default)]
struct Retired(Arc<Mutex<u64>>);
impl SendFrame<RetireConnectionIdFrame> for Retired {
    fn send_frame<I: IntoIterator<Item = RetireConnectionIdFrame>>(&self, iter: I) {
        let mut keep = vec![];
        for f in iter {
            keep.push(f); // the real queue keeps every frame
        }
        *self.0.lock().unwrap() += keep.len() as u64;
        std::mem::forget(keep); // stays allocated, like frames waiting in the reliable queue
    }
}

#[derive(Default)]
struct Issued {
    next: AtomicU64,
    frames: Arc<Mutex<u64>>,
}
impl GenUniqueCid for Issued {
    fn gen_unique_cid(&self) -> ConnectionId {
        let n = self.next.fetch_add(1, Ordering::Relaxed) + 1;
        ConnectionId::from_slice(&n.to_be_bytes())
    }
}
impl RetireCid for Issued {
    fn retire_cid(&self, _cid: ConnectionId) {}
}
impl SendFrame<NewConnectionIdFrame> for Issued {
    fn send_frame<I: IntoIterator<Item = NewConnectionIdFrame>>(&self, iter: I) {
        let mut keep = vec![];
        for f in iter {
            keep.push(f);
        }
        *self.frames.lock().unwrap() += keep.len() as u64;
        std::mem::forget(keep);
    }
}

struct World {
    cc: ArcCC,
    sj: ArcSentJournal<u32>,
    rj: ArcRcvdJournal,
    retired: Retired,
    rcids: ArcRemoteCids<Retired>,
    issued_frames: Arc<Mutex<u64>>,
    lcids: ArcLocalCids<Issued>,
    fid: u32,
    validate_in_dispatch: bool,
}

fn vi(x: u64) -> VarInt {
    VarInt::from_u64(x).unwrap()
}

fn kind_tok(k: ErrorKind) -> String {
    format!("{:?}", k)
}

fn repo_root() -> String {
    std::env::var("GMQ_REPO").unwrap_or_else(|_| "/repo".into())
}

/// does `read_plain_packet` validate ACK frames before dispatching them? (source text of the tree under test)
fn dispatcher_validates() -> bool {
    let p = format!("{}/qconnection/src/space.rs", repo_root());
    let Ok(src) = std::fs::read_to_string(&p) else { return false };
    let Some(a) = src.find("fn read_plain_packet") else { return false };
    let body = &src[a..];
    match (body.find("ack_frame.validate()?"), body.find("dispatch_frame(frame)")) {
        (Some(v), Some(d)) => v < d,
        _ => false,
    }
}

/// anchor (drift detection only, never an alarm): do the three `Frame::Ack` dispatcher arms still read
/// `cc.on_ack_rcvd` → `rcvd_journal.on_rcvd_ack` → send to the piped `Ack*Space`?
fn dispatcher_arms_as_copied() -> u64 {
    let mut n = 0;
    for f in ["initial", "handshake", "data"] {
        let Ok(src) = std::fs::read_to_string(format!("{}/qconnection/src/space/{}.rs", repo_root(), f)) else { continue };
        let Some(a) = src.find("Frame::Ack(f) => {") else { continue };
        let Some(b) = src[a..].find('}') else { continue };
        let arm: String = src[a..a + b].chars().filter(|c| !c.is_whitespace()).collect();
        let (Some(x), Some(y), Some(z)) = (arm.find(".on_ack_rcvd(Epoch::"), arm.find(".on_rcvd_ack(&f)"), arm.find("ack_frames_entry.send(f)")) else { continue };
        if x < y && y < z { n += 1; }
    }
    n
}

fn const_in(file: &str, name: &str) -> Option<u64> {
    let src = std::fs::read_to_string(format!("{}/{}", repo_root(), file)).ok()?;
    let at = src.find(&format!("const {}: u64 =", name))?;
    let rest = &src[at..];
    let eq = rest.find('=')? + 1;
    let semi = rest.find(';')?;
    let e = rest[eq..semi].trim().replace('_', "");
    if let Some((a, b)) = e.split_once("<<") {
        Some(a.trim().parse::<u64>().ok()? << b.trim().parse::<u32>().ok()?)
    } else {
        e.parse().ok()
    }
}

impl World {
    fn new() -> World {
        let hs = Arc::new(HandshakeStatus::new(true));
        let ps = PathStatus::new(hs.clone(), Arc::new(AtomicU16::new(1200)));
        let trackers: [Arc<dyn Feedback>; 3] = [Arc::new(NoFb), Arc::new(NoFb), Arc::new(NoFb)];
        let cc = ArcCC::new(Algorithm::NewReno, Duration::from_millis(25), trackers, ps, ArcSendWaker::new());
        let retired = Retired::default();
        let issued = Issued::default();
        let issued_frames = issued.frames.clone();
        World {
            cc,
            sj: ArcSentJournal::with_capacity(8),
            rj: ArcRcvdJournal::with_capacity(8, Some(Duration::from_millis(25))),
            rcids: ArcRemoteCids::new(2, retired.clone()),
            retired,
            issued_frames,
            lcids: ArcLocalCids::new(ConnectionId::from_slice(&[0xAA; 8]), issued),
            fid: 0,
            validate_in_dispatch: dispatcher_validates(),
        }
    }

    /// one operation on the real objects; the answer is a single line
    fn apply(&mut self, ws: &[&str]) -> String {
        let num = |i: usize| ws.get(i).and_then(|w| w.parse::<u64>().ok()).unwrap_or(0);
        match ws[0] {
            "reset" => {
                *self = World::new();
                "ok".into()
            }
            "consts" => {
                let f = |o: Option<u64>| o.map(|v| v.to_string()).unwrap_or_else(|| "absent".into());
                format!(
                    "validate={} pn_gap={} seq_gap={} issued={}",
                    self.validate_in_dispatch as u8,
                    f(const_in("qrecovery/src/journal/rcvd.rs", "MAX_PN_GAP")),
                    f(const_in("qbase/src/cid/remote_cid.rs", "MAX_SEQUENCE_GAP")),
                    f(const_in("qbase/src/cid/local_cid.rs", "MAX_ISSUED_ACTIVE_CIDS"))
                )
            }
            "sent" => {
                let mut next = 0;
                for _ in 0..num(1) {
                    self.fid += 1;
                    let mut g = self.sj.new_packet();
                    let (pn, _) = g.pn();
                    g.record_frame(self.fid);
                    g.build_with_time(Duration::from_secs(1000), Duration::from_secs(1000));
                    self.cc.on_pkt_sent(Epoch::Data, pn, true, 1200, true, None);
                    next = pn + 1;
                }
                format!("ok next={}", next)
            }
            "rcvd" => {
                self.rj.on_rcvd_pn(num(1), true, Duration::from_millis(100));
                "ok".into()
            }
            "ack" => {
                // ack L D F g:a,g:a
                let ranges: Vec<(VarInt, VarInt)> = if ws[4] == "-" {
                    vec![]
                } else {
                    ws[4].split(',').map(|p| { let (a, b) = p.split_once(':').unwrap(); (vi(a.parse().unwrap()), vi(b.parse().unwrap())) }).collect()
                };
                let f = AckFrame::new(vi(num(1)), vi(num(2)), vi(num(3)), ranges, None);
                let before = format!("{:?}|{:?}", self.sj, self.rj);
                let r = catch(|| -> Result<Vec<u32>, QuicError> {
                    // qconnection/src/space.rs read_plain_packet (fixed tree)
                    if self.validate_in_dispatch {
                        f.validate()?;
                    }
                    // space/{initial,handshake,data}.rs: Frame::Ack arm
                    self.cc.on_ack_rcvd(Epoch::Data, &f);
                    self.rj.on_rcvd_ack(&f);
                    // piped: space.rs impl ReceiveFrame<AckFrame> for Ack*Space
                    let mut rotate_guard = self.sj.rotate();
                    rotate_guard.update_largest(&f)?;
                    let acked = f.iter().flat_map(|r| r.rev()).collect::<Vec<_>>();
                    let mut out = vec![];
                    for pn in acked {
                        for frame in rotate_guard.on_packet_acked(pn) {
                            out.push(frame);
                        }
                    }
                    Ok(out)
                });
                match r {
                    Err(_) => "PANIC".into(),
                    Ok(Err(e)) => {
                        let same = before == format!("{:?}|{:?}", self.sj, self.rj);
                        format!("err {} untouched={}", kind_tok(e.kind()), same as u8)
                    }
                    Ok(Ok(fs)) => format!("ok frames={}", if fs.is_empty() { "-".into() } else { fs.iter().map(|x| x.to_string()).collect::<Vec<_>>().join(",") }),
                }
            }
            "arrive" => {
                let t = num(2);
                let e = match num(1) { 8 => PacketNumber::U8(t as u8), 16 => PacketNumber::U16(t as u16), 24 => PacketNumber::U24(t as u32), _ => PacketNumber::U32(t as u32) };
                match catch(|| self.rj.decode_pn(e)) {
                    Err(_) => "PANIC".into(),
                    Ok(Err(InvalidPacketNumber::TooOld)) => "TooOld".into(),
                    Ok(Err(InvalidPacketNumber::Duplicate)) => "Dup".into(),
                    Ok(Err(InvalidPacketNumber::TooLarge)) => "TooLarge".into(),
                    Ok(Ok(pn)) => match catch(|| self.rj.on_rcvd_pn(pn, true, Duration::from_millis(100))) {
                        Err(_) => "PANIC".into(),
                        Ok(()) => format!("ok {}", pn),
                    },
                }
            }
            "rinit" => {
                self.retired = Retired::default();
                self.rcids = ArcRemoteCids::new(num(1), self.retired.clone());
                "ok".into()
            }
            "newcid" => {
                let mut b = [0u8; 8];
                b.copy_from_slice(&(num(1) ^ 0x5555_0000_0000).to_be_bytes());
                let frame = NewConnectionIdFrame::new(ConnectionId::from_slice(&b), vi(num(1)), vi(num(2)));
                let q0 = *self.retired.0.lock().unwrap();
                match catch(|| self.rcids.recv_frame(frame)) {
                    Err(_) => "PANIC".into(),
                    Ok(Err(Error::Quic(e))) => format!("err {}", kind_tok(e.kind())),
                    Ok(Err(_)) => "err other".into(),
                    Ok(Ok(tok)) => format!("{} retire={}", if tok.is_some() { "ok" } else { "none" }, *self.retired.0.lock().unwrap() - q0),
                }
            }
            "setlimit" => {
                let q0 = *self.issued_frames.lock().unwrap();
                match catch(|| self.lcids.set_limit(num(1))) {
                    Err(_) => "PANIC".into(),
                    Ok(Err(Error::Quic(e))) => format!("err {}", kind_tok(e.kind())),
                    Ok(Err(_)) => "err other".into(),
                    Ok(Ok(())) => format!("ok issued={}", *self.issued_frames.lock().unwrap() - q0),
                }
            }
            "retire" => {
                let q0 = *self.issued_frames.lock().unwrap();
                match catch(|| self.lcids.recv_frame(RetireConnectionIdFrame::new(vi(num(1))))) {
                    Err(_) => "PANIC".into(),
                    Ok(Err(Error::Quic(e))) => format!("err {}", kind_tok(e.kind())),
                    Ok(Err(_)) => "err other".into(),
                    Ok(Ok(())) => format!("ok issued={}", *self.issued_frames.lock().unwrap() - q0),
                }
            }
            _ => "BAD".into(),
        }
    }
}

/// user + system CPU time of a process in ms (`/proc/<pid>/stat`, 100 ticks per second)
fn cpu_ms(pid: Option<u32>) -> u64 {
    let path = match pid { Some(p) => format!("/proc/{}/stat", p), None => "/proc/self/stat".into() };
    let Ok(s) = std::fs::read_to_string(path) else { return 0 };
    let Some(i) = s.rfind(')') else { return 0 };
    let f: Vec<&str> = s[i + 1..].split_whitespace().collect();
    let g = |k: usize| f.get(k).and_then(|v| v.parse::<u64>().ok()).unwrap_or(0);
    (g(11) + g(12)) * 10
}

fn hwm_kb() -> u64 {
    std::fs::read_to_string("/proc/self/status").ok().and_then(|s| {
        s.lines().find(|l| l.starts_with("VmHWM:")).and_then(|l| l.split_whitespace().nth(1).and_then(|v| v.parse().ok()))
    }).unwrap_or(0)
}

/// `gmq-harness C04w`: line server on stdin/stdout
fn worker(_o: &Opts) {
    let rt = tokio::runtime::Builder::new_current_thread().enable_time().start_paused(true).build().unwrap();
    rt.block_on(async {
        let mut w = World::new();
        let stdin = std::io::stdin();
        let mut out = std::io::stdout();
        for line in stdin.lock().lines() {
            let Ok(line) = line else { break };
            let ws: Vec<&str> = line.split_whitespace().collect();
            if ws.is_empty() { continue; }
            let m0 = hwm_kb();
            let t0 = StdInstant::now();
            let c0 = cpu_ms(None);
            let ans = w.apply(&ws);
            let us = t0.elapsed().as_micros();
            let _ = writeln!(out, "{} | us={} cpu={} hwm={}", ans, us, cpu_ms(None) - c0, hwm_kb().saturating_sub(m0));
            let _ = out.flush();
        }
    });
}

// ------------------------------------------------------------------------------------------------
// parent
// ------------------------------------------------------------------------------------------------

struct Proc {
    child: Child,
    stdin: ChildStdin,
    rx: Receiver<String>,
    errfile: String,
}

enum Ans {
    Line(String, u64, u64), // observation, CPU ms, peak-RSS growth kB
    Timeout,
    Died(bool), // true = allocation failure
}

struct Pool {
    p: Option<Proc>,
    restarts: u64,
}

impl Pool {
    fn spawn() -> Proc {
        let exe = std::env::current_exe().unwrap();
        let errfile = format!("/tmp/c04w.{}.{}.err", std::process::id(), StdInstant::now().elapsed().as_nanos() as u64 ^ rand_tag());
        let cmd = format!("ulimit -v {}; exec '{}' C04w 2>'{}'", WORKER_AS_KB, exe.display(), errfile);
        let mut child = Command::new("sh").arg("-c").arg(cmd).stdin(Stdio::piped()).stdout(Stdio::piped()).spawn().expect("spawn worker");
        let stdin = child.stdin.take().unwrap();
        let stdout = child.stdout.take().unwrap();
        let (tx, rx) = channel();
        std::thread::spawn(move || {
            for l in BufReader::new(stdout).lines() {
                let Ok(l) = l else { break };
                if tx.send(l).is_err() { break; }
            }
        });
        Proc { child, stdin, rx, errfile }
    }

    fn kill(&mut self) {
        if let Some(mut p) = self.p.take() {
            let _ = p.child.kill();
            let _ = p.child.wait();
            let _ = std::fs::remove_file(&p.errfile);
        }
    }

    fn ask(&mut self, op: &str) -> Ans {
        if self.p.is_none() {
            self.p = Some(Self::spawn());
            self.restarts += 1;
        }
        let p = self.p.as_mut().unwrap();
        if writeln!(p.stdin, "{}", op).and_then(|_| p.stdin.flush()).is_err() {
            self.kill();
            return Ans::Died(false);
        }
        // the cap is on CPU time: on a loaded machine the worker may simply not have been scheduled
        let c0 = cpu_ms(Some(p.child.id()));
        let mut r = p.rx.recv_timeout(Duration::from_millis(OP_CAP_MS));
        let mut rounds = 0;
        while matches!(r, Err(RecvTimeoutError::Timeout)) && cpu_ms(Some(p.child.id())).saturating_sub(c0) < OP_CAP_MS * 4 / 5 && rounds < 12 {
            r = p.rx.recv_timeout(Duration::from_millis(OP_CAP_MS));
            rounds += 1;
        }
        match r {
            Ok(l) => {
                let (obs, meta) = l.split_once(" | ").unwrap_or((&l, ""));
                let get = |k: &str| meta.split_whitespace().find_map(|w| w.strip_prefix(k).and_then(|v| v.parse::<u64>().ok())).unwrap_or(0);
                Ans::Line(obs.to_string(), get("cpu="), get("hwm="))
            }
            Err(RecvTimeoutError::Timeout) => {
                self.kill();
                Ans::Timeout
            }
            Err(RecvTimeoutError::Disconnected) => {
                let _ = p.child.wait();
                let err = std::fs::read_to_string(&p.errfile).unwrap_or_default();
                let oom = err.contains("memory allocation") || err.contains("capacity overflow") || err.contains("alloc");
                self.kill();
                Ans::Died(oom)
            }
        }
    }
}

fn rand_tag() -> u64 {
    static N: AtomicU64 = AtomicU64::new(0);
    N.fetch_add(1, Ordering::Relaxed)
}

/// boundary set of the design + state-relative values
fn boundary(rng: &mut Rng, rel: u64) -> u64 {
    const B: [u64; 13] = [0, 1, 63, 64, 16383, 16384, 16385, (1 << 30) - 1, 1 << 30, (1 << 30) + 1, (1 << 62) - 1, (1 << 62) - 2, 1 << 31];
    match rng.below(10) {
        0..=4 => *rng.pick(&B),
        5 => rel,
        6 => rel + 1,
        7 => rel.saturating_sub(1),
        8 => rng.below(rel + 3),
        _ => rng.varint62(),
    }
}

struct Ctx<'a> {
    sink: &'a mut Sink,
    pool: Pool,
    dead: bool,
    /// classes skipped after repeated TIMEOUT/OOM (keeps a run on an unfixed tree finite)
    strikes: std::collections::BTreeMap<String, u64>,
}

impl<'a> Ctx<'a> {
    /// run one op; `class` names the hostile class for the strike counter and the monitor keys
    fn op(&mut self, op: &str, class: &str) -> String {
        if self.dead { return String::new(); }
        self.sink.pending(op);
        let obs = match self.pool.ask(op) {
            Ans::Line(obs, cpu, hwm) => {
                if cpu > TIME_BOUND_MS {
                    self.sink.monitor_fail(&format!("slow:{}", class), &format!("`{}` took {} ms of CPU on a state of < 100 elements (bound {} ms)", op, cpu, TIME_BOUND_MS));
                }
                if hwm > MEM_BOUND_KB {
                    self.sink.monitor_fail(&format!("memory:{}", class), &format!("`{}` raised the peak RSS by {} kB on a state of < 100 elements (bound {} kB)", op, hwm, MEM_BOUND_KB));
                }
                if obs == "PANIC" {
                    self.sink.monitor_fail(&format!("panic:{}", class), &format!("`{}` panicked", op));
                    self.dead = true;
                    self.pool.kill(); // the real objects may be poisoned
                }
                obs
            }
            Ans::Timeout => {
                *self.strikes.entry(class.to_string()).or_insert(0) += 1;
                self.sink.monitor_fail(&format!("timeout:{}", class), &format!("`{}` did not finish within {} ms of wall time / {} ms of CPU", op, OP_CAP_MS, OP_CAP_MS * 4 / 5));
                self.dead = true;
                "TIMEOUT".into()
            }
            Ans::Died(oom) => {
                *self.strikes.entry(class.to_string()).or_insert(0) += 1;
                self.sink.monitor_fail(&format!("oom:{}", class), &format!("`{}` killed the worker ({} under RLIMIT_AS {} kB)", op, if oom { "allocation failure" } else { "died" }, WORKER_AS_KB));
                self.dead = true;
                "OOM".into()
            }
        };
        self.sink.line(op, &obs);
        obs
    }
    fn struck(&self, class: &str) -> bool {
        self.strikes.get(class).copied().unwrap_or(0) >= 3
    }
}

fn begin(c: &mut Ctx, id: u64) {
    c.sink.case(&id.to_string());
    c.dead = false;
    c.op("reset", "reset");
    if id == 0 { c.op("consts", "consts"); }
}

/// 2..4 (gap, range) pairs, every field <= 2^62-1, with `first + Σ(gap + 2 + range)` = a chosen power-of-two
/// neighbourhood (2^62, 2^63, 2^64, 2^64 + largest, 2^65; ± 2) — spread over the fields in random order, half of the
/// fields saturated, so that no single field tells the story
fn wrap_ranges(rng: &mut Rng, largest: u64, first: u64) -> Vec<(u64, u64)> {
    const M: u128 = (1 << 62) - 1;
    let k = 2 + rng.below(3) as usize;
    let n = 2 * k;
    let base: u128 = *rng.pick(&[1u128 << 62, 1u128 << 63, 1u128 << 64, (1u128 << 64) + largest as u128, (1u128 << 64) + largest as u128 + 1, 1u128 << 65, (largest as u128) + 1]);
    let target = (base + rng.below(5) as u128).saturating_sub(2);
    let mut rest = target.saturating_sub(first as u128 + 2 * k as u128).min(M * n as u128);
    let mut order: Vec<usize> = (0..n).collect();
    for i in (1..n).rev() { order.swap(i, rng.below(i as u64 + 1) as usize); }
    let mut fields = vec![0u64; n];
    for (j, i) in order.iter().enumerate() {
        let slots_after = (n - j - 1) as u128;
        let lo = rest.saturating_sub(M * slots_after);
        let hi = rest.min(M);
        let v = if j + 1 == n { rest.min(M) } else if rng.chance(1, 2) { hi } else { lo + (rng.varint62() as u128) % (hi - lo + 1) };
        fields[*i] = v as u64;
        rest -= v;
    }
    (0..k).map(|i| (fields[2 * i], fields[2 * i + 1])).collect()
}

// ---- independent classification of an ACK frame (RFC 9000 §19.3.1) ----
fn ack_negative(largest: u64, first: u64, ranges: &[(u64, u64)]) -> bool {
    let Some(mut smallest) = largest.checked_sub(first) else { return true };
    for (g, r) in ranges {
        let Some(x) = smallest.checked_sub(*g).and_then(|x| x.checked_sub(2)).and_then(|x| x.checked_sub(*r)) else { return true };
        smallest = x;
    }
    false
}

fn pairs(rs: &[(u64, u64)]) -> String {
    if rs.is_empty() { "-".into() } else { rs.iter().map(|(a, b)| format!("{}:{}", a, b)).collect::<Vec<_>>().join(",") }
}

fn run_ack(o: &Opts) {
    let mut sink = Sink::new_with_stats(&o.out, &o.stats);
    sink.set_hang_secs(60);
    let mut c = Ctx { sink: &mut sink, pool: Pool { p: None, restarts: 0 }, dead: false, strikes: Default::default() };
    for id in 0..o.cases {
        if let Some(only) = o.only_case { if only != id { continue; } }
        let mut rng = Rng::new(o.seed, id);
        begin(&mut c, id);
        let k = match rng.below(8) { 0 => 0, 1 => 1, _ => rng.range(2, 60) };
        if k > 0 { c.op(&format!("sent {}", k), "hist"); }
        for _ in 0..rng.below(4) { let pn = rng.below(12); c.op(&format!("rcvd {}", pn), "hist"); }
        let next = k;
        let nfr = 1 + rng.below(3);
        for _ in 0..nfr {
            if c.dead { break; }
            let (largest, first, ranges, class): (u64, u64, Vec<(u64, u64)>, &str) = match rng.below(16) {
                0..=2 if next > 0 => {
                    // benign: runs below `next`
                    let largest = next - 1 - rng.below(next.min(4));
                    let first = rng.below(largest + 1).min(rng.below(6));
                    let mut rs = vec![];
                    let mut smallest = largest - first;
                    for _ in 0..rng.below(4) {
                        if smallest < 3 { break; }
                        let g = rng.below(smallest - 2).min(3);
                        let r = rng.below(smallest - 2 - g + 1).min(4);
                        rs.push((g, r));
                        smallest = smallest - g - 2 - r;
                    }
                    (largest, first, rs, "benign")
                }
                3 if next > 0 => (next - 1, next - 1, vec![], "ack-everything"),
                4 => { let l = boundary(&mut rng, next); (l, l + 1 + rng.below(3).min((1u64 << 62) - 2 - l.min((1 << 62) - 2)), vec![], "first>largest") }
                5 => { let l = boundary(&mut rng, next); let f = rng.below(l + 1); (l, f, vec![(boundary(&mut rng, l - f), rng.below(3))], "gap-underflow") }
                6 => { let l = boundary(&mut rng, next).max(next); (l, l, vec![], "unsent-all") }
                7 => { let l = boundary(&mut rng, next).max(next); (l, rng.below(3).min(l), vec![], "unsent") }
                8 => { let l = boundary(&mut rng, next); let f = boundary(&mut rng, l); (l, f, vec![], "boundary") }
                9..=12 => {
                    // multi-field boundary combinations: 2..4 additional ranges whose fields TOGETHER (with first_range and
                    // the 2 per range) reach 2^62, 2^63, 2^64, 2^64 + largest, 2^65 (± 2), every single field a valid varint
                    let l = if rng.chance(1, 2) { boundary(&mut rng, next) } else { rng.below(next + 3) }.min((1 << 62) - 1);
                    let f = match rng.below(4) { 0 => 0, 1 => rng.below(l + 1), 2 => l, _ => boundary(&mut rng, l).min((1 << 62) - 1) };
                    (l, f, wrap_ranges(&mut rng, l, f), "multi-field-sum")
                }
                _ => {
                    let l = boundary(&mut rng, next); let f = boundary(&mut rng, l);
                    let rs = (0..rng.below(4)).map(|_| (boundary(&mut rng, 2), boundary(&mut rng, 2))).collect();
                    (l, f, rs, "boundary-ranges")
                }
            };
            let (largest, first) = (largest.min((1 << 62) - 1), first.min((1 << 62) - 1));
            let ranges: Vec<(u64, u64)> = ranges.into_iter().map(|(g, r)| (g.min((1 << 62) - 1), r.min((1 << 62) - 1))).collect();
            let negative = ack_negative(largest, first, &ranges);
            let unsent = largest >= next;
            let situation = if negative { "negative" } else if unsent { "unsent" } else { "accepted" };
            let gen_class = class;
            let class = format!("ack:{}", if negative { "negative" } else if unsent { if first > 1 << 20 { "unsent-huge-range" } else { "unsent" } } else { class });
            if c.struck(&class) { c.sink.branch(&format!("skipped-after-3-strikes:{}", class)); continue; }
            c.sink.branch(&class);
            if gen_class == "multi-field-sum" { c.sink.branch("ackgen:multi-field-sum(2..4 ranges summing to 2^62/2^63/2^64/2^64+largest/2^65 +-2)"); }
            let op = format!("ack {} {} {} {}", largest, rng.below(1000), first, pairs(&ranges));
            let obs = c.op(&op, &class);
            // RFC monitors (from the generator's own classification)
            match situation {
                "negative" => {
                    if !obs.starts_with("err FrameEncoding") { c.sink.monitor_fail("ack_negative_not_frame_encoding", &format!("`{}` acknowledges a negative packet number (RFC 9000 19.3.1: FRAME_ENCODING_ERROR), got `{}`", op, obs)); }
                    else if !obs.ends_with("untouched=1") { c.sink.monitor_fail("ack_negative_acted_on", &format!("`{}` was refused but the journals changed", op)); }
                }
                "unsent" => {
                    if !obs.starts_with("err ProtocolViolation") { c.sink.monitor_fail("ack_unsent_not_protocol_violation", &format!("`{}` acknowledges packet {} but only {} were sent (RFC 9000 13.1: PROTOCOL_VIOLATION), got `{}`", op, largest, next, obs)); }
                }
                _ => {
                    if !obs.starts_with("ok") { c.sink.monitor_fail("ack_valid_refused", &format!("`{}` is well-formed and within the {} packets sent, got `{}`", op, next, obs)); }
                    else { c.sink.nontrivial(); }
                }
            }
            if obs.starts_with("err") || c.dead { break; }
        }
    }
    let restarts = c.pool.restarts;
    c.pool.kill();
    sink.note("worker_restarts", serde_json::json!(restarts));
    sink.note("dispatcher_ack_arms_as_copied_by_the_harness", serde_json::json!(format!("{}/3", dispatcher_arms_as_copied())));
    sink.finish(&o.stats, "C04a: 0..60 packets sent (sent journal + qcongestion), a few packets received, then 1..3 ACK frames: benign runs / everything, first_range > largest, gap underflow, largest >= next pn (with first_range = largest or small), all fields from the boundary set {0,1,63,64,2^14+-1,2^30+-1,2^31,2^62-2,2^62-1,state+-1} + uniform 62-bit, and (1/4 of the frames) 2..4 additional ranges whose gap/range fields TOGETHER with first_range sum to 2^62, 2^63, 2^64, 2^64+largest, 2^65 or largest+1 (+-2), each field a valid varint; real dispatcher order replayed in a worker process with RLIMIT_AS and a 10 s wall (8 s CPU) cap per operation; non-trivial = an ACK accepted; distinct by transcript hash");
}

fn run_pn(o: &Opts) {
    let mut sink = Sink::new_with_stats(&o.out, &o.stats);
    sink.set_hang_secs(60);
    let mut c = Ctx { sink: &mut sink, pool: Pool { p: None, restarts: 0 }, dead: false, strikes: Default::default() };
    for id in 0..o.cases {
        if let Some(only) = o.only_case { if only != id { continue; } }
        let mut rng = Rng::new(o.seed, id);
        begin(&mut c, id);
        let base = match rng.below(4) { 0 => 0, _ => rng.below(50) };
        let mut largest = 0u64; // one past the largest registered
        for i in 0..rng.below(5) { let pn = base + i * (1 + rng.below(3)); c.op(&format!("rcvd {}", pn), "hist"); largest = largest.max(pn + 1); }
        for _ in 0..(1 + rng.below(3)) {
            if c.dead { break; }
            let jump = match rng.below(40) { 0..=3 => 0, 4..=9 => 1, 10..=13 => 63, 14..=16 => 64, 17..=19 => 16383, 20..=22 => 16385, 23..=25 => 65535, 26..=28 => 65536, 29..=31 => 65537, 32..=34 => 65538, 35 => 65539, 36 => 1 << 20, 37 => 1 << 24, 38 => (1 << 30) + 1, _ => (1u64 << 31) - 1 - rng.below(3) };
            let bits = if jump < 100 { *rng.pick(&[8u64, 16, 24, 32]) } else if jump < 30000 { *rng.pick(&[16u64, 24, 32]) } else if jump < (1 << 23) { *rng.pick(&[24u64, 32]) } else { 32 };
            let target = largest + jump;
            let trunc = target & ((1u64 << bits) - 1);
            let class = format!("pn:jump{}", if jump <= 65536 { "<=2^16" } else if jump <= (1 << 20) { "<=2^20" } else { ">2^20" });
            if c.struck(&class) { c.sink.branch(&format!("skipped-after-3-strikes:{}", class)); continue; }
            c.sink.branch(&class);
            let obs = c.op(&format!("arrive {} {}", bits, trunc), &class);
            if let Some(pn) = obs.strip_prefix("ok ").and_then(|v| v.parse::<u64>().ok()) { largest = largest.max(pn + 1); c.sink.nontrivial(); }
            if jump > (1 << 20) { break; } // the model does not replay the state after a huge fill
        }
    }
    let restarts = c.pool.restarts;
    c.pool.kill();
    sink.note("worker_restarts", serde_json::json!(restarts));
    sink.finish(&o.stats, "C04p: 0..4 packets registered, then 1..3 packets whose 1-4 byte number decodes `jump` beyond the largest seen, jump in {0,1,63,64,2^14+-1,2^16-1..2^16+2,2^20,2^24,2^30+1,2^31-1..}; decode_pn + on_rcvd_pn on a real ArcRcvdJournal in the worker; non-trivial = a packet number accepted; distinct by transcript hash");
}

fn run_cid(o: &Opts) {
    let mut sink = Sink::new_with_stats(&o.out, &o.stats);
    sink.set_hang_secs(60);
    let mut c = Ctx { sink: &mut sink, pool: Pool { p: None, restarts: 0 }, dead: false, strikes: Default::default() };
    for id in 0..o.cases {
        if let Some(only) = o.only_case { if only != id { continue; } }
        let mut rng = Rng::new(o.seed, id);
        begin(&mut c, id);
        if rng.chance(1, 2) {
            // ---- peer's connection ids ----
            let limit = rng.range(2, 9);
            c.op(&format!("rinit {}", limit), "hist");
            let mut next = 0u64; // one past the largest sequence number delivered
            // the generator's own books (RFC 9000 5.1.1): ids received and the largest retire_prior_to seen
            let mut received: std::collections::BTreeSet<u64> = Default::default();
            let mut max_rpt = 0u64;
            for s in 0..rng.below(limit) { let o = c.op(&format!("newcid {} 0", s), "hist"); if o.starts_with("ok") { next = s + 1; received.insert(s); } }
            for _ in 0..(1 + rng.below(2)) {
                if c.dead { break; }
                let seq = match rng.below(14) { 0 => next, 1 => next + 1, 2 => next + limit, 3 => next + 4095, 4 => next + 4096, 5 => next + 4097, 6 => next + 4098, 7 => 1 << 25, 8 => next + rng.below(limit + 2), 9 => next + 2 + rng.below(4000), _ => boundary(&mut rng, next) }.min((1 << 62) - 1);
                let rpt = match rng.below(10) { 0 => 0, 1 => seq, 2 => seq.saturating_sub(1), 3 => seq.saturating_sub(limit), 4 => seq.saturating_sub(limit + 1), 5 => seq.saturating_sub(limit.saturating_sub(1)), 6 => next.min(seq), 7 => next.saturating_sub(1).min(seq), 8 => (max_rpt + 1).min(seq), _ => rng.below(seq + 1) };
                let far = seq.saturating_sub(next);
                // active ids after the frame, if it were processed: received or this one, not below the retire-prior-to mark
                let mark = max_rpt.max(rpt);
                let would_active = received.iter().filter(|x| **x >= mark && **x != seq).count() as u64 + (seq >= mark) as u64;
                let old = seq < max_rpt;
                let far_ahead = far > 4096.max(limit);
                let class = format!("newcid:{}", if old { "below-retire-mark" } else if far_ahead { if far > 1 << 20 { "far-ahead-huge" } else { "far-ahead" } } else if would_active > limit { "over-limit" } else if seq - rpt > limit { "within-limit-wide-fields" } else { "within-limit" });
                if c.struck(&class) { c.sink.branch(&format!("skipped-after-3-strikes:{}", class)); continue; }
                c.sink.branch(&class);
                let op = format!("newcid {} {}", seq, rpt);
                let obs = c.op(&op, &class);
                if !old && !far_ahead && would_active > limit && !obs.starts_with("err ConnectionIdLimit") {
                    c.sink.monitor_fail("cid_limit_not_connection_id_limit", &format!("`{}` would leave {} active connection ids with active_connection_id_limit {} (RFC 9000 5.1.1: CONNECTION_ID_LIMIT_ERROR), got `{}`", op, would_active, limit, obs));
                }
                if !old && !far_ahead && would_active <= limit && !obs.starts_with("ok") {
                    c.sink.monitor_fail("legal_issue_rejected", &format!("`{}` leaves {} active connection ids, limit {}, {} numbers ahead: must be accepted, got `{}`", op, would_active, limit, far, obs));
                }
                if obs.starts_with("err") && !obs.starts_with("err ConnectionIdLimit") {
                    c.sink.monitor_fail("newcid_wrong_error", &format!("`{}` got `{}`", op, obs));
                }
                if obs.starts_with("ok") { next = next.max(seq + 1); received.insert(seq); max_rpt = max_rpt.max(rpt); c.sink.nontrivial(); }
                if obs.starts_with("err") { break; }
            }
        } else {
            // ---- our connection ids: peer's active_connection_id_limit, RETIRE_CONNECTION_ID ----
            let mut issued = 2u64; // seq 0 (scid) and 1 are issued by `new`
            let n: u64 = match rng.below(12) { 0 => 0, 1 => 1, 2 => 2, 3 => 3, 4 => 8, 5 => 63, 6 => 64, 7 => 65, 8 => 16384, 9 => 1 << 18, 10 => 1 << 30, _ => (1 << 62) - 1 };
            let class = format!("setlimit:{}", if n < 2 { "<2" } else if n <= 64 { "<=64" } else if n <= 16384 { "<=2^14" } else { ">2^14" });
            if c.struck(&class) { c.sink.branch(&format!("skipped-after-3-strikes:{}", class)); continue; }
            c.sink.branch(&class);
            let op = format!("setlimit {}", n);
            let obs = c.op(&op, &class);
            if n < 2 && !obs.starts_with("err TransportParameter") {
                c.sink.monitor_fail("cid_limit_param_below_2_accepted", &format!("`{}` (RFC 9000 18.2: TRANSPORT_PARAMETER_ERROR), got `{}`", op, obs));
            }
            if let Some(k) = obs.strip_prefix("ok issued=").and_then(|v| v.parse::<u64>().ok()) { issued += k; c.sink.nontrivial(); }
            if obs.starts_with("err") || c.dead { continue; }
            for _ in 0..(1 + rng.below(3)) {
                if c.dead { break; }
                let seq = match rng.below(8) { 0 => 0, 1 => 1, 2 => issued - 1, 3 => issued, 4 => issued + 1, 5 => (1 << 62) - 1, _ => boundary(&mut rng, issued) }.min((1 << 62) - 1);
                let class = if seq >= issued { "retire:unissued" } else { "retire:issued" };
                c.sink.branch(class);
                let op = format!("retire {}", seq);
                let obs = c.op(&op, class);
                if seq >= issued && !obs.starts_with("err ProtocolViolation") {
                    c.sink.monitor_fail("retire_unissued_not_protocol_violation", &format!("`{}` with {} ids issued (RFC 9000 19.16: PROTOCOL_VIOLATION), got `{}`", op, issued, obs));
                }
                if seq < issued && !obs.starts_with("ok") {
                    c.sink.monitor_fail("retire_issued_refused", &format!("`{}` with {} ids issued, got `{}`", op, issued, obs));
                }
                if let Some(k) = obs.strip_prefix("ok issued=").and_then(|v| v.parse::<u64>().ok()) { issued += k; }
                if obs.starts_with("err") { break; }
            }
        }
    }
    let restarts = c.pool.restarts;
    c.pool.kill();
    sink.note("worker_restarts", serde_json::json!(restarts));
    sink.finish(&o.stats, "C04c: (a) ArcRemoteCids with limit 2..8, 0..limit-1 ids delivered in order, then 1..2 NEW_CONNECTION_ID frames with seq in {next, next+1, next+limit, next+4095..next+4098, next+2..next+4001, 2^25, boundary set, uniform 62-bit} and retire_prior_to in {0, seq, seq-1, seq-limit+1, seq-limit, seq-limit-1, next, next-1, largest retire_prior_to so far + 1, random} (classified by the number of active ids they would leave, not by seq - retire_prior_to); (b) ArcLocalCids: set_limit(n) for n in {0,1,2,3,8,63,64,65,2^14,2^18,2^30,2^62-1}, then 1..3 RETIRE_CONNECTION_ID for issued / unissued / boundary numbers; worker process with RLIMIT_AS and a 10 s cap; non-trivial = an id accepted / ids issued; distinct by transcript hash");
}

pub const RUNS: &[(&str, fn(&Opts))] = &[("C04a", run_ack), ("C04p", run_pn), ("C04c", run_cid), ("C04w", worker)];
