//! C11, stream level, on REAL `qrecovery::streams::DataStreams`:
//!
//! * `C11w` — the window-source table, extracted exhaustively: 3 wirings (client, server, client with
//!   remembered 0-RTT parameters) × 2 initiators × 2 directions × 2 sides × 3 parameter sets (pairwise
//!   distinct values; one set with zeros).  Send side: the largest offset the sender emits before any
//!   MAX_STREAM_DATA; receive side: the largest offset accepted without a FlowControl error.
//! * `C11s` — one endpoint driven with writes, packet assembly with random capacities (one STREAM
//!   frame per call through `StreamFramePackages::dump`), MAX_STREAM_DATA / MAX_DATA, losses, acks,
//!   peer STREAM frames (also beyond the limits, with and without FIN) and reads; the application's
//!   `Reader::stop`, dropping the `Reader`, `Writer::cancel`; the peer's RESET_STREAM and STOP_SENDING.
//!   After such an action the generator stays on that stream for a while and aims frames at the
//!   boundary of the advertised limit (limit-1, limit, limit+1, far beyond; with and without FIN).
use std::{
    collections::BTreeMap,
    pin::Pin,
    task::{Context, Poll},
};

use bytes::{BufMut, Bytes, BytesMut};
use qbase::{
    cid::ConnectionId,
    error::ErrorKind,
    flow::{ArcRecvController, ArcSendControler},
    frame::{Frame, GetFrameType, MaxDataFrame, MaxStreamDataFrame, StreamCtlFrame, StreamFrame, io::ReceiveFrame},
    net::tx::ArcSendWakers,
    packet::{Package, io::RecordFrame},
    param::{ArcParameters, ClientParameters, ParameterId, ServerParameters, core::Parameters as RoleParams},
    role::Role,
    sid::{Dir, StreamId, handy::DemandConcurrency},
    util::ContinuousData,
    varint::VarInt,
};
use qbase::frame::{MaxStreamsFrame, ResetStreamFrame, StopSendingFrame};
use qrecovery::{recv::{Reader, StopSending}, send::{CancelStream, Writer}, streams::{DataStreams, Ext}};

use super::c11::{dbg_field, send_state, Rec};
use crate::common::{catch, Opts, Rng, Sink};

const VMAX: u64 = (1 << 62) - 1;

/// Packet buffer with a hard capacity that records the STREAM frames written into it.
pub struct Pkt {
    buf: BytesMut,
    room: usize,
    pub frames: Vec<(u64, u64, u64, bool)>, // (sid, start, end, fin)
}

impl Pkt {
    pub fn new(cap: usize) -> Self {
        Pkt { buf: BytesMut::with_capacity(cap + 64), room: cap, frames: vec![] }
    }
}

unsafe impl BufMut for Pkt {
    fn remaining_mut(&self) -> usize {
        self.room
    }
    unsafe fn advance_mut(&mut self, cnt: usize) {
        unsafe { self.buf.advance_mut(cnt) };
        self.room -= cnt;
    }
    fn chunk_mut(&mut self) -> &mut bytes::buf::UninitSlice {
        if self.buf.capacity() == self.buf.len() {
            self.buf.reserve(64);
        }
        let n = self.room;
        let c = self.buf.chunk_mut();
        let l = c.len().min(n);
        &mut c[..l]
    }
}

impl<D: ContinuousData> RecordFrame<Frame<D>, D> for Pkt {
    fn record_frame(&mut self, frame: &Frame<D>) {
        if let Frame::Stream(f, _) = frame {
            self.frames.push((u64::from(f.stream_id()), f.range().start, f.range().end, f.is_fin()));
        }
    }
}

#[derive(Clone, Copy, Debug)]
pub struct P6 {
    pub l: [u64; 3], // local  bidi_local, bidi_remote, uni
    pub r: [u64; 3], // remote bidi_local, bidi_remote, uni
}
pub const PN: [&str; 3] = ["bidi_local", "bidi_remote", "uni"];

fn vi(v: u64) -> VarInt {
    VarInt::from_u64(v).unwrap()
}

fn fill<R: qbase::role::IntoRole + Default>(p: &mut RoleParams<R>, v: [u64; 3], max_data: u64, streams: u64) {
    p.set(ParameterId::InitialMaxStreamDataBidiLocal, vi(v[0])).unwrap();
    p.set(ParameterId::InitialMaxStreamDataBidiRemote, vi(v[1])).unwrap();
    p.set(ParameterId::InitialMaxStreamDataUni, vi(v[2])).unwrap();
    p.set(ParameterId::InitialMaxData, vi(max_data)).unwrap();
    p.set(ParameterId::InitialMaxStreamsBidi, vi(streams)).unwrap();
    p.set(ParameterId::InitialMaxStreamsUni, vi(streams)).unwrap();
}

#[derive(Clone, Copy, PartialEq, Eq, Debug)]
pub enum Wiring {
    Client,
    Server,
    Client0Rtt,
}

impl Wiring {
    pub fn name(self) -> &'static str {
        match self { Wiring::Client => "client", Wiring::Server => "server", Wiring::Client0Rtt => "client0rtt" }
    }
    pub fn role(self) -> Role {
        if self == Wiring::Server { Role::Server } else { Role::Client }
    }
}

pub struct Endpoint {
    pub role: Role,
    pub ds: DataStreams<Rec>,
    pub params: ArcParameters,
    pub rec: Rec,
    pub fc: ArcSendControler<Rec>,
    pub rc: ArcRecvController<Rec>,
}

/// Builds the endpoint the way `qconnection/src/builder.rs` does: `DataStreams`/`FlowController` are
/// created from the local parameters and the REMEMBERED (or default = all zero) peer parameters; the real
/// peer parameters arrive later and are applied with `revise_params` / `revise_max_data`.
pub fn endpoint(w: Wiring, p: P6, lmd: u64, rmd: u64, streams: u64) -> Endpoint {
    let rec = Rec::default();
    let wakers = ArcSendWakers::default();
    let odcid = ConnectionId::from_slice(&[7u8; 8]);
    let cscid = ConnectionId::from_slice(&[1u8; 8]);
    let sscid = ConnectionId::from_slice(&[2u8; 8]);
    let mut cp = ClientParameters::default();
    let mut sp = ServerParameters::default();
    match w {
        Wiring::Client | Wiring::Client0Rtt => { fill(&mut cp, p.l, lmd, streams); fill(&mut sp, p.r, rmd, streams); }
        Wiring::Server => { fill(&mut sp, p.l, lmd, streams); fill(&mut cp, p.r, rmd, streams); }
    }
    cp.set(ParameterId::InitialSourceConnectionId, cscid).unwrap();
    sp.set(ParameterId::InitialSourceConnectionId, sscid).unwrap();
    sp.set(ParameterId::OriginalDestinationConnectionId, odcid).unwrap();
    match w {
        Wiring::Client => {
            let ds = DataStreams::new(Role::Client, &cp, &ServerParameters::default(), Box::new(DemandConcurrency), rec.clone(), wakers.clone(), None);
            let fc = ArcSendControler::new(0, rec.clone(), wakers.clone());
            let rc = ArcRecvController::new(lmd, rec.clone());
            let mut ps = qbase::param::Parameters::new_client(cp, None, odcid);
            ps.recv_remote_params(sp.clone()).unwrap();
            ps.initial_scid_from_peer_need_equal(sscid).unwrap();
            // tls_fin_handler → apply_parameters
            ds.revise_params(false, &sp);
            fc.revise_max_data(false, rmd);
            Endpoint { role: Role::Client, ds, params: ps.into(), rec, fc, rc }
        }
        Wiring::Client0Rtt => {
            // remembered parameters, the server's real ones not yet received
            let ds = DataStreams::new(Role::Client, &cp, &sp, Box::new(DemandConcurrency), rec.clone(), wakers.clone(), None);
            let fc = ArcSendControler::new(rmd, rec.clone(), wakers.clone());
            let rc = ArcRecvController::new(lmd, rec.clone());
            let ps = qbase::param::Parameters::new_client(cp, Some(sp), odcid);
            Endpoint { role: Role::Client, ds, params: ps.into(), rec, fc, rc }
        }
        Wiring::Server => {
            let ds = DataStreams::new(Role::Server, &sp, &ClientParameters::default(), Box::new(DemandConcurrency), rec.clone(), wakers.clone(), None);
            let fc = ArcSendControler::new(0, rec.clone(), wakers.clone());
            let rc = ArcRecvController::new(lmd, rec.clone());
            let mut ps = qbase::param::Parameters::new_server(sp);
            ps.recv_remote_params(cp.clone()).unwrap();
            ps.initial_scid_from_peer_need_equal(cscid).unwrap();
            ds.revise_params(false, &cp);
            fc.revise_max_data(false, rmd);
            Endpoint { role: Role::Server, ds, params: ps.into(), rec, fc, rc }
        }
    }
}

/// `Wiring::Client0Rtt` endpoint whose remembered parameters allow `ms` = [bidi, uni] streams.
pub fn endpoint_ms(w: Wiring, p: P6, lmd: u64, rmd: u64, ms: [u64; 2]) -> Endpoint {
    assert!(w == Wiring::Client0Rtt);
    let rec = Rec::default();
    let wakers = ArcSendWakers::default();
    let (cp, sp, odcid, _) = zparams(p, lmd, rmd, ms);
    let ds = DataStreams::new(Role::Client, &cp, &sp, Box::new(DemandConcurrency), rec.clone(), wakers.clone(), None);
    let fc = ArcSendControler::new(rmd, rec.clone(), wakers.clone());
    let rc = ArcRecvController::new(lmd, rec.clone());
    let ps = qbase::param::Parameters::new_client(cp, Some(sp), odcid);
    Endpoint { role: Role::Client, ds, params: ps.into(), rec, fc, rc }
}

fn zparams(p: P6, lmd: u64, rmd: u64, ms: [u64; 2]) -> (ClientParameters, ServerParameters, ConnectionId, ConnectionId) {
    let odcid = ConnectionId::from_slice(&[7u8; 8]);
    let cscid = ConnectionId::from_slice(&[1u8; 8]);
    let sscid = ConnectionId::from_slice(&[2u8; 8]);
    let mut cp = ClientParameters::default();
    let mut sp = ServerParameters::default();
    fill(&mut cp, p.l, lmd, 100);
    fill(&mut sp, p.r, rmd, 100);
    sp.set(ParameterId::InitialMaxStreamsBidi, vi(ms[0])).unwrap();
    sp.set(ParameterId::InitialMaxStreamsUni, vi(ms[1])).unwrap();
    cp.set(ParameterId::InitialSourceConnectionId, cscid).unwrap();
    sp.set(ParameterId::InitialSourceConnectionId, sscid).unwrap();
    sp.set(ParameterId::OriginalDestinationConnectionId, odcid).unwrap();
    (cp, sp, odcid, sscid)
}

/// The handshake completes (`qconnection/src/builder.rs` `apply_parameters`): the server's real parameters are
/// received and authenticated, then `revise_params` and `revise_max_data`.
pub fn revise(e: &Endpoint, rejected: bool, p: P6, lmd: u64, rmd: u64, ms: [u64; 2]) {
    let (_, sp, _, sscid) = zparams(p, lmd, rmd, ms);
    {
        let mut g = e.params.lock_guard().expect("parameters");
        g.recv_remote_params(sp.clone()).expect("remote parameters");
        g.initial_scid_from_peer_need_equal(sscid).expect("scid");
    }
    e.ds.revise_params(rejected, &sp);
    e.fc.revise_max_data(rejected, rmd);
}

pub type W = Writer<Ext<Rec>>;
pub type R = Reader<Ext<Rec>>;

fn cx() -> Context<'static> {
    Context::from_waker(futures::task::noop_waker_ref())
}

impl Endpoint {
    pub fn peer_role(&self) -> Role {
        if self.role == Role::Client { Role::Server } else { Role::Client }
    }
    pub fn open_bi(&self) -> Option<(StreamId, R, W)> {
        let mut fut = self.ds.open_bi(&self.params);
        match Pin::new(&mut fut).poll(&mut cx()) {
            Poll::Ready(Ok(Some((sid, (r, w))))) => Some((sid, r, w)),
            _ => None,
        }
    }
    pub fn open_uni(&self) -> Option<(StreamId, W)> {
        let mut fut = self.ds.open_uni(&self.params);
        match Pin::new(&mut fut).poll(&mut cx()) {
            Poll::Ready(Ok(Some((sid, w)))) => Some((sid, w)),
            _ => None,
        }
    }
    pub fn accept_bi(&self) -> Option<(StreamId, R, W)> {
        let mut fut = self.ds.accept_bi(&self.params);
        match Pin::new(&mut fut).poll(&mut cx()) {
            Poll::Ready(Ok((sid, (r, w)))) => Some((sid, r, w)),
            _ => None,
        }
    }
    pub fn accept_uni(&self) -> Option<(StreamId, R)> {
        let mut fut = self.ds.accept_uni();
        match Pin::new(&mut fut).poll(&mut cx()) {
            Poll::Ready(Ok((sid, r))) => Some((sid, r)),
            _ => None,
        }
    }
    /// A STREAM frame from the peer, the way `FlowControlledDataStreams::recv_frame` handles it:
    /// `recv_data`, then the fresh amount goes to the connection-level receive controller.
    pub fn rx(&self, sid: StreamId, off: u64, len: usize, fin: bool) -> Result<(usize, Result<usize, ErrorKind>), ErrorKind> {
        let mut f = StreamFrame::new(sid, off, len);
        f.set_eos_flag(fin);
        let ft = f.frame_type();
        let body = Bytes::from(vec![0u8; len]);
        let fresh = self.ds.recv_data((f, body)).map_err(|e| e.kind())?;
        Ok((fresh, self.rc.on_new_rcvd(ft, fresh).map_err(|e| e.kind())))
    }
}

use std::future::Future;

/// `max_data` of the `SendBuf` behind a `Writer` (derived `Debug`).
pub fn writer_window(w: &W) -> Option<u64> {
    dbg_field(&format!("{:?}", w), "max_data")
}
/// `max_stream_data` of the `Recv` behind a `Reader` (derived `Debug`); `None` once the size is known.
pub fn reader_window(r: &R) -> Option<u64> {
    dbg_field(&format!("{:?}", r), "max_stream_data")
}

// =================================================================================================
// C11w
// =================================================================================================

/// RFC 9000 §18.2 from the perspective of the endpoint under test: (owner, index into PN).
fn rfc_src(init_local: bool, dir: Dir, send: bool) -> Option<(bool /*local params?*/, usize)> {
    match (init_local, dir, send) {
        (true, Dir::Bi, true) => Some((false, 1)),   // peer's bidi_remote: streams the PEER did not open
        (true, Dir::Bi, false) => Some((true, 0)),   // our bidi_local
        (true, Dir::Uni, true) => Some((false, 2)),  // peer's uni
        (true, Dir::Uni, false) => None,
        (false, Dir::Bi, true) => Some((false, 0)),  // peer's bidi_local: streams the peer opened
        (false, Dir::Bi, false) => Some((true, 1)),  // our bidi_remote
        (false, Dir::Uni, true) => None,
        (false, Dir::Uni, false) => Some((true, 2)), // our uni
    }
}

fn src_name(p: &P6, v: u64) -> String {
    let mut n = vec![];
    for i in 0..3 { if p.l[i] == v { n.push(format!("local.{}", PN[i])); } }
    for i in 0..3 { if p.r[i] == v { n.push(format!("remote.{}", PN[i])); } }
    if n.is_empty() { format!("no parameter (value {})", v) } else { n.join("|") }
}

/// Largest offset the sender emits for `sid` with unlimited connection credit and no MAX_STREAM_DATA.
fn probe_send(e: &Endpoint, sid: StreamId, w: &mut W) -> u64 {
    w.write(Bytes::from(vec![0u8; 20_000])).ok();
    let big: ArcSendControler<Rec> = ArcSendControler::new(VMAX, Rec::default(), ArcSendWakers::default());
    let mut hi = 0;
    for _ in 0..64 {
        let mut pkt = Pkt::new(1200);
        if e.ds.try_load_data_into(&mut pkt, &big, false).is_err() { break; }
        for (s, _, b, _) in &pkt.frames { if *s == u64::from(sid) { hi = hi.max(*b); } }
    }
    hi
}

/// Largest end offset accepted on `sid`; probes `v` and `v+1` for every candidate, ascending.
fn probe_recv(e: &Endpoint, sid: StreamId, p: &P6, sink: &mut Sink) -> u64 {
    let mut cand: Vec<u64> = p.l.iter().chain(p.r.iter()).flat_map(|v| [*v, *v + 1]).filter(|v| *v >= 1).collect();
    cand.sort();
    cand.dedup();
    let mut hi = 0u64;
    let mut rejected_below: Option<u64> = None;
    for end in cand {
        match e.ds.recv_data((StreamFrame::new(sid, end - 1, 1), Bytes::from_static(&[0u8]))) {
            Ok(_) => {
                hi = end;
                if let Some(r) = rejected_below { sink.monitor_fail("window_probe_not_monotone", &format!("end {} rejected but {} accepted", r, end)); }
            }
            Err(err) => {
                if err.kind() != ErrorKind::FlowControl { sink.monitor_fail("window_probe_error_kind", &format!("{:?}", err.kind())); }
                rejected_below.get_or_insert(end);
            }
        }
    }
    hi
}

pub fn run_w(o: &Opts) {
    let mut sink = Sink::new_with_stats(&o.out, &o.stats);
    let sets = [
        P6 { l: [101, 202, 303], r: [404, 505, 606] },
        P6 { l: [0, 17, 33], r: [49, 65, 0] },
        P6 { l: [7000, 5, 900], r: [60, 8000, 1] },
        P6 { l: [333, 444, 555], r: [0, 222, 111] }, // DESIGN §7 item 10 numbers on the remote side
    ];
    let mut cells = 0;
    for w in [Wiring::Client, Wiring::Server, Wiring::Client0Rtt] {
        for (si, p) in sets.iter().enumerate() {
            for init_local in [true, false] {
                for dir in [Dir::Bi, Dir::Uni] {
                    if w == Wiring::Client0Rtt && !init_local { continue; } // the server cannot open streams before it answers
                    let e = endpoint(w, *p, VMAX, VMAX, 100);
                    let dn = if dir == Dir::Bi { "bi" } else { "uni" };
                    let inn = if init_local { "local" } else { "remote" };
                    // open / accept
                    let (sid, mut wr, rd): (StreamId, Option<W>, Option<R>) = if init_local {
                        match dir {
                            Dir::Bi => { let (s, r, w) = e.open_bi().expect("open_bi"); (s, Some(w), Some(r)) }
                            Dir::Uni => { let (s, w) = e.open_uni().expect("open_uni"); (s, Some(w), None) }
                        }
                    } else {
                        let sid = StreamId::new(e.peer_role(), dir, 0);
                        // the peer's first (empty) frame creates the stream
                        e.ds.recv_data((StreamFrame::new(sid, 0, 0), Bytes::new())).expect("create");
                        match dir {
                            Dir::Bi => { let (s, r, w) = e.accept_bi().expect("accept_bi"); assert_eq!(s, sid); (s, Some(w), Some(r)) }
                            Dir::Uni => { let (s, r) = e.accept_uni().expect("accept_uni"); assert_eq!(s, sid); (s, None, Some(r)) }
                        }
                    };
                    for send in [true, false] {
                        cells += 1;
                        let side = if send { "send" } else { "recv" };
                        let id = format!("{}.{}.{}.{}.set{}", w.name(), inn, dn, side, si);
                        sink.case(&id);
                        let op = format!("cell {} {} {} {} l={},{},{} r={},{},{}", w.name(), inn, dn, side, p.l[0], p.l[1], p.l[2], p.r[0], p.r[1], p.r[2]);
                        let observed: Option<u64> = if send {
                            wr.as_mut().map(|w| probe_send(&e, sid, w))
                        } else {
                            rd.as_ref().map(|_| probe_recv(&e, sid, p, &mut sink))
                        };
                        // cross-check with the private field
                        let field = if send { wr.as_ref().and_then(writer_window) } else { rd.as_ref().and_then(reader_window) };
                        if observed.is_some() && field.is_some() && observed != field {
                            sink.monitor_fail("window_probe_vs_field", &format!("probe {:?} but private field {:?}", observed, field));
                        }
                        let want = rfc_src(init_local, dir, send);
                        match (observed, want) {
                            (Some(v), Some((loc, i))) => {
                                let rv = if loc { p.l[i] } else { p.r[i] };
                                sink.branch(&format!("{}:{}:{}:{}", w.name(), inn, dn, side));
                                if v != rv {
                                    sink.monitor_fail(
                                        &format!("window_source:{}:{}:{}", inn, dn, side),
                                        &format!("{} role, {}-initiated {} stream, {} window = {} taken from {} — RFC 9000 §18.2 says {}.{} = {}  (local {:?} remote {:?})",
                                            w.name(), inn, dn, side, v, src_name(p, v), if loc { "local" } else { "remote" }, PN[i], rv, p.l, p.r));
                                }
                                sink.nontrivial();
                                sink.line(&op, &format!("limit={}", v));
                            }
                            (None, None) => sink.line(&op, "none"),
                            (Some(v), None) => { sink.monitor_fail("window_source:unexpected_half", "a stream half exists that RFC 9000 does not define"); sink.line(&op, &format!("limit={}", v)); }
                            (None, Some(_)) => { sink.monitor_fail("window_source:missing_half", "a stream half is missing"); sink.line(&op, "none"); }
                        }
                    }
                }
            }
        }
    }
    sink.note("exhaustive", serde_json::json!(true));
    sink.note("cells", serde_json::json!(cells));
    sink.finish(&o.stats, "EXHAUSTIVE: every (wiring ∈ {client, server, client with remembered 0-RTT parameters}) × initiator × direction × side cell × 4 parameter sets with pairwise-distinct values (one set with zeros); the window is probed on the real DataStreams (sender: largest offset emitted; receiver: largest offset accepted) and cross-checked with the private max_data / max_stream_data field; non-trivial = a cell for which a stream half exists");
}

// =================================================================================================
// C11s
// =================================================================================================

struct SendHalf {
    reset: Option<u64>,  // final size of the RESET_STREAM the endpoint emitted (cancel / STOP_SENDING)
    w: W,
    kind: &'static str, // "local:bi" | "local:uni" | "remote:bi"
    peer_limit: u64,     // what the simulated peer has granted (RFC table + MAX_STREAM_DATA sent)
    hi: u64,             // bytes [0, hi) have been emitted at least once
    written: u64,
    fin_req: bool,
    emitted: Vec<(u64, u64, bool)>,
}

struct RecvHalf {
    r: Option<R>, // `None`: the application dropped the `Reader`
    adv: u64, // limit advertised to the peer (RFC table initial, then MAX_STREAM_DATA frames seen)
    got: Vec<(u64, u64)>,
    fin: Option<u64>,
    stopped: bool,          // the application called `stop()` (STOP_SENDING sent)
    reset: Option<u64>,     // a RESET_STREAM of the peer was accepted (final size)
    returned: u128,         // Σ of the amounts `recv_data` / `recv_stream_control` returned for this stream
    nread: u64,             // bytes the application has read
}

impl RecvHalf {
    fn new(r: R, adv: u64) -> Self {
        RecvHalf { r: Some(r), adv, got: vec![], fin: None, stopped: false, reset: None, returned: 0, nread: 0 }
    }
    /// The state names of RFC 9000 §3.2 plus what the application did: the tag that goes into monitor keys
    /// (only for the states that this extension added, so that the older signatures stay what they were).
    fn app_tag(&self) -> String {
        let mut t = String::new();
        if self.stopped { t.push_str(":stopped"); }
        if self.r.is_none() { t.push_str(":readerdropped"); }
        t
    }
    /// largest end offset of the non-empty frames accepted so far (what RFC 9000 §4.1 counts)
    fn largest(&self) -> u64 {
        self.got.iter().filter(|x| x.1 > x.0).map(|x| x.1).max().unwrap_or(0)
    }
}

impl RecvHalf {
    fn complete(&self) -> bool {
        let Some(f) = self.fin else { return false };
        let mut g = self.got.clone();
        g.sort();
        let mut at = 0;
        for (a, b) in g { if a > at { break; } at = at.max(b); }
        at >= f
    }
}

fn pick_win(rng: &mut Rng) -> u64 {
    match rng.below(12) {
        0 | 1 => 0,
        2 => rng.range(1, 3),
        3..=7 => rng.range(4, 400),
        8 => rng.range(401, 5000),
        9 => 1_000_000 + rng.below(200),
        10 => 2_000_000 + rng.below(200),
        _ => rng.range(999_900, 1_000_100),
    }
}

fn one_case_s(rng: &mut Rng, sink: &mut Sink) {
    // a quarter of the cases: resuming client with REMEMBERED parameters; streams are opened and data is sent
    // under them (0-RTT), then the handshake completes: `revise_params(zero_rtt_rejected, fresh)`
    let zrtt = rng.chance(1, 4);
    let w = if zrtt { Wiring::Client0Rtt } else if rng.chance(1, 2) { Wiring::Client } else { Wiring::Server };
    // six pairwise-distinct-ish values incl. zero
    let mut p = P6 { l: [pick_win(rng), pick_win(rng), pick_win(rng)], r: [pick_win(rng), pick_win(rng), pick_win(rng)] };
    let lmd = match rng.below(6) { 0 => 0, 1 => rng.range(1, 50), 2 | 3 => rng.range(51, 2000), _ => rng.range(2001, 3_000_000) };
    let rmd = match rng.below(6) { 0 => 0, 1 => rng.range(1, 50), 2 | 3 => rng.range(51, 2000), _ => rng.range(2001, 3_000_000) };
    let ms0: [u64; 2] = if zrtt { [rng.range(0, 6), rng.range(0, 6)] } else { [100, 100] };
    let e = if zrtt { endpoint_ms(w, p, lmd, rmd, ms0) } else { endpoint(w, p, lmd, rmd, 100) };
    e.rec.take();
    sink.line(
        &format!("init {} l={},{},{} r={},{},{} lmd={} rmd={}", w.name(), p.l[0], p.l[1], p.l[2], p.r[0], p.r[1], p.r[2], lmd, rmd),
        &format!("ok {}", ctl_tail(&e)),
    );
    if zrtt { sink.line(&format!("zrtt ms={},{}", ms0[0], ms0[1]), "ok"); sink.branch("case:0rtt"); }
    let mut pre_revise = if zrtt { rng.range(2, 16) } else { 0 }; // operations before the handshake completes
    let mut revised = !zrtt;
    let mut order: Vec<u64> = vec![]; // sending halves in the order they were created
    let mut fresh_epoch: u128 = 0;     // fresh bytes emitted since the revision
    let mut ms_cur: [u64; 2] = ms0;    // stream counts the peer currently allows (it knows no local stream beyond them)
    let mut snd: BTreeMap<u64, SendHalf> = BTreeMap::new();
    let mut rcv: BTreeMap<u64, RecvHalf> = BTreeMap::new();
    let mut next_peer = [0u64; 2]; // next peer-initiated index per dir
    let mut conn_limit = rmd;
    let mut fresh_total: u128 = 0;
    let mut conn_adv = lmd;
    let mut conn_rcvd: u128 = 0;
    let (mut saw_retx, mut saw_fresh, mut saw_over, mut saw_blocked) = (false, false, false, false);
    let nops = rng.range(6, 60);
    // after an application action / a boundary event on a receiving half the generator stays on it
    // (half of the cases; the other half keeps the plain mix so that long send-side histories stay frequent)
    let recv_focus = rng.chance(1, 2);
    sink.branch(if recv_focus { "case:recv-focus" } else { "case:plain-mix" });
    let mut focus: Option<(u64, u32)> = None;
    for _ in 0..nops {
        let mut c = rng.below(124);
        if !recv_focus { focus = None; if c >= 100 && rng.chance(1, 2) { c = rng.below(100); } }
        if !revised {
            if pre_revise == 0 {
                // ---- the handshake completes: the peer's real parameters replace the remembered ones ------------
                let rej = rng.chance(2, 3);
                let vary = |rng: &mut Rng, v: u64| match rng.below(4) { 0 => v, 1 => v.saturating_sub(rng.range(1, 1 + v.min(500))), 2 => v / 2, _ => v + rng.range(1, 600) };
                let fr: [u64; 3] = [vary(rng, p.r[0]), vary(rng, p.r[1]), vary(rng, p.r[2])];
                let rmd2 = vary(rng, conn_limit);
                let ms2: [u64; 2] = [match rng.below(3) { 0 => ms0[0], 1 => rng.below(ms0[0] + 1), _ => ms0[0] + rng.range(1, 4) }, match rng.below(3) { 0 => ms0[1], 1 => rng.below(ms0[1] + 1), _ => ms0[1] + rng.range(1, 4) }];
                let op = format!("revise {} r={},{},{} rmd={} ms={},{}", if rej { 1 } else { 0 }, fr[0], fr[1], fr[2], rmd2, ms2[0], ms2[1]);
                sink.pending(&op);
                let r = catch(|| revise(&e, rej, P6 { l: p.l, r: fr }, lmd, rmd2, ms2));
                if r.is_err() { sink.line(&op, "PANIC"); sink.monitor_fail("panic:revise", "revise_params / revise_max_data panicked"); return; }
                // monitors' view (RFC 9000 §7.4.1): after a rejection ONLY the fresh values count, everything sent
                // before is void; after an accepted 0-RTT the fresh values may only raise the remembered ones
                for h in snd.values_mut() {
                    let f = if h.kind == "local:bi" { fr[1] } else { fr[2] };
                    if rej { h.peer_limit = f; h.hi = 0; h.emitted.clear(); } else { h.peer_limit = h.peer_limit.max(f); }
                }
                if rej { conn_limit = rmd2; fresh_epoch = 0; ms_cur = ms2; } else { conn_limit = conn_limit.max(rmd2); ms_cur = [ms_cur[0].max(ms2[0]), ms_cur[1].max(ms2[1])]; }
                sink.branch(if rej { "revise:rejected" } else { "revise:accepted" });
                for i in 1..3 { sink.branch(&format!("revise:win:{}", if fr[i] < p.r[i] { "lower" } else if fr[i] == p.r[i] { "equal" } else { "higher" })); }
                for i in 0..2 { sink.branch(&format!("revise:streams:{}", if ms2[i] < ms0[i] { "lower" } else if ms2[i] == ms0[i] { "equal" } else { "higher" })); }
                p.r = fr;
                let wins: Vec<String> = order.iter().map(|s| format!("{}:{}", s, snd.get(s).and_then(|h| writer_window(&h.w)).map(|v| v.to_string()).unwrap_or("-".into()))).collect();
                sink.line(&op, &format!("ok {} wins={}", ctl_tail(&e), if wins.is_empty() { "-".to_string() } else { wins.join(",") }));
                revised = true;
                continue;
            }
            pre_revise -= 1;
            // before the handshake completes nothing arrives from the server: open / write / assemble only
            c = match rng.below(10) { 0..=2 => rng.below(8), 3..=5 => 14 + rng.below(14), _ => 31 + rng.below(27) };
        } else if zrtt && rng.chance(1, 10) {
            // ---- MAX_STREAMS from the peer -------------------------------------------------------------------
            let uni = rng.chance(1, 2);
            let v = rng.below(9);
            let fr = if uni { MaxStreamsFrame::Uni(vi(v)) } else { MaxStreamsFrame::Bi(vi(v)) };
            let r = e.ds.recv_stream_control(StreamCtlFrame::MaxStreams(fr));
            e.rec.take();
            ms_cur[uni as usize] = ms_cur[uni as usize].max(v);
            sink.line(&format!("maxstreams {} {}", if uni { "uni" } else { "bi" }, v), if r.is_ok() { "ok" } else { "err" });
            continue;
        }
        if let Some((_, left)) = focus.as_mut() {
            if *left == 0 { focus = None; } else { *left -= 1; if rng.chance(3, 5) { c = 80 + rng.below(13); } }
        }
        if c < 8 {
            // ---- open a local stream -------------------------------------------------------------
            let bi = rng.chance(1, 2);
            if bi {
                let Some((sid, r, wr)) = e.open_bi() else { e.rec.take(); /* STREAMS_BLOCKED is C12's */ sink.line("open bi", "none"); continue };
                let s = u64::from(sid);
                let (sw, rw) = (writer_window(&wr).unwrap_or(u64::MAX), reader_window(&r).unwrap_or(u64::MAX));
                sink.line("open bi", &format!("sid={} swin={} rwin={}", s, sw, rw));
                order.push(s);
                snd.insert(s, SendHalf { reset: None, w: wr, kind: "local:bi", peer_limit: p.r[1], hi: 0, written: 0, fin_req: false, emitted: vec![] });
                rcv.insert(s, RecvHalf::new(r, p.l[0]));
            } else {
                let Some((sid, wr)) = e.open_uni() else { e.rec.take(); sink.line("open uni", "none"); continue };
                let s = u64::from(sid);
                let sw = writer_window(&wr).unwrap_or(u64::MAX);
                sink.line("open uni", &format!("sid={} swin={}", s, sw));
                order.push(s);
                snd.insert(s, SendHalf { reset: None, w: wr, kind: "local:uni", peer_limit: p.r[2], hi: 0, written: 0, fin_req: false, emitted: vec![] });
            }
        } else if c < 14 {
            // ---- the peer opens a stream (first, empty frame) and the application accepts it ----------
            let bi = rng.chance(1, 2);
            let dir = if bi { Dir::Bi } else { Dir::Uni };
            let sid = StreamId::new(e.peer_role(), dir, next_peer[dir as usize]);
            let s = u64::from(sid);
            let op = format!("peeropen {} {}", if bi { "bi" } else { "uni" }, s);
            match e.rx(sid, 0, 0, false) {
                Ok((0, Ok(0))) => {}
                other => { sink.line(&op, &format!("err {:?}", other)); sink.monitor_fail("peeropen_failed", &format!("{:?}", other)); return; }
            }
            let fr = e.rec.take();
            for f in &fr { if let Some(v) = f.strip_prefix("MD:") { let v: u64 = v.parse().unwrap(); if v < conn_adv { sink.monitor_fail("advertised_max_data_decreased", &format!("{} < {}", v, conn_adv)); } conn_adv = conn_adv.max(v); } }
            next_peer[dir as usize] += 1;
            if bi {
                let (s2, r, wr) = e.accept_bi().expect("accept_bi");
                assert_eq!(u64::from(s2), s);
                let (sw, rw) = (writer_window(&wr).unwrap_or(u64::MAX), reader_window(&r).unwrap_or(u64::MAX));
                sink.line(&op, &format!("sid={} swin={} rwin={}{}", s, sw, rw, frames_tok(&fr)));
                order.push(s);
                snd.insert(s, SendHalf { reset: None, w: wr, kind: "remote:bi", peer_limit: p.r[0], hi: 0, written: 0, fin_req: false, emitted: vec![] });
                rcv.insert(s, RecvHalf::new(r, p.l[1]));
            } else {
                let (s2, r) = e.accept_uni().expect("accept_uni");
                assert_eq!(u64::from(s2), s);
                let rw = reader_window(&r).unwrap_or(u64::MAX);
                sink.line(&op, &format!("sid={} rwin={}{}", s, rw, frames_tok(&fr)));
                rcv.insert(s, RecvHalf::new(r, p.l[2]));
            }
        } else if c < 28 {
            // ---- write ---------------------------------------------------------------------------------
            if snd.is_empty() { continue; }
            let s = *rng.pick(&snd.keys().copied().collect::<Vec<_>>());
            let h = snd.get_mut(&s).unwrap();
            let room = h.peer_limit.saturating_sub(h.written);
            let n = match rng.below(6) { 0 => room, 1 => room + rng.range(1, 30), 2 => rng.range(1, 20), 3 => rng.below(room.min(3000) + 1), _ => rng.range(1, 600) }.min(6000);
            let op = format!("write {} {}", s, n);
            match h.w.write(Bytes::from(vec![0u8; n as usize])) {
                Ok(()) => { h.written += n; sink.line(&op, "ok"); }
                Err(_) => sink.line(&op, "err"),
            }
        } else if c < 31 {
            // ---- shutdown (FIN requested) ---------------------------------------------------------------
            if snd.is_empty() { continue; }
            let s = *rng.pick(&snd.keys().copied().collect::<Vec<_>>());
            let h = snd.get_mut(&s).unwrap();
            let r = h.w.poll_shutdown(&mut cx());
            h.fin_req = true;
            sink.line(&format!("fin {}", s), match r { Poll::Pending => "pending", Poll::Ready(Ok(())) => "done", Poll::Ready(Err(_)) => "err" });
        } else if c < 58 {
            // ---- assemble one STREAM frame -----------------------------------------------------------------
            let cap = match rng.below(8) { 0 => rng.range(0, 30), 1 => rng.range(25, 60), 2 => 1200, 3 => 65_000, _ => rng.range(30, 1500) } as usize;
            let op = format!("load {}", cap);
            sink.pending(&op);
            let mut pkt = Pkt::new(cap);
            let mut pk = (*e.ds).package(e.fc.clone(), false);
            let r = catch(|| pk.dump(&mut pkt));
            let fr = e.rec.take();
            match r {
                Err(_) => { sink.line(&op, "PANIC"); sink.monitor_fail("panic:load", "packet assembly panicked"); return; }
                Ok(Err(sig)) => {
                    if !pkt.frames.is_empty() { sink.monitor_fail("load_err_with_frame", "Err but a frame was written"); }
                    if sig.contains(qbase::net::tx::Signals::FLOW_CONTROL) { saw_blocked = true; sink.branch("load:blocked"); } else { sink.branch("load:none"); }
                    sink.line(&op, &format!("none{} {}", frames_tok(&fr), ctl_tail(&e)));
                }
                Ok(Ok(_)) => {
                    if pkt.frames.len() != 1 { sink.monitor_fail("load_frames", &format!("{} frames in one dump", pkt.frames.len())); }
                    let (s, a, b, fin) = pkt.frames[0];
                    sink.line(&op, &format!("frame={}:{}..{}:{}{} {}", s, a, b, if fin { 1 } else { 0 }, frames_tok(&fr), ctl_tail(&e)));
                    if let Some(h) = snd.get_mut(&s) {
                        if let Some(f) = h.reset {
                            sink.monitor_fail("frame_after_reset", &format!("stream {}: STREAM frame {}..{} emitted after RESET_STREAM(final_size={})", s, a, b, f));
                        }
                        // monitor: stream limit in force
                        if b > h.peer_limit {
                            sink.monitor_fail(&format!("stream_limit_exceeded:{}", h.kind), &format!("{} stream {}: emitted ..{} but the peer's limit is {} (remote params {:?})", h.kind, s, b, h.peer_limit, p.r));
                        }
                        let newb = b.saturating_sub(a.max(h.hi));
                        if newb > 0 { saw_fresh = true; sink.branch("load:fresh"); } else if b > a { saw_retx = true; sink.branch("load:retransmit"); } else { sink.branch("load:empty-fin"); }
                        fresh_total += newb as u128;
                        fresh_epoch += newb as u128;
                        h.hi = h.hi.max(b);
                        h.emitted.push((a, b, fin));
                    } else {
                        sink.monitor_fail("frame_on_unknown_stream", &format!("{}", s));
                    }
                }
            }
            // monitors: connection limit, each byte charged exactly once
            if fresh_epoch > conn_limit as u128 {
                sink.monitor_fail("conn_limit_exceeded", &format!("{} fresh bytes emitted (since the parameters in force were received) against a connection limit of {}", fresh_epoch, conn_limit));
            }
            if let Some((sent, _, _)) = send_state(&e.fc) {
                if sent as u128 != fresh_total {
                    sink.monitor_fail(if (sent as u128) > fresh_total { "conn_overcharged" } else { "conn_undercharged" },
                        &format!("sent_data={} but {} distinct new bytes were emitted (retransmissions must be free, unused credit returned)", sent, fresh_total));
                }
            }
        } else if c < 66 {
            // ---- MAX_STREAM_DATA from the peer ------------------------------------------------------------
            if snd.is_empty() { continue; }
            let s = *rng.pick(&snd.keys().copied().collect::<Vec<_>>());
            if !peer_knows(s, &ms_cur) { continue; }
            let h = snd.get_mut(&s).unwrap();
            let m = match rng.below(5) { 0 => h.peer_limit, 1 => h.peer_limit.saturating_sub(rng.range(1, 50)), 2 => h.peer_limit + rng.range(1, 20), 3 => h.written + rng.below(40), _ => h.peer_limit + rng.range(1, 3000) }.min(VMAX);
            let sid = StreamId::from(vi(s));
            let r = e.ds.recv_frame(StreamCtlFrame::MaxStreamData(MaxStreamDataFrame::new(sid, vi(m))));
            h.peer_limit = h.peer_limit.max(m);
            sink.line(&format!("msd {} {}", s, m), &match r { Ok(_) => format!("ok win={}", writer_window(&h.w).map(|v| v.to_string()).unwrap_or("-".into())), Err(er) => format!("err={:?}", er.kind()) });
        } else if c < 71 {
            // ---- MAX_DATA from the peer ---------------------------------------------------------------------
            let m = match rng.below(4) { 0 => conn_limit, 1 => conn_limit.saturating_sub(rng.range(1, 100)), 2 => conn_limit + rng.range(1, 50), _ => conn_limit + rng.range(1, 5000) }.min(VMAX);
            e.fc.recv_frame(MaxDataFrame::new(vi(m))).unwrap();
            conn_limit = conn_limit.max(m);
            sink.line(&format!("md {}", m), &format!("ok {}", ctl_tail(&e)));
        } else if c < 80 {
            // ---- ack / loss of (part of) an emitted frame -------------------------------------------------
            let cands: Vec<u64> = snd.iter().filter(|(_, h)| !h.emitted.is_empty()).map(|(s, _)| *s).collect();
            if cands.is_empty() { continue; }
            let s = *rng.pick(&cands);
            let h = snd.get_mut(&s).unwrap();
            let (a, b, fin) = *rng.pick(&h.emitted);
            let (a2, b2) = if b > a && rng.chance(1, 3) { let x = rng.range(a, b - 1); (x, rng.range(x + 1, b)) } else { (a, b) };
            let fin2 = fin && b2 == b;
            let mut f = StreamFrame::new(StreamId::from(vi(s)), a2, (b2 - a2) as usize);
            f.set_eos_flag(fin2);
            let lose = rng.chance(1, 2);
            let op = format!("{} {} {} {} {}", if lose { "lose" } else { "ack" }, s, a2, b2, if fin2 { 1 } else { 0 });
            let r = catch(|| if lose { e.ds.may_loss_data(&f) } else { e.ds.on_data_acked(f) });
            match r { Ok(()) => sink.line(&op, "ok"), Err(_) => { sink.line(&op, "PANIC"); return; } }
        } else if c < 93 {
            // ---- STREAM frame from the peer ---------------------------------------------------------------
            if rcv.is_empty() { continue; }
            let live: Vec<u64> = rcv.iter().filter(|(_, h)| h.reset.is_none() && !h.complete()).map(|(s, _)| *s).collect();
            let s = match focus {
                Some((f, _)) if rcv.contains_key(&f) && rng.chance(4, 5) => f,
                _ if !live.is_empty() && rng.chance(5, 6) => *rng.pick(&live),
                _ => *rng.pick(&rcv.keys().copied().collect::<Vec<_>>()),
            };
            if !peer_knows(s, &ms_cur) { continue; }
            let focused = matches!(focus, Some((f, _)) if f == s);
            let h = rcv.get_mut(&s).unwrap();
            let top = h.got.iter().map(|x| x.1).max().unwrap_or(0);
            let (off, len) = match if focused && rng.chance(1, 2) { 10 + rng.below(4) } else { rng.below(10) } {
                10 => { let l = rng.range(1, 60).min(h.adv.max(1)); (h.adv.saturating_sub(l), l) }                // ends exactly at the limit
                11 => { let l = rng.range(1, 60); ((h.adv + 1).saturating_sub(l), l) }                            // limit + 1
                12 => { let l = rng.range(1, 60).min(h.adv.saturating_sub(1).max(1)); (h.adv.saturating_sub(1).saturating_sub(l), l) } // limit - 1
                13 => (h.adv + rng.range(1, 3000), rng.range(0, 40)),                                             // far beyond
                0 | 1 | 2 => (top, rng.range(0, 200)),                                   // in order
                3 => (rng.below(top + 1), rng.range(0, 120)),                            // overlap / duplicate
                4 => { let l = rng.range(0, 100); (h.adv.saturating_sub(l), l) }         // ends exactly at the limit
                5 => { let l = rng.range(1, 100); ((h.adv + 1).saturating_sub(l), l) }   // one byte over
                6 => (h.adv + rng.range(0, 5000), rng.range(0, 50)),                     // far over
                7 => (top + rng.range(1, 300), rng.range(1, 100)),                       // gap
                _ => (top, rng.range(1, 60)),
            };
            let off = off.min(VMAX - 70_000);
            let fin = if focused { rng.chance(1, 3) } else { rng.chance(1, 5) };
            let end = off + len;
            let op = format!("rx {} {} {} {}", s, off, len, if fin { 1 } else { 0 });
            // terminal for the peer's frames: all data received, or a RESET_STREAM accepted (RFC 9000 §3.2)
            let was_complete = h.complete() || h.reset.is_some();
            let tag = h.app_tag();
            if !was_complete { sink.branch(&format!("rx:state:{}{}{}", if had_fin_of(h) { "sizeknown" } else { "recv" }, if h.nread > 0 { ":read" } else { "" }, tag)); }
            let had_fin = h.fin.is_some();
            let over_stream = end > h.adv;
            let res = e.rx(StreamId::from(vi(s)), off, len as usize, fin);
            let fr = e.rec.take();
            for f in &fr {
                if let Some(rest) = f.strip_prefix("MSD:") {
                    let mut it = rest.split(':');
                    let fs: u64 = it.next().unwrap().parse().unwrap();
                    let v: u64 = it.next().unwrap().parse().unwrap();
                    if let Some(hh) = rcv.get_mut(&fs) { if v < hh.adv { sink.monitor_fail("advertised_max_stream_data_decreased", &format!("{} < {}", v, hh.adv)); } hh.adv = hh.adv.max(v); }
                }
            }
            let h = rcv.get_mut(&s).unwrap();
            match res {
                Err(k) => {
                    sink.branch(&format!("rx:err:{:?}", k));
                    if over_stream { saw_over = true; if !was_complete { sink.branch(&format!("rx:over-limit-refused{}", tag)); } }
                    // the other direction: data within the limit the endpoint has advertised must not be refused with a
                    // flow-control error (that would be a limit silently lower than the advertised one)
                    if k == ErrorKind::FlowControl && !over_stream && !was_complete {
                        sink.monitor_fail(&format!("stream_within_limit_rejected{}", tag), &format!("stream {}: frame offset {} len {} ends at {} within the advertised stream limit {} but was refused with FLOW_CONTROL_ERROR", s, off, len, end, h.adv));
                    }
                    sink.line(&op, &format!("err={:?}{}", k, frames_tok(&fr)));
                    return; // the connection is closed
                }
                Ok((fresh, conn)) => {
                    let mut late: Vec<(String, String)> = vec![];
                    if over_stream && !was_complete {
                        saw_over = true;
                        let key = format!("{}{}", if fin { "stream_over_limit_accepted:fin" } else if had_fin { "stream_over_limit_accepted:sizeknown" } else { "stream_over_limit_accepted:data" }, tag);
                        late.push((key, format!("stream {}: frame offset {} len {} fin {} ends at {} beyond the advertised stream limit {} but was accepted (fresh={})", s, off, len, fin, end, h.adv, fresh)));
                    }
                    if !was_complete {
                        h.got.push((off, end));
                        if fin && h.fin.is_none() { h.fin = Some(end); }
                        // connection-level accounting of this stream (RFC 9000 §4.1: the sum of the largest offsets):
                        // what the stream handed to the connection controller so far must be its largest offset —
                        // before and after `stop()` / reader drop / reads alike
                        h.returned += fresh as u128;
                        let want = h.largest() as u128;
                        if h.returned != want {
                            late.push((format!("stream_{}charged{}", if h.returned > want { "over" } else { "under" }, tag),
                                format!("stream {}: {} bytes handed to the connection-level controller but the largest offset received is {}", s, h.returned, want)));
                        }
                    } else if fresh != 0 {
                        late.push(("terminal_stream_charged".to_string(), format!("stream {} is in a terminal state but {} fresh bytes were reported", s, fresh)));
                    }
                    if fin || end + 1 >= h.adv { focus = Some((s, 4)); }
                    conn_rcvd += fresh as u128;
                    let over_conn = conn_rcvd > conn_adv as u128;
                    for f in &fr { if let Some(v) = f.strip_prefix("MD:") { let v: u64 = v.parse().unwrap(); if v < conn_adv { sink.monitor_fail("advertised_max_data_decreased", &format!("{} < {}", v, conn_adv)); } conn_adv = conn_adv.max(v); } }
                    match conn {
                        Ok(_) => {
                            sink.branch("rx:ok");
                            if over_conn { sink.monitor_fail("conn_over_limit_accepted", &format!("{} fresh bytes in total against the advertised connection limit", conn_rcvd)); }
                            sink.line(&op, &format!("fresh={} conn=ok{} {}", fresh, frames_tok(&fr), rc_tail(&e)));
                            for (k, w) in late { sink.monitor_fail(&k, &w); }
                        }
                        Err(k) => {
                            sink.branch(&format!("rx:conn:{:?}", k));
                            if !over_conn { sink.monitor_fail("conn_within_limit_rejected", "connection-level FlowControl although within the advertised limit"); }
                            sink.line(&op, &format!("fresh={} conn={:?}{} {}", fresh, k, frames_tok(&fr), rc_tail(&e)));
                            for (k, w) in late { sink.monitor_fail(&k, &w); }
                            return;
                        }
                    }
                }
            }
        } else if c >= 100 {
            if new_ops(c, rng, sink, &e, &mut snd, &mut rcv, &mut focus, &mut conn_rcvd, &mut conn_adv, &ms_cur) { return; }
        } else {
            // ---- application read ---------------------------------------------------------------------------
            if rcv.is_empty() { continue; }
            let s = *rng.pick(&rcv.keys().copied().collect::<Vec<_>>());
            let h = rcv.get_mut(&s).unwrap();
            let cap = match rng.below(4) { 0 => rng.range(0, 3), 1 => 100_000, _ => rng.range(1, 300) } as usize;
            let mut dst = crate::registry::c11s::Lim(BytesMut::new(), cap);
            let Some(rd) = h.r.as_mut() else { continue };
            // `poll_read` (AsyncRead) or `poll_next` (Stream): two copies of the MAX_STREAM_DATA code
            let use_next = rng.chance(1, 3);
            let (r, got): (Poll<Result<(), ()>>, usize) = if use_next {
                match Pin::new(rd).poll_next(&mut cx()) {
                    Poll::Pending => (Poll::Pending, 0),
                    Poll::Ready(None) => (Poll::Ready(Ok(())), 0),
                    Poll::Ready(Some(Ok(b))) => (Poll::Ready(Ok(())), b.len()),
                    Poll::Ready(Some(Err(_))) => (Poll::Ready(Err(())), 0),
                }
            } else {
                let r = rd.poll_read(&mut cx(), &mut dst);
                (r.map(|x| x.map_err(|_| ())), dst.0.len())
            };
            sink.branch(if use_next { "read:poll_next" } else { "read:poll_read" });
            h.nread += got as u64;
            if rng.chance(1, 3) { focus = Some((s, 3)); }
            let fr = e.rec.take();
            for f in &fr {
                if let Some(rest) = f.strip_prefix("MSD:") {
                    let v: u64 = rest.split(':').nth(1).unwrap().parse().unwrap();
                    if v < h.adv { sink.monitor_fail("advertised_max_stream_data_decreased", &format!("{} < {}", v, h.adv)); }
                    h.adv = h.adv.max(v);
                }
            }
            let op = if use_next { format!("next {}", s) } else { format!("read {} {}", s, cap) };
            match r {
                Poll::Pending => sink.line(&op, &format!("pending{}", frames_tok(&fr))),
                Poll::Ready(Ok(())) => sink.line(&op, &format!("n={}{}", got, frames_tok(&fr))),
                Poll::Ready(Err(_)) => sink.line(&op, &format!("err{}", frames_tok(&fr))),
            }
        }
    }
    if saw_fresh && (saw_retx || saw_blocked) { sink.nontrivial(); }
    if saw_over { sink.branch("case:over-limit-input"); }
}

/// Does the peer know stream `s`?  After a rejected 0-RTT the server has seen none of the early streams: it can
/// refer to a client-opened stream only within the stream count it allows (frames for others are a
/// STREAM_STATE_ERROR — C12's subject).  Only 0-RTT cases have counts that small.
fn peer_knows(s: u64, ms: &[u64; 2]) -> bool {
    ms[0] >= 100 || s % 2 != 0 || s / 4 < ms[((s / 2) % 2) as usize]
}

fn had_fin_of(h: &RecvHalf) -> bool {
    h.fin.is_some()
}

/// The operations added for the whole receiver / sender state machines (`c` in 100..124): `stop`, `dropreader`,
/// `reset` (RESET_STREAM from the peer), `cancel`, `stopsending` (STOP_SENDING from the peer), `rstack`.
/// Returns `true` when the connection is closed (the case ends).
#[allow(clippy::too_many_arguments)]
fn new_ops(
    c: u64, rng: &mut Rng, sink: &mut Sink, e: &Endpoint, snd: &mut BTreeMap<u64, SendHalf>, rcv: &mut BTreeMap<u64, RecvHalf>,
    focus: &mut Option<(u64, u32)>, conn_rcvd: &mut u128, conn_adv: &mut u64, ms_cur: &[u64; 2],
) -> bool {
    if c < 109 {
        // ---- the application gives a receiving half up: stop(code) / drops the Reader ----------------------
        let cands: Vec<u64> = rcv.iter().filter(|(_, h)| h.r.is_some()).map(|(s, _)| *s).collect();
        if cands.is_empty() { return false; }
        let s = match *focus { Some((f, _)) if cands.contains(&f) && rng.chance(1, 2) => f, _ => *rng.pick(&cands) };
        let h = rcv.get_mut(&s).unwrap();
        if c < 106 {
            let code = rng.below(1000);
            h.r.as_mut().unwrap().stop(code);
            let fr = e.rec.take();
            h.stopped = true;
            sink.branch(if fr.is_empty() { "stop:noop" } else { "stop:sent" });
            sink.line(&format!("stop {} {}", s, code), &format!("ok{}", frames_tok(&fr)));
        } else {
            h.r = None;
            let fr = e.rec.take();
            sink.branch("dropreader");
            sink.line(&format!("dropreader {}", s), &format!("ok{}", frames_tok(&fr)));
        }
        *focus = Some((s, 6));
        false
    } else if c < 115 {
        // ---- RESET_STREAM from the peer ------------------------------------------------------------------------
        if rcv.is_empty() { return false; }
        let s = match *focus { Some((f, _)) if rcv.contains_key(&f) && rng.chance(1, 2) => f, _ => *rng.pick(&rcv.keys().copied().collect::<Vec<_>>()) };
        if !peer_knows(s, ms_cur) { return false; }
        let h = rcv.get_mut(&s).unwrap();
        let top = h.got.iter().map(|x| x.1).max().unwrap_or(0);
        let fin_ = match rng.below(9) {
            0 => top,
            1 => top.saturating_sub(1),
            2 => h.adv,
            3 => h.adv + 1,
            4 => h.adv.saturating_sub(1),
            5 => h.adv + rng.range(1, 5000),
            6 => h.fin.unwrap_or(top),
            _ => top + rng.range(0, 100),
        }.min(VMAX);
        let sid = StreamId::from(vi(s));
        let frame = StreamCtlFrame::ResetStream(ResetStreamFrame::new(sid, vi(rng.below(1000)), vi(fin_)));
        let ft = frame.frame_type();
        let op = format!("reset {} {}", s, fin_);
        let terminal = h.complete() || h.reset.is_some();
        let tag = h.app_tag();
        let res = e.ds.recv_stream_control(frame).map_err(|er| er.kind());
        match res {
            Err(k) => {
                let fr = e.rec.take();
                if format!("{:?}", k) == "FlowControl" && fin_ <= h.adv {
                    sink.monitor_fail("reset_within_limit_rejected", &format!("stream {}{}: RESET_STREAM with final size {} within the advertised stream limit {} answered with FLOW_CONTROL_ERROR", s, tag, fin_, h.adv));
                }
                sink.branch(&format!("reset:err:{:?}", k));
                sink.line(&op, &format!("err={:?}{}", k, frames_tok(&fr)));
                true
            }
            Ok(sync) => {
                let conn = e.rc.on_new_rcvd(ft, sync).map_err(|er| er.kind());
                let fr = e.rec.take();
                let mut late: Vec<(String, String)> = vec![];
                if !terminal {
                    sink.branch(&format!("reset:accepted:{}{}", if h.fin.is_some() { "sizeknown" } else { "recv" }, tag));
                    if fin_ > h.adv {
                        late.push(("reset_over_limit_accepted".to_string(), format!("stream {}{}: RESET_STREAM with final size {} beyond the advertised stream limit {} was accepted (RFC 9000 §4.5: the final size counts against flow control; §4.1: FLOW_CONTROL_ERROR), sync={}", s, tag, fin_, h.adv, sync)));
                    }
                    h.reset = Some(fin_);
                    h.returned += sync as u128;
                    let empty_beyond = h.got.iter().filter(|x| x.1 == x.0).map(|x| x.1).max().unwrap_or(0) > h.largest();
                    if empty_beyond { sink.branch("reset:after-empty-frame-beyond-data"); }
                    if h.returned < fin_ as u128 && !empty_beyond {
                        late.push((format!("stream_undercharged:reset{}", tag), format!("stream {}: final size {} but only {} bytes handed to the connection-level controller (RFC 9000 §4.5: the final size accounts for all bytes of the stream)", s, fin_, h.returned)));
                    }
                    if h.returned > fin_ as u128 {
                        late.push((format!("stream_overcharged:reset{}", tag), format!("stream {}: {} bytes handed to the connection-level controller for a stream whose final size is {}", s, h.returned, fin_)));
                    }
                } else {
                    sink.branch("reset:terminal");
                    if sync != 0 { late.push(("terminal_stream_charged".to_string(), format!("stream {} is in a terminal state but RESET_STREAM reported {} bytes", s, sync))); }
                }
                *conn_rcvd += sync as u128;
                let over_conn = *conn_rcvd > *conn_adv as u128;
                for f in &fr { if let Some(v) = f.strip_prefix("MD:") { let v: u64 = v.parse().unwrap(); if v < *conn_adv { sink.monitor_fail("advertised_max_data_decreased", &format!("{} < {}", v, *conn_adv)); } *conn_adv = (*conn_adv).max(v); } }
                match conn {
                    Ok(_) => {
                        if over_conn { sink.monitor_fail("conn_over_limit_accepted", &format!("{} bytes in total against the advertised connection limit (after RESET_STREAM)", *conn_rcvd)); }
                        sink.line(&op, &format!("sync={} conn=ok{} {}", sync, frames_tok(&fr), rc_tail(e)));
                        for (k, w) in late { sink.monitor_fail(&k, &w); }
                        false
                    }
                    Err(k) => {
                        if !over_conn { sink.monitor_fail("conn_within_limit_rejected", "connection-level FlowControl although within the advertised limit"); }
                        sink.line(&op, &format!("sync={} conn={:?}{} {}", sync, k, frames_tok(&fr), rc_tail(e)));
                        for (k, w) in late { sink.monitor_fail(&k, &w); }
                        true
                    }
                }
            }
        }
    } else if c < 121 {
        // ---- the sending half is reset: Writer::cancel / STOP_SENDING from the peer -------------------------------
        if snd.is_empty() { return false; }
        let s = *rng.pick(&snd.keys().copied().collect::<Vec<_>>());
        let h = snd.get_mut(&s).unwrap();
        let code = rng.below(1000);
        let cancel = c < 118;
        if !cancel && !peer_knows(s, ms_cur) { return false; }
        let op = format!("{} {}", if cancel { "cancel" } else { "stopsending" }, s);
        let res = if cancel { h.w.cancel(code); Ok(0) } else {
            e.ds.recv_stream_control(StreamCtlFrame::StopSending(StopSendingFrame::new(StreamId::from(vi(s)), vi(code)))).map_err(|er| er.kind())
        };
        let fr = e.rec.take();
        if let Err(k) = res { sink.line(&op, &format!("err={:?}{}", k, frames_tok(&fr))); return true; }
        let pre = format!("RST:{}:", s);
        if let Some(f) = fr.iter().find_map(|x| x.strip_prefix(&pre).map(|v| v.parse::<u64>().unwrap())) {
            sink.branch(&format!("{}:reset-sent", if cancel { "cancel" } else { "stopsending" }));
            if h.reset.is_some() { sink.monitor_fail("reset_stream_twice", &format!("stream {}: a second RESET_STREAM", s)); }
            // RFC 9000 §4.5: the final size is the amount of flow control credit consumed = every byte emitted once
            if f != h.hi { sink.monitor_fail("reset_final_size_mismatch", &format!("stream {}: RESET_STREAM final size {} but the highest offset emitted (and charged to the connection) is {}", s, f, h.hi)); }
            if f > h.peer_limit { sink.monitor_fail(&format!("stream_limit_exceeded:reset:{}", h.kind), &format!("stream {}: RESET_STREAM final size {} beyond the peer's limit {}", s, f, h.peer_limit)); }
            h.reset = Some(f);
        } else {
            sink.branch(&format!("{}:noop", if cancel { "cancel" } else { "stopsending" }));
        }
        sink.line(&op, &format!("ok{}", frames_tok(&fr)));
        false
    } else {
        // ---- the RESET_STREAM is acknowledged ---------------------------------------------------------------------
        let cands: Vec<(u64, u64)> = snd.iter().filter_map(|(s, h)| h.reset.map(|f| (*s, f))).collect();
        if cands.is_empty() { return false; }
        let (s, f) = *rng.pick(&cands);
        let r = catch(|| e.ds.on_reset_acked(ResetStreamFrame::new(StreamId::from(vi(s)), vi(0), vi(f))));
        match r { Ok(()) => { sink.line(&format!("rstack {}", s), "ok"); false } Err(_) => { sink.line(&format!("rstack {}", s), "PANIC"); true } }
    }
}

pub struct Lim(pub BytesMut, pub usize);
unsafe impl BufMut for Lim {
    fn remaining_mut(&self) -> usize { self.1 }
    unsafe fn advance_mut(&mut self, cnt: usize) { unsafe { self.0.advance_mut(cnt) }; self.1 -= cnt; }
    fn chunk_mut(&mut self) -> &mut bytes::buf::UninitSlice {
        if self.0.capacity() == self.0.len() { self.0.reserve(64); }
        let n = self.1;
        let c = self.0.chunk_mut();
        let l = c.len().min(n);
        &mut c[..l]
    }
}

fn frames_tok(fr: &[String]) -> String {
    if fr.is_empty() { String::new() } else { format!(" frames={}", fr.join(",")) }
}

fn ctl_tail(e: &Endpoint) -> String {
    match send_state(&e.fc) {
        Some((s, m, l)) => format!("sent={} max={} lim={}", s, m, if l { 1 } else { 0 }),
        None => "closed".into(),
    }
}

fn rc_tail(e: &Endpoint) -> String {
    let d = format!("{:?}", e.rc);
    format!("rcvd={} max={}", dbg_field(&d, "rcvd_data").unwrap_or(u64::MAX), dbg_field(&d, "max_data").unwrap_or(u64::MAX))
}

pub fn run_s(o: &Opts) {
    let mut sink = Sink::new_with_stats(&o.out, &o.stats);
    for i in 0..o.cases {
        if let Some(k) = o.only_case { if k != i { continue; } }
        let mut rng = Rng::new(o.seed, i);
        sink.case(&format!("{}", i));
        one_case_s(&mut rng, &mut sink);
    }
    sink.finish(&o.stats, "random histories on one real DataStreams endpoint (client or server role, six random initial windows incl. 0 and values around the 1,000,000-byte MAX_STREAM_DATA threshold): open/accept of all four stream kinds, write, shutdown, one-frame packet assembly with random capacity, MAX_STREAM_DATA, MAX_DATA, partial acks and losses of emitted frames, peer STREAM frames in order / overlapping / at, one under, one over and far over the limit with and without FIN, reads, Reader::stop / Reader dropped / RESET_STREAM from the peer (final size at, around and beyond the limit) followed by boundary frames on the same stream, Writer::cancel / STOP_SENDING from the peer / ack of the RESET_STREAM; non-trivial = fresh data was emitted and a retransmission or a flow-control block occurred; distinct by hash of the case transcript");
}

pub const RUNS: &[(&str, fn(&Opts))] = &[("C11w", run_w), ("C11s", run_s)];
