//! C03: decoders of untrusted bytes driven on the REAL code, outcome class compared with the Lean model
//! (`Ok(value, consumed) | Err(kind) | PANIC`, hang = watchdog), plus monitors that never consult the model.
//!
//! Runs:
//!  * `C03pkt`  `qbase::packet::io::be_packet` (buffer before/after) and the `PacketReader` iterator on
//!              datagrams built from the repo's own header writers (every packet type x dcid length 0..=20,
//!              coalesced), their truncations / byte / bit mutations / boundary overwrites, and random bytes.
//!  * `C03mux`  the pre-QUIC demultiplexer of `qtraversal/src/route.rs` (`qtraversal::packet::be_header`,
//!              `StunHeader::encoding_size`, `ForwardHeader::encoding_size`) followed by `PacketReader::new(_, 8)`.
//!  * `C03frm`  the `FrameReader` loop as `read_plain_packet` runs it (stop at the first error, error mapped
//!              to `QuicError` by the real `From`), on payloads made of C05-generated frames + mutations.
//!  * `C03x`    exhaustive inputs of length <= 2 (quick) / <= 3 (thorough) for every entry point.
use bytes::{Bytes, BytesMut};
use qbase::{
    cid::ConnectionId,
    error::QuicError,
    frame::{FrameReader, GetFrameType},
    net::addr::EndpointAddr,
    packet::{
        DataHeader, GetDcid, GetScid, Packet, PacketReader,
        error::Error as PE,
        header::{Header, LongHeaderBuilder, OneRttHeader, io::WriteHeader, long},
        io::be_packet,
        r#type::{Type, long::{Type as LType, v1}},
        signal::SpinBit,
    },
    varint::{VarInt, WriteVarInt},
};
use qconnection::qtraversal::packet as tpk;

use crate::{
    registry::c05,
    common::{Opts, Rng, Sink, catch, hex},
};

fn ty_name(t: Type) -> &'static str {
    match t {
        Type::Long(LType::VersionNegotiation) => "vn",
        Type::Long(LType::V1(v)) => match *v {
            v1::Type::Initial => "initial",
            v1::Type::ZeroRtt => "0rtt",
            v1::Type::Handshake => "handshake",
            v1::Type::Retry => "retry",
        },
        Type::Short(o) => if o.0 == SpinBit::One { "short1" } else { "short0" },
    }
}

fn err_name(e: &PE) -> String {
    match e {
        PE::UnsupportedVersion(v) => format!("UnsupportedVersion:{}", v),
        PE::InvalidFixedBit => "InvalidFixedBit".into(),
        PE::IncompleteType(_) => "IncompleteType".into(),
        PE::IncompleteHeader(t, _) => format!("IncompleteHeader:{}", ty_name(*t)),
        PE::IncompletePacket(t, _) => format!("IncompletePacket:{}", ty_name(*t)),
        PE::UnderSampling(t, n) => format!("UnderSampling:{}:{}", ty_name(*t), n),
        PE::RemoveProtectionFailure => "RemoveProtectionFailure".into(),
        PE::InvalidReservedBits(..) => "InvalidReservedBits".into(),
        PE::DecryptPacketFailure => "DecryptPacketFailure".into(),
    }
}

fn show_pkt(p: &Packet) -> String {
    match p {
        Packet::VN(h) => format!(
            "vn,{},{},{}",
            hex(h.dcid()),
            hex(h.scid()),
            if h.versions().is_empty() { "-".to_string() } else { h.versions().iter().map(|v| v.to_string()).collect::<Vec<_>>().join("+") }
        ),
        Packet::Retry(h) => format!("retry,{},{},{},{}", hex(h.dcid()), hex(h.scid()), hex(h.token()), hex(h.integrity())),
        Packet::Data(d) => {
            let h = match &d.header {
                DataHeader::Long(long::DataHeader::Initial(h)) => format!("initial,{},{},{}", hex(h.dcid()), hex(h.scid()), hex(h.token())),
                DataHeader::Long(long::DataHeader::ZeroRtt(h)) => format!("0rtt,{},{}", hex(h.dcid()), hex(h.scid())),
                DataHeader::Long(long::DataHeader::Handshake(h)) => format!("handshake,{},{}", hex(h.dcid()), hex(h.scid())),
                DataHeader::Short(h) => format!("short{},{}", if h.spin() == SpinBit::One { 1 } else { 0 }, hex(h.dcid())),
            };
            format!("{},blen={},off={}", h, d.bytes.len(), d.offset)
        }
    }
}

/// `pkt <d> <hex>`: one `be_packet` call.  Monitors: no panic; on Ok the delivered bytes are exactly the
/// prefix of the buffer, what is left is exactly the suffix (nothing mis-framed), at least 1 byte consumed,
/// header offset + 20 sample bytes inside the packet.
fn pkt_line(sink: &mut Sink, d: usize, input: &[u8]) {
    let op = format!("pkt {} {}", d, hex(input));
    sink.pending(&op);
    let mut buf = BytesMut::from(input);
    let r = catch(|| { let r = be_packet(&mut buf, d); (r, buf) });
    let obs = match r {
        Err(msg) => {
            sink.monitor_fail(&format!("panic:be_packet:{}", site(&msg)), &format!("be_packet panicked on {} (dcid_len {}): {}", hex(input), d, msg));
            sink.branch("pkt:PANIC");
            "PANIC".to_string()
        }
        Ok((Ok(p), rest)) => {
            sink.branch(&format!("pkt:ok:{}", show_pkt(&p).split(',').next().unwrap()));
            if rest.len() >= input.len() { sink.monitor_fail("consumed:be_packet:zero", &format!("be_packet returned Ok without consuming ({} -> {} bytes)", input.len(), rest.len())); }
            if rest.len() <= input.len() && rest[..] != input[input.len() - rest.len()..] { sink.monitor_fail("misframe:be_packet:rest", "the buffer left behind is not the suffix of the datagram"); }
            if let Packet::Data(dp) = &p {
                if dp.bytes.len() > input.len() || dp.bytes[..] != input[..dp.bytes.len()] { sink.monitor_fail("misframe:be_packet:bytes", "packet bytes are not a prefix of the datagram"); }
                if dp.bytes.len() + rest.len() != input.len() { sink.monitor_fail("misframe:be_packet:split", &format!("packet {} + rest {} != datagram {}", dp.bytes.len(), rest.len(), input.len())); }
                if dp.offset + 20 > dp.bytes.len() { sink.monitor_fail("oob:be_packet:sample", &format!("payload offset {} + 20 sample bytes exceed the packet ({} bytes)", dp.offset, dp.bytes.len())); }
            } else if !rest.is_empty() { sink.monitor_fail("misframe:be_packet:ctl", "VN / Retry did not clear the datagram"); }
            format!("ok {} rest={}", show_pkt(&p), rest.len())
        }
        Ok((Err(e), _)) => {
            sink.branch(&format!("pkt:err:{}", err_name(&e).split(':').next().unwrap()));
            format!("err {}", err_name(&e))
        }
    };
    sink.line(&op, &obs);
}

fn site(msg: &str) -> String { msg.chars().take(48).collect::<String>().replace(':', ".") }

/// `all <d> <hex>`: the `PacketReader` iterator to exhaustion.  Monitors: no panic; terminates within
/// len + 1 calls; nothing is yielded after an error (a malformed datagram is dropped).
fn all_line(sink: &mut Sink, d: usize, input: &[u8]) {
    let op = format!("all {} {}", d, hex(input));
    sink.pending(&op);
    let r = catch(|| {
        let mut items = vec![];
        let mut rd = PacketReader::new(BytesMut::from(input), d);
        let mut n = 0usize;
        let mut after_err = false;
        let mut bad = None;
        loop {
            if n > input.len() + 1 { bad = Some("hang"); break; }
            n += 1;
            match rd.next() {
                None => break,
                Some(Ok(p)) => { if after_err { bad = Some("after-err"); } items.push(format!("P:{}", show_pkt(&p))) }
                Some(Err(e)) => { if after_err { bad = Some("after-err"); } after_err = true; items.push(format!("E:{}", err_name(&e))) }
            }
        }
        (items, bad)
    });
    let obs = match r {
        Err(msg) => { sink.monitor_fail(&format!("panic:PacketReader:{}", site(&msg)), &format!("PacketReader panicked on {} (dcid_len {}): {}", hex(input), d, msg)); "PANIC".to_string() }
        Ok((items, bad)) => {
            match bad {
                Some("hang") => sink.monitor_fail("hang:PacketReader", &format!("PacketReader still yields after len+1 = {} calls", input.len() + 1)),
                Some(_) => sink.monitor_fail("misframe:PacketReader:after-err", "PacketReader yielded another item after an error (the rest of a malformed datagram must be dropped)"),
                None => {}
            }
            sink.branch(&format!("all:items={}", items.len().min(5)));
            if items.is_empty() { "-".to_string() } else { items.join(";") }
        }
    };
    sink.line(&op, &obs);
}

fn cid(r: &mut Rng, len: usize) -> ConnectionId { ConnectionId::from_slice(&r.bytes(len)) }

fn cid_len(r: &mut Rng) -> usize {
    match r.below(4) { 0 => *r.pick(&[0usize, 1, 8, 19, 20]), _ => r.below(21) as usize }
}

fn vput(v: u64) -> Vec<u8> {
    let mut e = vec![];
    e.put_varint(&VarInt::from_u64(v & c05::VMAX).unwrap());
    e
}

/// one valid packet of kind `k` (0 vn, 1 retry, 2 initial, 3 0rtt, 4 handshake, 5 short) for dcid length `d`;
/// returns the bytes and whether more packets may follow it in a datagram
fn gen_packet(r: &mut Rng, k: u64, d: usize) -> (Vec<u8>, bool) {
    let mut b: Vec<u8> = vec![];
    let dcid = cid(r, d);
    let scid = { let n = cid_len(r); cid(r, n) };
    let lb = LongHeaderBuilder::with_cid(dcid, scid);
    let paylen = match r.below(6) { 0 => *r.pick(&[19usize, 20, 21, 63, 64]), 1 => r.range(0, 25) as usize, _ => r.range(20, 70) as usize };
    match k {
        0 => { let n = r.below(4) as usize; b.put_header(&Header::VN(lb.vn((0..n).map(|_| r.next_u64() as u32).collect()))); (b, false) }
        1 => {
            let n = r.below(30) as usize;
            let mut integ = [0u8; 16]; integ.copy_from_slice(&r.bytes(16));
            b.put_header(&Header::Retry(lb.retry(r.bytes(n), integ))); (b, false)
        }
        2 | 3 | 4 => {
            match k {
                2 => { let n = match r.below(4) { 0 => 0, 1 => *r.pick(&[63usize, 64, 1]), _ => r.below(40) as usize }; b.put_header(&Header::Initial(lb.initial(r.bytes(n)))) }
                3 => b.put_header(&Header::ZeroRtt(lb.zero_rtt())),
                _ => b.put_header(&Header::Handshake(lb.handshake())),
            }
            // Length (varint; sometimes the 2-byte form the real writer uses) + payload
            if r.chance(1, 2) { b.extend(vput(paylen as u64)); } else { b.extend([0x40 | (paylen >> 8) as u8, paylen as u8]); }
            let p = r.bytes(paylen); b.extend(p);
            (b, true)
        }
        _ => {
            let spin = if r.chance(1, 4) { SpinBit::One } else { SpinBit::Zero };
            b.put_header(&Header::OneRtt(OneRttHeader::new(spin, dcid)));
            // the low 5 bits are protected on the wire: anything
            b[0] |= (r.next_u64() as u8) & 0x1f;
            let p = r.bytes(paylen); b.extend(p);
            (b, false)
        }
    }
}

fn gen_datagram(r: &mut Rng, d: usize, first: u64) -> Vec<u8> {
    let mut dg = vec![];
    let n = r.range(1, 4);
    for i in 0..n {
        let k = if i == 0 { first } else { r.below(6) };
        let (b, more) = gen_packet(r, k, d);
        dg.extend(b);
        if !more { break; }
    }
    dg
}

fn mutate(r: &mut Rng, sink: &mut Sink, base: &[u8]) -> Vec<u8> {
    let mut b = base.to_vec();
    match r.below(9) {
        0 => { let n = r.below(b.len() as u64 + 1) as usize; b.truncate(n); sink.branch("mut:truncate"); }
        1 => { if !b.is_empty() { let p = r.below(b.len().min(48) as u64) as usize; b[p] = r.next_u64() as u8; } sink.branch("mut:byte"); }
        2 => { if !b.is_empty() { let p = r.below(b.len().min(48) as u64) as usize; b[p] ^= 1 << r.below(8); } sink.branch("mut:bit"); }
        3 => { let n = r.range(1, 30) as usize; let x = r.bytes(n); b.extend(x); sink.branch("mut:extend"); }
        4 => {
            // overwrite from a position with a boundary value (cid length bytes, version, varint lengths)
            let p = r.below(b.len().min(60) as u64 + 1) as usize;
            b.truncate(p);
            match r.below(3) {
                0 => b.extend(vput(c05::bv(r))),
                1 => b.push(*r.pick(&[0u8, 1, 19, 20, 21, 22, 255, 64, 63])),
                _ => b.extend((*r.pick(&[0u32, 1, 2, 0xff00_0000, u32::MAX])).to_be_bytes()),
            }
            let n = r.below(40) as usize; let x = r.bytes(n); b.extend(x);
            sink.branch("mut:boundary");
        }
        5 => { let n = r.below(40) as usize; b = r.bytes(n); sink.branch("mut:random"); }
        6 => {
            // first byte from every form x version 0 / 1 / other + random
            let mut x = vec![r.next_u64() as u8];
            if x[0] & 0x80 != 0 { x.extend((*r.pick(&[0u32, 1, 1, 1, 2])).to_be_bytes()); }
            let n = r.below(60) as usize; x.extend(r.bytes(n));
            b = x; sink.branch("mut:form+random");
        }
        _ => { sink.branch("mut:none"); }
    }
    b
}

pub fn run_pkt(o: &Opts) {
    let mut sink = Sink::new_with_stats(&o.out, &o.stats);
    for i in 0..o.cases {
        if let Some(k) = o.only_case { if k != i { continue; } }
        let mut rng = Rng::new(o.seed, i);
        sink.case(&format!("{}", i));
        // every packet kind x every dcid length in turn, then random
        let (k, d) = if i < 6 * 21 * 2 { (i % 6, ((i / 6) % 21) as usize) } else { (rng.below(6), cid_len(&mut rng)) };
        let base = gen_datagram(&mut rng, d, k);
        for j in 0..3 {
            let b = if j == 0 && i < 6 * 21 { base.clone() } else { mutate(&mut rng, &mut sink, &base) };
            // sometimes parse with another dcid length than the one the packet was built for
            let dd = if rng.chance(1, 6) { cid_len(&mut rng) } else { d };
            pkt_line(&mut sink, dd, &b);
            all_line(&mut sink, dd, &b);
        }
        sink.nontrivial();
    }
    sink.finish(&o.stats, "C03pkt: datagrams of 1..4 coalesced packets written by the repo's own header writers (VN, Retry, Initial with token 0..64, 0-RTT, Handshake, 1-RTT; dcid/scid length 0..20; payload length around 19/20/21/63/64; 1- and 2-byte Length), then unchanged / truncated / byte- and bit-mutated / extended / boundary-overwritten (cid length 19..22,255; version 0,1,2; boundary varints) / random; parsed with the dcid length they were built for or another one; be_packet (value, bytes left) and the PacketReader iterator compared exactly with the model; distinct by transcript hash");
}

/* ---------------------------------------------------------------- demultiplexer */

fn show_sock(a: &std::net::SocketAddr) -> String {
    match a {
        std::net::SocketAddr::V4(a) => format!("4:{}:{}", u32::from(*a.ip()), a.port()),
        std::net::SocketAddr::V6(a) => format!("6:{}:{}", u128::from(*a.ip()), a.port()),
    }
}

fn show_ep(e: &EndpointAddr) -> String {
    match e {
        EndpointAddr::Direct { addr } => format!("D({})", show_sock(addr)),
        EndpointAddr::Agent { agent, outer } => format!("A({},{})", show_sock(agent), show_sock(outer)),
    }
}

/// `mux <hex>`: what the receive task of `qtraversal/src/route.rs` does first with a datagram.  Returns the bytes
/// it would hand to `PacketReader::new(_, 8)` (None for STUN).  Monitors: no panic; the forward header the parser
/// consumed is exactly what is stripped before the rest is delivered as a QUIC packet.
fn mux_line(sink: &mut Sink, input: &[u8]) -> Option<Vec<u8>> {
    let op = format!("mux {}", hex(input));
    sink.pending(&op);
    let r = catch(|| match tpk::be_header(input) {
        Err(_) => ("quic".to_string(), Some(input.to_vec()), None),
        Ok((_remain, tpk::Header::Stun(_))) => {
            let mut pkt = BytesMut::from(input);
            let body = pkt.split_off(tpk::StunHeader::encoding_size());
            let v = u16::from_be_bytes([input[7], input[8]]);
            (format!("stun v={} body={}", v, body.len()), None, None)
        }
        Ok((remain, tpk::Header::Forward(fh))) => {
            let pw = fh.pathway();
            let strip = tpk::ForwardHeader::encoding_size(&pw);
            let mut pkt = BytesMut::from(input);
            let inner = pkt.split_off(strip);
            let consumed = input.len() - remain.len();
            (format!("fwd src={} dst={} hdr={} strip={}", show_ep(&pw.local()), show_ep(&pw.remote()), consumed, strip), Some(inner.to_vec()), Some((consumed, strip)))
        }
    });
    match r {
        Err(msg) => {
            sink.monitor_fail(&format!("panic:demux:{}", site(&msg)), &format!("the demultiplexer panicked on {}: {}", hex(input), msg));
            sink.line(&op, "PANIC");
            None
        }
        Ok((obs, inner, fw)) => {
            sink.branch(&format!("mux:{}", obs.split(' ').next().unwrap()));
            sink.line(&op, &obs);
            if let Some((consumed, strip)) = fw {
                if consumed != strip {
                    sink.branch("mux:fwd:strip!=hdr");
                    sink.monitor_fail("misframe:forward:strip!=header", &format!("forward header of {} bytes parsed, {} bytes stripped: the rest delivered as a QUIC packet starts inside/before the real one ({})", consumed, strip, hex(&input[..consumed.min(input.len())])));
                }
            }
            inner
        }
    }
}

fn gen_mux(r: &mut Rng, sink: &mut Sink) -> Vec<u8> {
    let quic = { let d = 8; let k = r.below(6); gen_datagram(r, d, k) };
    match r.below(8) {
        0 => { sink.branch("gmux:quic"); quic }
        1 => {
            // STUN-looking header
            let mut b = vec![0xc2 | (r.below(2) as u8)];
            b.extend((*r.pick(&[0u32, 0, 0, 1, 0x0100_0000])).to_be_bytes());
            b.extend([r.below(3) as u8, r.below(3) as u8]);
            b.extend((r.next_u64() as u16).to_be_bytes());
            let n = r.below(40) as usize; b.extend(r.bytes(n));
            let n = if r.chance(1, 3) { r.below(b.len() as u64 + 1) as usize } else { b.len() };
            b.truncate(n);
            sink.branch("gmux:stun"); b
        }
        2 | 3 | 4 => {
            // forward header: every flag combination, addresses random, then a QUIC datagram
            let flag = r.below(16) as u8 | ((r.below(16) as u8) << 4);
            let mut b = vec![0x60 | (r.below(32) as u8), flag];
            let v6 = flag & 4 != 0;
            let one = if v6 { 18 } else { 6 };
            let n = (if flag & 2 != 0 { 2 * one } else { one }) + (if flag & 1 != 0 { 2 * one } else { one });
            b.extend(r.bytes(n));
            b.extend(quic);
            let n = if r.chance(1, 3) { r.below(b.len().min(90) as u64 + 1) as usize } else { b.len() };
            b.truncate(n);
            sink.branch("gmux:forward"); b
        }
        5 => { let n = r.below(30) as usize; sink.branch("gmux:random"); r.bytes(n) }
        _ => {
            let mut b = quic;
            if !b.is_empty() { b[0] = *r.pick(&[0xc2u8, 0xc3, 0x60, 0x7f, 0x6a, 0xc0, 0x40, 0xe2]); }
            sink.branch("gmux:firstbyte"); b
        }
    }
}

pub fn run_mux(o: &Opts) {
    let mut sink = Sink::new_with_stats(&o.out, &o.stats);
    for i in 0..o.cases {
        if let Some(k) = o.only_case { if k != i { continue; } }
        let mut rng = Rng::new(o.seed, i);
        sink.case(&format!("{}", i));
        for _ in 0..3 {
            let b = gen_mux(&mut rng, &mut sink);
            if let Some(inner) = mux_line(&mut sink, &b) {
                all_line(&mut sink, 8, &inner);
            }
        }
        sink.nontrivial();
    }
    sink.finish(&o.stats, "C03mux: datagrams as the receive task of qtraversal/src/route.rs sees them: QUIC datagrams, STUN-looking headers (version 0 / non-0, truncated), forward headers with every flag combination (family, src/dst direct/agent) in front of a QUIC datagram (truncated or not), random bytes, QUIC datagrams with a STUN/forward-looking first byte; be_header + the split_off lengths compared with the model, then PacketReader::new(inner, 8); distinct by transcript hash");
}

pub const RUNS: &[(&str, fn(&Opts))] = &[("C03pkt", run_pkt), ("C03mux", run_mux)];

#[allow(dead_code)]
fn _unused(_: Bytes, _: Option<QuicError>, _: Option<FrameReader>) { let _ = <qbase::frame::PingFrame as GetFrameType>::frame_type; }
