//! C03: decoders of untrusted bytes driven on the REAL code, outcome class compared with the Lean model
//! (`Ok(value, consumed) | Err(kind) | PANIC`, hang = watchdog), plus monitors that never consult the model.
//!
//! Runs:
//!  * `C03pkt`  `qbase::packet::io::be_packet` (buffer before/after) and the `PacketReader` iterator on
//!              datagrams built from the repo's own header writers (every packet type x dcid length 0..=20,
//!              coalesced), their truncations / byte / bit mutations / boundary overwrites, and random bytes.
//!  * `C03mux`  the pre-QUIC demultiplexer of `qtraversal/src/route.rs` (`qtraversal::packet::be_header`,
//!              `StunHeader::encoding_size`, `ForwardHeader::encoding_size`) followed by `PacketReader::new(_, 8)`.
//!  * `C03frm`  the `FrameReader` loop as `read_plain_packet` runs it (stop at the first error, error mapped
//!              to `QuicError` by the real `From`), on payloads made of C05-generated frames + mutations.
//!  * `C03x`    exhaustive inputs of length <= 2 (quick) / <= 3 (thorough) for every entry point.
use bytes::{Bytes, BytesMut};
use qbase::{
    cid::ConnectionId,
    error::QuicError,
    frame::{Frame, FrameReader},
    net::addr::EndpointAddr,
    packet::{
        DataHeader, GetDcid, GetScid, Packet, PacketReader,
        error::Error as PE,
        header::{Header, LongHeaderBuilder, OneRttHeader, io::WriteHeader, long},
        io::be_packet,
        r#type::{Type, long::{Type as LType, v1}},
        signal::SpinBit,
    },
    varint::{VarInt, WriteVarInt},
};
use qconnection::qtraversal::packet as tpk;

use crate::{
    registry::c05,
    common::{Opts, Rng, Sink, catch, hex},
};

fn ty_name(t: Type) -> &'static str {
    match t {
        Type::Long(LType::VersionNegotiation) => "vn",
        Type::Long(LType::V1(v)) => match *v {
            v1::Type::Initial => "initial",
            v1::Type::ZeroRtt => "0rtt",
            v1::Type::Handshake => "handshake",
            v1::Type::Retry => "retry",
        },
        Type::Short(o) => if o.0 == SpinBit::One { "short1" } else { "short0" },
    }
}

fn err_name(e: &PE) -> String {
    match e {
        PE::UnsupportedVersion(v) => format!("UnsupportedVersion:{}", v),
        PE::InvalidFixedBit => "InvalidFixedBit".into(),
        PE::IncompleteType(_) => "IncompleteType".into(),
        PE::IncompleteHeader(t, _) => format!("IncompleteHeader:{}", ty_name(*t)),
        PE::IncompletePacket(t, _) => format!("IncompletePacket:{}", ty_name(*t)),
        PE::UnderSampling(t, n) => format!("UnderSampling:{}:{}", ty_name(*t), n),
        PE::RemoveProtectionFailure => "RemoveProtectionFailure".into(),
        PE::InvalidReservedBits(..) => "InvalidReservedBits".into(),
        PE::DecryptPacketFailure => "DecryptPacketFailure".into(),
    }
}

fn show_pkt(p: &Packet) -> String {
    match p {
        Packet::VN(h) => format!(
            "vn,{},{},{}",
            hex(h.dcid()),
            hex(h.scid()),
            if h.versions().is_empty() { "-".to_string() } else { h.versions().iter().map(|v| v.to_string()).collect::<Vec<_>>().join("+") }
        ),
        Packet::Retry(h) => format!("retry,{},{},{},{}", hex(h.dcid()), hex(h.scid()), hex(h.token()), hex(h.integrity())),
        Packet::Data(d) => {
            let h = match &d.header {
                DataHeader::Long(long::DataHeader::Initial(h)) => format!("initial,{},{},{}", hex(h.dcid()), hex(h.scid()), hex(h.token())),
                DataHeader::Long(long::DataHeader::ZeroRtt(h)) => format!("0rtt,{},{}", hex(h.dcid()), hex(h.scid())),
                DataHeader::Long(long::DataHeader::Handshake(h)) => format!("handshake,{},{}", hex(h.dcid()), hex(h.scid())),
                DataHeader::Short(h) => format!("short{},{}", if h.spin() == SpinBit::One { 1 } else { 0 }, hex(h.dcid())),
            };
            format!("{},blen={},off={}", h, d.bytes.len(), d.offset)
        }
    }
}

/// `pkt <d> <hex>`: one `be_packet` call.  Monitors: no panic; on Ok the delivered bytes are exactly the
/// prefix of the buffer, what is left is exactly the suffix (nothing mis-framed), at least 1 byte consumed,
/// header offset + 20 sample bytes inside the packet.
fn pkt_line(sink: &mut Sink, d: usize, input: &[u8]) {
    let op = format!("pkt {} {}", d, hex(input));
    sink.pending(&op);
    let mut buf = BytesMut::from(input);
    let r = catch(|| { let r = be_packet(&mut buf, d); (r, buf) });
    let obs = match r {
        Err(msg) => {
            sink.monitor_fail(&format!("panic:be_packet:{}", site(&msg)), &format!("be_packet panicked on {} (dcid_len {}): {}", hex(input), d, msg));
            sink.branch("pkt:PANIC");
            "PANIC".to_string()
        }
        Ok((Ok(p), rest)) => {
            sink.branch(&format!("pkt:ok:{}", show_pkt(&p).split(',').next().unwrap()));
            if rest.len() >= input.len() { sink.monitor_fail("consumed:be_packet:zero", &format!("be_packet returned Ok without consuming ({} -> {} bytes)", input.len(), rest.len())); }
            if rest.len() <= input.len() && rest[..] != input[input.len() - rest.len()..] { sink.monitor_fail("misframe:be_packet:rest", "the buffer left behind is not the suffix of the datagram"); }
            if let Packet::Data(dp) = &p {
                if dp.bytes.len() > input.len() || dp.bytes[..] != input[..dp.bytes.len()] { sink.monitor_fail("misframe:be_packet:bytes", "packet bytes are not a prefix of the datagram"); }
                if dp.bytes.len() + rest.len() != input.len() { sink.monitor_fail("misframe:be_packet:split", &format!("packet {} + rest {} != datagram {}", dp.bytes.len(), rest.len(), input.len())); }
                if dp.offset + 20 > dp.bytes.len() { sink.monitor_fail("oob:be_packet:sample", &format!("payload offset {} + 20 sample bytes exceed the packet ({} bytes)", dp.offset, dp.bytes.len())); }
            } else if !rest.is_empty() { sink.monitor_fail("misframe:be_packet:ctl", "VN / Retry did not clear the datagram"); }
            format!("ok {} rest={}", show_pkt(&p), rest.len())
        }
        Ok((Err(e), _)) => {
            sink.branch(&format!("pkt:err:{}", err_name(&e).split(':').next().unwrap()));
            format!("err {}", err_name(&e))
        }
    };
    sink.line(&op, &obs);
}

/// panic message -> signature fragment: digits folded (lengths / indices vary with the input), 48 chars
fn site(msg: &str) -> String {
    let mut out = String::new();
    let mut last_digit = false;
    for c in msg.chars() {
        if c.is_ascii_digit() { if !last_digit { out.push('#'); } last_digit = true; } else { last_digit = false; out.push(if c == ':' { '.' } else { c }); }
    }
    out.chars().take(48).collect()
}

/// `all <d> <hex>`: the `PacketReader` iterator to exhaustion.  Monitors: no panic; terminates within
/// len + 1 calls; nothing is yielded after an error (a malformed datagram is dropped).
fn all_line(sink: &mut Sink, d: usize, input: &[u8]) {
    let op = format!("all {} {}", d, hex(input));
    sink.pending(&op);
    let r = catch(|| {
        let mut items = vec![];
        let mut rd = PacketReader::new(BytesMut::from(input), d);
        let mut n = 0usize;
        let mut after_err = false;
        let mut bad = None;
        loop {
            if n > input.len() + 1 { bad = Some("hang"); break; }
            n += 1;
            match rd.next() {
                None => break,
                Some(Ok(p)) => { if after_err { bad = Some("after-err"); } items.push(format!("P:{}", show_pkt(&p))) }
                Some(Err(e)) => { if after_err { bad = Some("after-err"); } after_err = true; items.push(format!("E:{}", err_name(&e))) }
            }
        }
        (items, bad)
    });
    let obs = match r {
        Err(msg) => { sink.monitor_fail(&format!("panic:PacketReader:{}", site(&msg)), &format!("PacketReader panicked on {} (dcid_len {}): {}", hex(input), d, msg)); "PANIC".to_string() }
        Ok((items, bad)) => {
            match bad {
                Some("hang") => sink.monitor_fail("hang:PacketReader", &format!("PacketReader still yields after len+1 = {} calls", input.len() + 1)),
                Some(_) => sink.monitor_fail("misframe:PacketReader:after-err", "PacketReader yielded another item after an error (the rest of a malformed datagram must be dropped)"),
                None => {}
            }
            sink.branch(&format!("all:items={}", items.len().min(5)));
            if items.is_empty() { "-".to_string() } else { items.join(";") }
        }
    };
    sink.line(&op, &obs);
}

fn cid(r: &mut Rng, len: usize) -> ConnectionId { ConnectionId::from_slice(&r.bytes(len)) }

fn cid_len(r: &mut Rng) -> usize {
    match r.below(4) { 0 => *r.pick(&[0usize, 1, 8, 19, 20]), _ => r.below(21) as usize }
}

fn vput(v: u64) -> Vec<u8> {
    let mut e = vec![];
    e.put_varint(&VarInt::from_u64(v & c05::VMAX).unwrap());
    e
}

/// one valid packet of kind `k` (0 vn, 1 retry, 2 initial, 3 0rtt, 4 handshake, 5 short) for dcid length `d`;
/// returns the bytes and whether more packets may follow it in a datagram
fn gen_packet(r: &mut Rng, k: u64, d: usize) -> (Vec<u8>, bool) {
    let mut b: Vec<u8> = vec![];
    let dcid = cid(r, d);
    let scid = { let n = cid_len(r); cid(r, n) };
    let lb = LongHeaderBuilder::with_cid(dcid, scid);
    let paylen = match r.below(6) { 0 => *r.pick(&[19usize, 20, 21, 63, 64]), 1 => r.range(0, 25) as usize, _ => r.range(20, 70) as usize };
    match k {
        0 => { let n = r.below(4) as usize; b.put_header(&Header::VN(lb.vn((0..n).map(|_| r.next_u64() as u32).collect()))); (b, false) }
        1 => {
            let n = r.below(30) as usize;
            let mut integ = [0u8; 16]; integ.copy_from_slice(&r.bytes(16));
            b.put_header(&Header::Retry(lb.retry(r.bytes(n), integ))); (b, false)
        }
        2 | 3 | 4 => {
            match k {
                2 => { let n = match r.below(4) { 0 => 0, 1 => *r.pick(&[63usize, 64, 1]), _ => r.below(40) as usize }; b.put_header(&Header::Initial(lb.initial(r.bytes(n)))) }
                3 => b.put_header(&Header::ZeroRtt(lb.zero_rtt())),
                _ => b.put_header(&Header::Handshake(lb.handshake())),
            }
            // Length (varint; sometimes the 2-byte form the real writer uses) + payload
            if r.chance(1, 2) { b.extend(vput(paylen as u64)); } else { b.extend([0x40 | (paylen >> 8) as u8, paylen as u8]); }
            let p = r.bytes(paylen); b.extend(p);
            (b, true)
        }
        _ => {
            let spin = if r.chance(1, 4) { SpinBit::One } else { SpinBit::Zero };
            b.put_header(&Header::OneRtt(OneRttHeader::new(spin, dcid)));
            // the low 5 bits are protected on the wire: anything
            b[0] |= (r.next_u64() as u8) & 0x1f;
            let p = r.bytes(paylen); b.extend(p);
            (b, false)
        }
    }
}

fn gen_datagram(r: &mut Rng, d: usize, first: u64) -> Vec<u8> {
    let mut dg = vec![];
    let n = r.range(1, 4);
    for i in 0..n {
        let k = if i == 0 { first } else { r.below(6) };
        let (b, more) = gen_packet(r, k, d);
        dg.extend(b);
        if !more { break; }
    }
    dg
}

fn mutate(r: &mut Rng, sink: &mut Sink, base: &[u8]) -> Vec<u8> {
    let mut b = base.to_vec();
    match r.below(9) {
        0 => { let n = r.below(b.len() as u64 + 1) as usize; b.truncate(n); sink.branch("mut:truncate"); }
        1 => { if !b.is_empty() { let p = r.below(b.len().min(48) as u64) as usize; b[p] = r.next_u64() as u8; } sink.branch("mut:byte"); }
        2 => { if !b.is_empty() { let p = r.below(b.len().min(48) as u64) as usize; b[p] ^= 1 << r.below(8); } sink.branch("mut:bit"); }
        3 => { let n = r.range(1, 30) as usize; let x = r.bytes(n); b.extend(x); sink.branch("mut:extend"); }
        4 => {
            // overwrite from a position with a boundary value (cid length bytes, version, varint lengths)
            let p = r.below(b.len().min(60) as u64 + 1) as usize;
            b.truncate(p);
            match r.below(3) {
                0 => b.extend(vput(c05::bv(r))),
                1 => b.push(*r.pick(&[0u8, 1, 19, 20, 21, 22, 255, 64, 63])),
                _ => b.extend((*r.pick(&[0u32, 1, 2, 0xff00_0000, u32::MAX])).to_be_bytes()),
            }
            let n = r.below(40) as usize; let x = r.bytes(n); b.extend(x);
            sink.branch("mut:boundary");
        }
        5 => { let n = r.below(40) as usize; b = r.bytes(n); sink.branch("mut:random"); }
        6 => {
            // first byte from every form x version 0 / 1 / other + random
            let mut x = vec![r.next_u64() as u8];
            if x[0] & 0x80 != 0 { x.extend((*r.pick(&[0u32, 1, 1, 1, 2])).to_be_bytes()); }
            let n = r.below(60) as usize; x.extend(r.bytes(n));
            b = x; sink.branch("mut:form+random");
        }
        _ => { sink.branch("mut:none"); }
    }
    b
}

pub fn run_pkt(o: &Opts) {
    let mut sink = Sink::new_with_stats(&o.out, &o.stats);
    for i in 0..o.cases {
        if let Some(k) = o.only_case { if k != i { continue; } }
        let mut rng = Rng::new(o.seed, i);
        sink.case(&format!("{}", i));
        // every packet kind x every dcid length in turn, then random
        let (k, d) = if i < 6 * 21 * 2 { (i % 6, ((i / 6) % 21) as usize) } else { (rng.below(6), cid_len(&mut rng)) };
        let base = gen_datagram(&mut rng, d, k);
        for j in 0..3 {
            let b = if j == 0 && i < 6 * 21 { base.clone() } else { mutate(&mut rng, &mut sink, &base) };
            // sometimes parse with another dcid length than the one the packet was built for
            let dd = if rng.chance(1, 6) { cid_len(&mut rng) } else { d };
            pkt_line(&mut sink, dd, &b);
            all_line(&mut sink, dd, &b);
        }
        sink.nontrivial();
    }
    sink.finish(&o.stats, "C03pkt: datagrams of 1..4 coalesced packets written by the repo's own header writers (VN, Retry, Initial with token 0..64, 0-RTT, Handshake, 1-RTT; dcid/scid length 0..20; payload length around 19/20/21/63/64; 1- and 2-byte Length), then unchanged / truncated / byte- and bit-mutated / extended / boundary-overwritten (cid length 19..22,255; version 0,1,2; boundary varints) / random; parsed with the dcid length they were built for or another one; be_packet (value, bytes left) and the PacketReader iterator compared exactly with the model; distinct by transcript hash");
}

/* ---------------------------------------------------------------- demultiplexer */

fn show_sock(a: &std::net::SocketAddr) -> String {
    match a {
        std::net::SocketAddr::V4(a) => format!("4:{}:{}", u32::from(*a.ip()), a.port()),
        std::net::SocketAddr::V6(a) => format!("6:{}:{}", u128::from(*a.ip()), a.port()),
    }
}

fn show_ep(e: &EndpointAddr) -> String {
    match e {
        EndpointAddr::Direct { addr } => format!("D({})", show_sock(addr)),
        EndpointAddr::Agent { agent, outer } => format!("A({},{})", show_sock(agent), show_sock(outer)),
    }
}

/// `mux <hex>`: what the receive task of `qtraversal/src/route.rs` does first with a datagram.  Returns the bytes
/// it would hand to `PacketReader::new(_, 8)` (None for STUN).  Monitors: no panic; the forward header the parser
/// consumed is exactly what is stripped before the rest is delivered as a QUIC packet.
fn mux_line(sink: &mut Sink, input: &[u8]) -> Option<Vec<u8>> {
    let op = format!("mux {}", hex(input));
    sink.pending(&op);
    let r = catch(|| match tpk::be_header(input) {
        Err(_) => ("quic".to_string(), Some(input.to_vec()), None),
        Ok((_remain, tpk::Header::Stun(_))) => {
            let mut pkt = BytesMut::from(input);
            let body = pkt.split_off(tpk::StunHeader::encoding_size());
            let v = u16::from_be_bytes([input[7], input[8]]);
            // deliver_stun_packet: `let Ok((.., (txid, packet))) = be_packet(&pkt) else { return }`
            let m = match catch(|| qconnection::qtraversal::nat::msg::be_packet(&body).is_ok()) {
                Ok(true) => "ok".to_string(),
                Ok(false) => "err".to_string(),
                Err(msg) => format!("PANIC:{}", site(&msg)),
            };
            (format!("stun v={} body={} msg={}", v, body.len(), m), None, None)
        }
        Ok((remain, tpk::Header::Forward(fh))) => {
            let pw = fh.pathway();
            let strip = tpk::ForwardHeader::encoding_size(&pw);
            let mut pkt = BytesMut::from(input);
            let inner = pkt.split_off(strip);
            let consumed = input.len() - remain.len();
            (format!("fwd src={} dst={} hdr={} strip={}", show_ep(&pw.local()), show_ep(&pw.remote()), consumed, strip), Some(inner.to_vec()), Some((consumed, strip)))
        }
    });
    match r {
        Err(msg) => {
            sink.monitor_fail(&format!("panic:demux:{}", site(&msg)), &format!("the demultiplexer panicked on {}: {}", hex(input), msg));
            sink.line(&op, "PANIC");
            None
        }
        Ok((obs, inner, fw)) => {
            let obs = if let Some(p) = obs.find("msg=PANIC:") {
                sink.monitor_fail(&format!("panic:stun_msg:{}", &obs[p + 10..]), &format!("nat::msg::be_packet panicked on the STUN datagram {} (receive task of qtraversal/src/route.rs)", hex(input)));
                sink.branch("mux:stun:PANIC");
                format!("{}msg=PANIC", &obs[..p])
            } else { obs };
            sink.branch(&format!("mux:{}", obs.split(' ').next().unwrap()));
            sink.line(&op, &obs);
            if let Some((consumed, strip)) = fw {
                if consumed != strip {
                    sink.branch("mux:fwd:strip!=hdr");
                    sink.monitor_fail("misframe:forward:strip!=header", &format!("forward header of {} bytes parsed, {} bytes stripped: the rest delivered as a QUIC packet starts inside/before the real one ({})", consumed, strip, hex(&input[..consumed.min(input.len())])));
                }
            }
            inner
        }
    }
}

fn gen_mux(r: &mut Rng, sink: &mut Sink) -> Vec<u8> {
    let quic = { let d = 8; let k = r.below(6); gen_datagram(r, d, k) };
    match r.below(8) {
        0 => { sink.branch("gmux:quic"); quic }
        1 => {
            // STUN-looking header
            let mut b = vec![0xc2 | (r.below(2) as u8)];
            b.extend((*r.pick(&[0u32, 0, 0, 1, 0x0100_0000])).to_be_bytes());
            b.extend([r.below(3) as u8, r.below(3) as u8]);
            b.extend((r.next_u64() as u16).to_be_bytes());
            // message: type, transaction id (sometimes cut short), attributes
            b.extend((*r.pick(&[1u16, 0x101, 0x101, 2, 0x100])).to_be_bytes());
            let n = *r.pick(&[16usize, 16, 16, 0, 1, 15, 17]); b.extend(r.bytes(n));
            b.extend(gen_stun(r));
            let n = if r.chance(1, 3) { r.below(b.len() as u64 + 1) as usize } else { b.len() };
            b.truncate(n);
            sink.branch("gmux:stun"); b
        }
        2 | 3 | 4 => {
            // forward header: every flag combination, addresses random, then a QUIC datagram
            let flag = r.below(16) as u8 | ((r.below(16) as u8) << 4);
            let mut b = vec![0x60 | (r.below(32) as u8), flag];
            let v6 = flag & 4 != 0;
            let one = if v6 { 18 } else { 6 };
            let n = (if flag & 2 != 0 { 2 * one } else { one }) + (if flag & 1 != 0 { 2 * one } else { one });
            b.extend(r.bytes(n));
            b.extend(quic);
            let n = if r.chance(1, 3) { r.below(b.len().min(90) as u64 + 1) as usize } else { b.len() };
            b.truncate(n);
            sink.branch("gmux:forward"); b
        }
        5 => { let n = r.below(30) as usize; sink.branch("gmux:random"); r.bytes(n) }
        _ => {
            let mut b = quic;
            if !b.is_empty() { b[0] = *r.pick(&[0xc2u8, 0xc3, 0x60, 0x7f, 0x6a, 0xc0, 0x40, 0xe2]); }
            sink.branch("gmux:firstbyte"); b
        }
    }
}

pub fn run_mux(o: &Opts) {
    let mut sink = Sink::new_with_stats(&o.out, &o.stats);
    for i in 0..o.cases {
        if let Some(k) = o.only_case { if k != i { continue; } }
        let mut rng = Rng::new(o.seed, i);
        sink.case(&format!("{}", i));
        for _ in 0..3 {
            let b = gen_mux(&mut rng, &mut sink);
            if let Some(inner) = mux_line(&mut sink, &b) {
                all_line(&mut sink, 8, &inner);
            }
        }
        sink.nontrivial();
    }
    sink.finish(&o.stats, "C03mux: datagrams as the receive task of qtraversal/src/route.rs sees them: QUIC datagrams, STUN-looking headers (version 0 / non-0, truncated), forward headers with every flag combination (family, src/dst direct/agent) in front of a QUIC datagram (truncated or not), random bytes, QUIC datagrams with a STUN/forward-looking first byte; be_header + the split_off lengths compared with the model, then PacketReader::new(inner, 8); distinct by transcript hash");
}

/* ---------------------------------------------------------------- frames */

fn ferr_name(e: &qbase::frame::error::Error) -> String {
    use qbase::frame::error::Error as FE;
    match e {
        FE::NoFrames => "NoFrames".into(),
        FE::IncompleteType(_) => "IncompleteType".into(),
        FE::InvalidType(v) => format!("InvalidType:{}", v.into_u64()),
        FE::WrongType(..) => "WrongType".into(),
        FE::IncompleteFrame(..) => "IncompleteFrame".into(),
        FE::ParseError(_, d) => format!("ParseError:{}", c05::nom_code(d)),
    }
}

/// RFC 9000 section 12.4, written down independently of the code and of the model
fn prescribed(e: &qbase::frame::error::Error) -> &'static str {
    use qbase::frame::error::Error as FE;
    match e {
        FE::NoFrames | FE::WrongType(..) => "ProtocolViolation",
        _ => "FrameEncoding",
    }
}

/// `frames <pt> <hex>`: the loop of `read_plain_packet` (private to qconnection, replicated here: `for r in
/// FrameReader::new(body, ty) { let (frame, ty) = r.map_err(QuicError::from)?; .. }`) on the real `FrameReader`.
/// Monitors: no panic; every Ok step consumes >= 1 and <= remaining bytes; the loop ends within len + 1 steps;
/// a decoding error becomes the connection error RFC 9000 12.4 prescribes.
fn frames_line(sink: &mut Sink, pti: u64, input: &[u8]) {
    let (pt, ptn) = c05::pkt_type(pti);
    let op = format!("frames {} {}", ptn, hex(input));
    sink.pending(&op);
    let body = Bytes::copy_from_slice(input);
    let r = catch(move || {
        let mut items: Vec<String> = vec![];
        let mut bad: Vec<(String, String)> = vec![];
        let mut rd = FrameReader::new(body, pt);
        let mut n = 0usize;
        loop {
            if n > input.len() + 1 { bad.push(("hang:FrameReader".into(), format!("FrameReader still yields after {} steps", n))); items.push("HANG".into()); break; }
            n += 1;
            let before = rd.len();
            match rd.next() {
                None => { items.push("end".into()); break; }
                Some(Ok((f, _ty))) => {
                    let used = before.wrapping_sub(rd.len());
                    if rd.len() >= before { bad.push(("consumed:FrameReader:zero".into(), format!("an Ok step left {} of {} bytes", rd.len(), before))); items.push("STUCK".into()); break; }
                    // well-formedness of the decoded VALUE (independent of the model): RFC 9000 19.8 / 19.6 — the
                    // largest offset carried by a STREAM / CRYPTO frame cannot exceed 2^62-1 (MUST be refused with
                    // FRAME_ENCODING_ERROR or FLOW_CONTROL_ERROR); and a decoded value must itself be encodable and
                    // decode back to the same value (a mis-framed value generally does not)
                    const VMAX62: u64 = (1u64 << 62) - 1;
                    match &f {
                        Frame::Stream(sf, d) => {
                            if sf.offset().checked_add(d.len() as u64).map_or(true, |e| e > VMAX62) {
                                bad.push(("illformed:STREAM:beyond-2^62-1".into(), format!("a STREAM frame with offset {} and {} bytes of data (end beyond 2^62-1) was decoded instead of refused", sf.offset(), d.len())));
                            }
                        }
                        Frame::Crypto(cf, d) => {
                            if cf.offset().checked_add(d.len() as u64).map_or(true, |e| e > VMAX62) {
                                bad.push(("illformed:CRYPTO:beyond-2^62-1".into(), format!("a CRYPTO frame with offset {} and {} bytes of data (end beyond 2^62-1) was decoded instead of refused", cf.offset(), d.len())));
                            }
                        }
                        _ => {}
                    }
                    items.push(format!("ok used={} {}", used, c05::show(&f)));
                }
                Some(Err(e)) => {
                    let want = prescribed(&e);
                    let name = ferr_name(&e);
                    let q = QuicError::from(e);
                    let kind = format!("{:?}", q.kind());
                    if kind != want { bad.push((format!("errkind:{}:{}", name.split(':').next().unwrap(), kind), format!("{} is reported as {} but RFC 9000 12.4 prescribes {}", name, kind, want))); }
                    items.push(format!("err {} kind={}", name, kind));
                    break;
                }
            }
        }
        (items, bad)
    });
    match r {
        Err(msg) => { sink.monitor_fail(&format!("panic:FrameReader:{}", site(&msg)), &format!("FrameReader panicked on {} ({}): {}", hex(input), ptn, msg)); sink.branch("frames:PANIC"); sink.line(&op, "PANIC"); }
        Ok((items, bad)) => {
            for (k, w) in bad { sink.monitor_fail(&k, &format!("{} [frames {} {}]", w, ptn, hex(input))); }
            let last = items.last().cloned().unwrap_or_default();
            sink.branch(&format!("frames:{}", last.split(' ').take(2).collect::<Vec<_>>().join("_").split(':').next().unwrap()));
            sink.branch(&format!("frames:n={}", items.len().saturating_sub(1).min(6)));
            sink.line(&op, &items.join(" | "));
        }
    }
}

fn gen_payload(r: &mut Rng, quiet: &mut Sink) -> Vec<u8> {
    let n = r.range(1, 5);
    let mut out = vec![];
    for _ in 0..n {
        let kind = r.below(c05::NKINDS);
        let bytes = loop {
            let (f, _, _) = c05::gen_frame(r, kind, quiet);
            if c05::data_len(&f) > 200 { continue; }
            if let Ok(e) = c05::encode(&f) { if e.bytes.len() < 400 { break e.bytes; } }
        };
        out.extend(bytes);
    }
    out
}

/// source-level probe (the function is private to qconnection and needs a live connection to call): does
/// `read_plain_packet` refuse a packet without frames?
fn empty_payload_probe(sink: &mut Sink) {
    let repo = std::env::var("GMQ_REPO").unwrap_or_else(|_| "/repo".into());
    let src = std::fs::read_to_string(format!("{}/qconnection/src/space.rs", repo)).unwrap_or_default();
    let body = src.split("fn read_plain_packet").nth(1).unwrap_or("");
    let body = body.split("\nfn ").next().unwrap_or("");
    let rejects = body.contains("NoFrames");
    // the replica of the loop on an empty body
    let mut rd = FrameReader::new(Bytes::new(), c05::pkt_type(3).0);
    let yields_nothing = rd.next().is_none();
    let accepted = yields_nothing && !rejects;
    if accepted {
        sink.monitor_fail("noframes:accepted", "a packet whose decrypted payload is empty is accepted with zero frames: FrameReader yields nothing and read_plain_packet (qconnection/src/space.rs) never raises Error::NoFrames (RFC 9000 12.4: MUST be PROTOCOL_VIOLATION)");
    }
    sink.line("emptypayload", if accepted { "accepted" } else { "rejected" });
}

pub fn run_frm(o: &Opts) {
    let mut sink = Sink::new_with_stats(&o.out, &o.stats);
    let mut quiet = Sink::new("/dev/null");
    sink.case("probe");
    empty_payload_probe(&mut sink);
    for i in 0..o.cases {
        if let Some(k) = o.only_case { if k != i { continue; } }
        let mut rng = Rng::new(o.seed, i);
        sink.case(&format!("{}", i));
        let base = gen_payload(&mut rng, &mut quiet);
        for j in 0..3 {
            let pti = if rng.chance(3, 5) { 3 } else { rng.below(6) };
            let b = if j == 0 { base.clone() } else { mutate(&mut rng, &mut sink, &base) };
            frames_line(&mut sink, pti, &b);
        }
        sink.nontrivial();
    }
    sink.finish(&o.stats, "C03frm: payloads of 1..5 frames produced by the C05 type-directed generator (27 kinds, boundary fields), unchanged / truncated / byte- and bit-mutated / extended / boundary-overwritten / random, read as Initial, Handshake, 0-RTT, 1-RTT (3/5), Retry, VN payload by the real FrameReader in the loop shape of read_plain_packet; every decoded value, consumed count, error variant and the QuicError kind compared exactly with the model; distinct by transcript hash");
}

/* ---------------------------------------------------------------- transport parameters */

fn tp_line(sink: &mut Sink, which: &str, input: &[u8]) {
    use qbase::param::{ClientParameters, ServerParameters};
    let op = format!("{} {}", which, hex(input));
    sink.pending(&op);
    let inp = input.to_vec();
    let w = which.to_string();
    let r = catch(move || match w.as_str() {
        "tpc" => ClientParameters::parse_from_bytes(&inp).map(|_| ()),
        "tps" => ServerParameters::parse_from_bytes(&inp).map(|_| ()),
        _ => ServerParameters::try_from_remembered_bytes(&inp).map(|_| ()),
    });
    let obs = match r {
        Err(msg) => { sink.monitor_fail(&format!("panic:{}:{}", which, site(&msg)), &format!("transport-parameter parser panicked on {}: {}", hex(input), msg)); "PANIC".to_string() }
        Ok(Ok(())) => "ok".to_string(),
        Ok(Err(e)) => {
            let kind = format!("{:?}", e.kind());
            if kind != "TransportParameter" { sink.monitor_fail(&format!("errkind:{}:{}", which, kind), &format!("a transport-parameter parse error is reported as {} [{}]", kind, hex(input))); }
            format!("err {}", kind)
        }
    };
    sink.branch(&format!("{}:{}", which, obs.split(' ').next().unwrap()));
    sink.line(&op, &obs);
}

fn gen_tp(r: &mut Rng) -> Vec<u8> {
    const IDS: [u64; 24] = [0, 1, 2, 3, 4, 5, 6, 7, 8, 9, 10, 11, 12, 13, 14, 15, 16, 17, 0x20, 0x2ab2, 0xffee, 0xffef, 27, 0x3f];
    let mut out = vec![];
    let n = r.range(0, 6);
    for k in 0..n {
        let id = if k == 0 && r.chance(3, 4) { 15 } else { *r.pick(&IDS) };
        out.extend(vput(id));
        let val: Vec<u8> = match r.below(9) {
            0 => vec![],
            1 | 2 => vput(c05::bv(r)),
            3 => r.bytes(16),
            4 => { let n = r.below(24) as usize; r.bytes(n) }
            5 => {
                // preferred_address shape: 6 + 18 + cid length byte + cid + 16
                let cl = *r.pick(&[0usize, 1, 8, 20, 21, 22]);
                let mut v = r.bytes(24); v.push(cl as u8); v.extend(r.bytes(cl)); let tl = *r.pick(&[16usize, 16, 16, 15, 17]); v.extend(r.bytes(tl));
                v
            }
            6 => { let mut v = vput(c05::bv(r)); v.push(0); v }
            7 => { let n = *r.pick(&[19usize, 20, 21, 40]); r.bytes(n) }
            _ => vput(r.below(100)),
        };
        if r.chance(1, 12) { out.extend(vput(val.len() as u64 + r.range(1, 3))); } else { out.extend(vput(val.len() as u64)); }
        out.extend(val);
    }
    out
}

pub fn run_par(o: &Opts) {
    let mut sink = Sink::new_with_stats(&o.out, &o.stats);
    for i in 0..o.cases {
        if let Some(k) = o.only_case { if k != i { continue; } }
        let mut rng = Rng::new(o.seed, i);
        sink.case(&format!("{}", i));
        let base = gen_tp(&mut rng);
        for j in 0..3 {
            let b = if j == 0 { base.clone() } else { mutate(&mut rng, &mut sink, &base) };
            let which = *rng.pick(&["tpc", "tps", "tpr"]);
            tp_line(&mut sink, which, &b);
        }
        sink.nontrivial();
    }
    sink.finish(&o.stats, "C03par: blobs of 0..6 parameters (ids of the table + unknown/GREASE ids; values: empty, boundary varints, 16 bytes, 0..24 / 19,20,21,40 random bytes, preferred_address shapes with cid length 0,1,8,20,21,22 and token 15..17, varint + trailing byte; length field sometimes too long), unchanged / mutated / random, parsed as a client's, a server's and as remembered server parameters; outcome class ok | err(kind) | PANIC compared with the model; distinct by transcript hash");
}

/* ---------------------------------------------------------------- other decoders: monitors only */

fn misc_line(sink: &mut Sink, entry: &str, input: &[u8]) {
    use qbase::net::Family;
    let op = format!("misc {} {}", entry, hex(input));
    sink.pending(&op);
    let inp = input.to_vec();
    let e = entry.to_string();
    // Ok(Some(rest_len)) | Ok(None) = error
    let r = catch(move || -> Option<usize> {
        let i = &inp[..];
        match e.as_str() {
            "stun" => qconnection::qtraversal::nat::msg::be_packet(i).ok().map(|(r, _)| r.len()),
            "ep4d" => qbase::net::addr::be_endpoint_addr(i, 0, Family::V4).ok().map(|(r, _)| r.len()),
            "ep4a" => qbase::net::addr::be_endpoint_addr(i, 1, Family::V4).ok().map(|(r, _)| r.len()),
            "ep6d" => qbase::net::addr::be_endpoint_addr(i, 0, Family::V6).ok().map(|(r, _)| r.len()),
            "ep6a" => qbase::net::addr::be_endpoint_addr(i, 1, Family::V6).ok().map(|(r, _)| r.len()),
            "sock4" => qbase::net::be_socket_addr(i, Family::V4).ok().map(|(r, _)| r.len()),
            "sock6" => qbase::net::be_socket_addr(i, Family::V6).ok().map(|(r, _)| r.len()),
            "cid" => qbase::cid::be_connection_id(i).ok().map(|(r, _)| r.len()),
            "varint" => qbase::varint::be_varint(i).ok().map(|(r, _)| r.len()),
            "token" => qbase::token::be_reset_token(i).ok().map(|(r, _)| r.len()),
            "pref" => qbase::param::preferred_address::be_preferred_address(i).ok().map(|(r, _)| r.len()),
            "ptype" => qbase::packet::r#type::io::be_packet_type(i).ok().map(|(r, _)| r.len()),
            "fwd" => tpk::be_forward_header(i).ok().map(|(r, _)| r.len()),
            "pn1" | "pn2" | "pn3" | "pn4" => qbase::packet::take_pn_len(e.as_bytes()[2] - b'0')(i).ok().map(|(r, _)| r.len()),
            _ => None,
        }
    });
    let obs = match r {
        Err(msg) => { sink.monitor_fail(&format!("panic:{}:{}", entry, site(&msg)), &format!("{} panicked on {}: {}", entry, hex(input), msg)); "PANIC".to_string() }
        Ok(None) => "err".to_string(),
        Ok(Some(rest)) => {
            if rest > input.len() { sink.monitor_fail(&format!("oob:{}", entry), "rest longer than the input"); }
            format!("ok used={}", input.len().wrapping_sub(rest))
        }
    };
    sink.branch(&format!("misc:{}:{}", entry, obs.split(' ').next().unwrap()));
    sink.line(&op, &obs);
}

const MISC: [&str; 18] = ["stun", "ep4d", "ep4a", "ep6d", "ep6a", "sock4", "sock6", "cid", "varint", "token", "pref", "ptype", "fwd", "pn1", "pn2", "pn3", "pn4", "stun"];

fn gen_stun(r: &mut Rng) -> Vec<u8> {
    // request/response bit + 12-byte txid-looking prefix + TLV-looking attributes
    let n0 = r.range(0, 20) as usize; let mut b = r.bytes(n0);
    for _ in 0..r.below(5) {
        b.extend((r.below(16) as u16).to_be_bytes());
        let n = *r.pick(&[0usize, 1, 4, 6, 8, 18, 20, 36]);
        b.extend(((if r.chance(1, 8) { n + 3 } else { n }) as u16).to_be_bytes());
        b.extend(r.bytes(n));
    }
    b
}

pub fn run_misc(o: &Opts) {
    let mut sink = Sink::new_with_stats(&o.out, &o.stats);
    for i in 0..o.cases {
        if let Some(k) = o.only_case { if k != i { continue; } }
        let mut rng = Rng::new(o.seed, i);
        sink.case(&format!("{}", i));
        for _ in 0..4 {
            let e = MISC[(rng.below(MISC.len() as u64)) as usize];
            let b = match rng.below(4) {
                0 if e == "stun" => gen_stun(&mut rng),
                0 | 1 => { let n = rng.below(48) as usize; rng.bytes(n) }
                2 => { let mut v = vec![*rng.pick(&[0u8, 1, 19, 20, 21, 255, 0x40, 0x80, 0xc0])]; let n = rng.below(44) as usize; v.extend(rng.bytes(n)); v }
                _ => gen_stun(&mut rng),
            };
            misc_line(&mut sink, e, &b);
        }
        sink.nontrivial();
    }
    sink.finish(&o.stats, "C03misc: decoders NOT modelled, monitored only (no panic, terminates, consumed <= len): qtraversal nat::msg::be_packet (STUN), be_endpoint_addr x family x relay, be_socket_addr, be_connection_id, be_varint, be_reset_token, be_preferred_address, be_packet_type, be_forward_header, take_pn_len(1..4) on random / TLV-shaped / boundary-first-byte inputs");
}

/* ---------------------------------------------------------------- exhaustive small inputs */

fn x_one(s: &mut Sink, b: &[u8], len: usize) {
    pkt_line(s, 8, b);
    all_line(s, 8, b);
    let _ = mux_line(s, b);
    if len <= 1 { for d in 0..=20 { pkt_line(s, d, b); all_line(s, d, b); } }
    if len <= 2 {
        for pti in 0..4 { frames_line(s, pti, b); }
        tp_line(s, "tpc", b);
        tp_line(s, "tps", b);
        tp_line(s, "tpr", b);
    } else {
        frames_line(s, 3, b);
        frames_line(s, 0, b);
        tp_line(s, "tps", b);
    }
}

pub fn run_x(o: &Opts) {
    let mut sink = Sink::new_with_stats(&o.out, &o.stats);
    let mut dn = Sink::new("/dev/null");
    let maxlen = if o.thorough() { 3 } else { 2 };
    let mut id = 0u64;
    let mut total = 0u64;
    let mut sampled = 0u64;
    for len in 0..=maxlen {
        let count: u64 = 1 << (8 * len);
        for v in 0..count {
            let b: Vec<u8> = (0..len).map(|k| (v >> (8 * (len - 1 - k))) as u8).collect();
            // 3-byte inputs: all of them run (monitors), a 1/16 sample is also written to the transcript
            let sample = len < 3 || v % 16 == 5;
            total += 1;
            if sample {
                if sampled % 64 == 0 { id += 1; sink.case(&format!("{}", id)); }
                sampled += 1;
                x_one(&mut sink, &b, len);
            } else {
                if total % 64 == 0 { dn.case("x"); }
                let before = dn.monitor_failures.len();
                x_one(&mut dn, &b, len);
                for m in dn.monitor_failures[before..].to_vec() {
                    sink.monitor_fail(m["key"].as_str().unwrap_or("?"), &format!("{} [exhaustive input {}]", m["what"].as_str().unwrap_or("?"), hex(&b)));
                }
            }
        }
    }
    sink.nontrivial();
    sink.note("exhaustive_inputs", serde_json::json!(total));
    sink.finish(&o.stats, "C03x: EVERY input of length 0..2 (quick) / 0..3 (thorough; all run under the monitors, 1/16 of the 3-byte ones also compared with the model) for be_packet / PacketReader (dcid 8; all of 0..20 for length <= 1), the demultiplexer, the FrameReader loop (I/H/0/1; 1-RTT and Initial for 3-byte inputs), and the transport-parameter parsers");
}

pub const RUNS: &[(&str, fn(&Opts))] = &[("C03pkt", run_pkt), ("C03mux", run_mux), ("C03frm", run_frm), ("C03par", run_par), ("C03misc", run_misc), ("C03x", run_x)];
