//! C12 on a REAL `qrecovery::streams::DataStreams` endpoint (`recv_data`, `recv_stream_control`, `open_*`,
//! `accept_*`):
//!
//! * `C12e` — random histories: local opens, MAX_STREAMS, STREAMS_BLOCKED and peer STREAM / RESET_STREAM /
//!   STOP_SENDING / MAX_STREAM_DATA / STREAM_DATA_BLOCKED frames with arbitrary stream ids of all four
//!   types, offsets, lengths and FIN bits, including frames a conformant peer would never send;
//! * `C12d` — the direction table, exhaustive: 2 roles × 5 frame kinds × 2 initiators × 2 directions
//!   (locally initiated: already opened / not yet opened), plus fixed probes (MAX_STREAMS > 2^60 through
//!   the transport parameters, STREAMS_BLOCKED / MAX_STREAMS at the 2^60 boundary through the real parser).
//!
//! The monitors evaluate RFC 9000 §2.1/§3/§4.5/§4.6/§19 on the real trace and never consult the model.
use std::{
    collections::BTreeMap,
    future::Future,
    pin::Pin,
    sync::{Arc, Mutex, atomic::{AtomicU64, Ordering}},
    task::{Context, Poll, Wake, Waker},
};

use bytes::Bytes;
use qbase::{
    cid::ConnectionId,
    error::ErrorKind,
    frame::{
        MaxStreamDataFrame, MaxStreamsFrame, ResetStreamFrame, StopSendingFrame, StreamCtlFrame, StreamDataBlockedFrame,
        StreamFrame, StreamsBlockedFrame,
        io::SendFrame,
    },
    net::tx::ArcSendWakers,
    packet::r#type::Type,
    param::{ArcParameters, ClientParameters, ParameterId, ServerParameters, core::Parameters as RoleParams},
    role::Role,
    sid::{Dir, StreamId},
    varint::VarInt,
};
use qrecovery::{recv::Reader, send::Writer, streams::{DataStreams, Ext}};

use super::c12::{Strat, dn, other, rn};
use crate::common::{Opts, Rng, Sink, catch};

const VMAX: u64 = (1 << 62) - 1;

/// Recording broker: only MAX_STREAMS / STREAMS_BLOCKED are kept (the rest belongs to C09/C11).
#[derive(Clone, Default, Debug)]
pub struct Rec12(pub Arc<Mutex<Vec<(char, Dir, u64)>>>);

impl Rec12 {
    fn take(&self) -> Vec<(char, Dir, u64)> {
        std::mem::take(&mut *self.0.lock().unwrap())
    }
}

impl SendFrame<StreamCtlFrame> for Rec12 {
    fn send_frame<I: IntoIterator<Item = StreamCtlFrame>>(&self, iter: I) {
        let mut g = self.0.lock().unwrap();
        for f in iter {
            match f {
                StreamCtlFrame::MaxStreams(MaxStreamsFrame::Bi(v)) => g.push(('M', Dir::Bi, v.into_u64())),
                StreamCtlFrame::MaxStreams(MaxStreamsFrame::Uni(v)) => g.push(('M', Dir::Uni, v.into_u64())),
                StreamCtlFrame::StreamsBlocked(StreamsBlockedFrame::Bi(v)) => g.push(('B', Dir::Bi, v.into_u64())),
                StreamCtlFrame::StreamsBlocked(StreamsBlockedFrame::Uni(v)) => g.push(('B', Dir::Uni, v.into_u64())),
                _ => {}
            }
        }
    }
}

fn vi(v: u64) -> VarInt {
    VarInt::from_u64(v).unwrap()
}

fn fill<R: qbase::role::IntoRole + Default>(p: &mut RoleParams<R>, win: [u64; 3], sb: u64, su: u64) -> Result<(), String> {
    p.set(ParameterId::InitialMaxStreamDataBidiLocal, vi(win[0])).map_err(|e| e.to_string())?;
    p.set(ParameterId::InitialMaxStreamDataBidiRemote, vi(win[1])).map_err(|e| e.to_string())?;
    p.set(ParameterId::InitialMaxStreamDataUni, vi(win[2])).map_err(|e| e.to_string())?;
    p.set(ParameterId::InitialMaxData, vi(VMAX)).map_err(|e| e.to_string())?;
    p.set(ParameterId::InitialMaxStreamsBidi, vi(sb)).map_err(|e| e.to_string())?;
    p.set(ParameterId::InitialMaxStreamsUni, vi(su)).map_err(|e| e.to_string())?;
    Ok(())
}

/// Counts how often it is woken.
struct CountWaker(AtomicU64);
impl Wake for CountWaker {
    fn wake(self: Arc<Self>) {
        self.0.fetch_add(1, Ordering::SeqCst);
    }
    fn wake_by_ref(self: &Arc<Self>) {
        self.0.fetch_add(1, Ordering::SeqCst);
    }
}

/// The peer's transport parameters while they have not been handed to `ArcParameters` yet.
enum Peer {
    Client(ClientParameters),
    Server(ServerParameters),
}

pub struct Ep {
    role: Role,
    // ---- the peer's transport parameters arrive later (`einitlate`) ----
    late: Option<Peer>,         // not yet given to `recv_remote_params`
    peer_cid: ConnectionId,
    got_params: bool,
    got_scid: bool,
    ready: bool,                // monitor view: both happened
    accept_waiting: [Option<Arc<CountWaker>>; 2], // waker of the last accept poll that returned Pending
    accept_polls: [u64; 2],
    ds: DataStreams<Rec12>,
    params: ArcParameters,
    rec: Rec12,
    strat: Strat,
    keep_r: Vec<Reader<Ext<Rec12>>>,
    keep_w: Vec<Writer<Ext<Rec12>>>,
    // ---- monitor state (RFC view only) ----
    granted: [u64; 2],          // what the peer allows us
    late_granted: [u64; 2],     // … once its parameters are ready
    opened: [u64; 2],
    advertised: [u64; 2],       // what we allowed the peer (largest ever)
    offered: [u64; 2],          // number of peer streams handed to the application, per kind
    used_hi: [u64; 2],          // highest peer stream index legally used + 1
    rx: BTreeMap<u64, RxMon>,   // receiving parts we know about
}

#[derive(Default, Clone)]
struct RxMon {
    received: u64,      // largest end offset of any accepted frame (empty ones included)
    received_data: u64, // largest end offset of accepted non-empty data
    fin: Option<u64>,
    all: Vec<(u64, u64)>, // accepted non-empty ranges (to know when everything has arrived)
    closed: bool,
}

impl RxMon {
    fn complete(&self) -> bool {
        let Some(f) = self.fin else { return false };
        let mut r = self.all.clone();
        r.sort();
        let mut hi = 0;
        for (a, b) in r {
            if a > hi {
                return false;
            }
            hi = hi.max(b);
        }
        hi >= f
    }
}

fn cx() -> Context<'static> {
    Context::from_waker(futures::task::noop_waker_ref())
}

/// Endpoint wired like `qconnection/src/builder.rs` without remembered parameters: `DataStreams` from the
/// local parameters and the all-default peer parameters, then `revise_params(false, peer parameters)`.
/// `Err` = a panic on the way (message).
pub fn endpoint(role: Role, lb: u64, lu: u64, pb: u64, pu: u64, win: [u64; 3], strat: Strat) -> Result<Ep, String> {
    endpoint_with(role, lb, lu, pb, pu, win, strat, false)
}

/// `late`: stop before the peer's transport parameters are received — the real `ArcParameters` stays in its
/// pending state (`get_remote` = `None`, `poll_ready` = `Pending`) until `Ep::rparams` and `Ep::rscid` ran
/// (TLS and packet parsing run in parallel: frames and `accept_*` polls can come first).
pub fn endpoint_with(role: Role, lb: u64, lu: u64, pb: u64, pu: u64, win: [u64; 3], strat: Strat, late: bool) -> Result<Ep, String> {
    let rec = Rec12::default();
    let wakers = ArcSendWakers::default();
    let odcid = ConnectionId::from_slice(&[7u8; 8]);
    let cscid = ConnectionId::from_slice(&[1u8; 8]);
    let sscid = ConnectionId::from_slice(&[2u8; 8]);
    let mut cp = ClientParameters::default();
    let mut sp = ServerParameters::default();
    let big = [1 << 20, 1 << 20, 1 << 20];
    if role == Role::Client {
        fill(&mut cp, win, lb, lu)?;
        fill(&mut sp, big, pb, pu)?;
    } else {
        fill(&mut sp, win, lb, lu)?;
        fill(&mut cp, big, pb, pu)?;
    }
    cp.set(ParameterId::InitialSourceConnectionId, cscid).unwrap();
    sp.set(ParameterId::InitialSourceConnectionId, sscid).unwrap();
    sp.set(ParameterId::OriginalDestinationConnectionId, odcid).unwrap();
    let rec2 = rec.clone();
    let r = catch(move || {
        if role == Role::Client {
            let ds = DataStreams::new(Role::Client, &cp, &ServerParameters::default(), strat.make(lb, lu), rec2.clone(), wakers.clone(), None);
            let mut ps = qbase::param::Parameters::new_client(cp, None, odcid);
            if late {
                return Ok::<_, String>((ds, ArcParameters::from(ps), Some(Peer::Server(sp)), sscid));
            }
            ps.recv_remote_params(sp.clone()).map_err(|e| format!("params:{e}"))?;
            ps.initial_scid_from_peer_need_equal(sscid).unwrap();
            ds.revise_params(false, &sp);
            Ok::<_, String>((ds, ArcParameters::from(ps), None, sscid))
        } else {
            let ds = DataStreams::new(Role::Server, &sp, &ClientParameters::default(), strat.make(lb, lu), rec2.clone(), wakers.clone(), None);
            let mut ps = qbase::param::Parameters::new_server(sp);
            if late {
                return Ok((ds, ArcParameters::from(ps), Some(Peer::Client(cp)), cscid));
            }
            ps.recv_remote_params(cp.clone()).map_err(|e| format!("params:{e}"))?;
            ps.initial_scid_from_peer_need_equal(cscid).unwrap();
            ds.revise_params(false, &cp);
            Ok((ds, ArcParameters::from(ps), None, cscid))
        }
    });
    match r {
        Ok(Ok((ds, params, peer, peer_cid))) => Ok(Ep {
            role,
            late: peer,
            peer_cid,
            got_params: !late,
            got_scid: !late,
            ready: !late,
            accept_waiting: [None, None],
            accept_polls: [0, 0],
            ds,
            params,
            rec,
            strat,
            keep_r: vec![],
            keep_w: vec![],
            granted: if late { [0, 0] } else { [pb, pu] },
            late_granted: [pb, pu],
            opened: [0, 0],
            advertised: [lb, lu],
            offered: [0, 0],
            used_hi: [0, 0],
            rx: BTreeMap::new(),
        }),
        Ok(Err(e)) => Err(e),
        Err(p) => Err(format!("PANIC:{p}")),
    }
}

#[derive(Clone, Copy, PartialEq, Eq, Debug)]
pub enum Kind {
    Stream,
    Reset,
    Stop,
    MaxSd,
    Sdb,
}

impl Kind {
    fn name(self) -> &'static str {
        match self { Kind::Stream => "stream", Kind::Reset => "reset", Kind::Stop => "stop", Kind::MaxSd => "maxsd", Kind::Sdb => "sdb" }
    }
    /// RFC 9000 §19.4/§19.8/§19.13: frames sent by the SENDER of stream data (they address our receiving
    /// part); §19.5/§19.10: frames sent by the RECEIVER of stream data (they address our sending part).
    fn from_data_sender(self) -> bool {
        matches!(self, Kind::Stream | Kind::Reset | Kind::Sdb)
    }
}

fn kind_tok(k: ErrorKind) -> String {
    format!("{:?}", k)
}

impl Ep {
    fn peer(&self) -> Role {
        other(self.role)
    }

    /// RFC 9000 §2.1 / §3, written for the endpoint under test: is this frame kind legal on a stream of
    /// this initiator and direction?
    fn rfc_direction_ok(&self, k: Kind, sid: StreamId) -> bool {
        let local = sid.role() == self.role;
        match sid.dir() {
            Dir::Bi => true,
            // unidirectional: data flows from the initiator to its peer
            Dir::Uni => {
                if k.from_data_sender() { !local } else { local }
            }
        }
    }

    fn ms_toks(&mut self, sink: &mut Sink) -> String {
        let mut out = String::new();
        for (k, d, v) in self.rec.take() {
            if k == 'M' {
                out.push_str(&format!(" ms={}:{}", dn(d), v));
                if v > (1 << 60) {
                    sink.monitor_fail(&format!("max_streams_frame_over_2^60:{}", self.strat.key()), &format!("MAX_STREAMS({}) {} emitted", dn(d), v));
                }
                let i = d as usize;
                self.advertised[i] = self.advertised[i].max(v);
            }
        }
        out
    }

    fn open(&mut self, sink: &mut Sink, dir: Dir) {
        let op = format!("open {}", dn(dir));
        sink.pending(&op);
        self.rec.take();
        let ds = self.ds.clone();
        let params = self.params.clone();
        let r = catch(move || match dir {
            Dir::Bi => {
                let mut fut = ds.open_bi(&params);
                match Pin::new(&mut fut).poll(&mut cx()) {
                    Poll::Ready(Ok(Some((sid, (r, w))))) => (Some(Some(sid)), Some(r), Some(w)),
                    Poll::Ready(Ok(None)) => (Some(None), None, None),
                    _ => (None, None, None),
                }
            }
            Dir::Uni => {
                let mut fut = ds.open_uni(&params);
                match Pin::new(&mut fut).poll(&mut cx()) {
                    Poll::Ready(Ok(Some((sid, w)))) => (Some(Some(sid)), None, Some(w)),
                    Poll::Ready(Ok(None)) => (Some(None), None, None),
                    _ => (None, None, None),
                }
            }
        });
        let i = dir as usize;
        match r {
            Ok((Some(Some(sid)), rd, wr)) => {
                sink.branch("open:sid");
                if let Some(r) = rd { self.keep_r.push(r); }
                if let Some(w) = wr { self.keep_w.push(w); }
                if sid.role() != self.role || sid.dir() != dir || sid.id() != self.opened[i] {
                    sink.monitor_fail("open_wrong_id", &format!("open {} returned stream {}", dn(dir), u64::from(sid)));
                }
                if sid.id() >= self.granted[i] {
                    sink.monitor_fail("open_beyond_limit", &format!("opened {} stream index {} with the peer's limit at {}", dn(dir), sid.id(), self.granted[i]));
                }
                self.opened[i] += 1;
                if dir == Dir::Bi {
                    self.rx.insert(u64::from(sid), RxMon::default());
                }
                sink.line(&op, &format!("sid={}", u64::from(sid)));
            }
            Ok((Some(None), ..)) => {
                sink.branch("open:none");
                sink.line(&op, "none");
            }
            Ok((None, ..)) => {
                sink.branch("open:pending");
                let sb: Vec<u64> = self.rec.take().iter().filter(|(k, d, _)| *k == 'B' && *d == dir).map(|x| x.2).collect();
                sink.line(&op, &format!("pending sb={}", sb.iter().map(|v| v.to_string()).collect::<Vec<_>>().join("+")));
            }
            Err(_) => {
                sink.branch("open:panic");
                sink.line(&op, "PANIC");
            }
        }
    }

    /// A peer frame. `a`,`b`: stream = offset,len; reset = final size; maxsd/sdb = value.
    fn frame(&mut self, sink: &mut Sink, k: Kind, sid: u64, a: u64, b: u64, fin: bool) {
        let s = StreamId::from(vi(sid));
        let op = match k {
            Kind::Stream => format!("stream {} {} {} {}", sid, a, b, fin as u8),
            Kind::Reset => format!("reset {} {}", sid, a),
            Kind::Stop => format!("stop {}", sid),
            Kind::MaxSd => format!("maxsd {} {}", sid, a),
            Kind::Sdb => format!("sdb {} {}", sid, a),
        };
        sink.pending(&op);
        let ds = self.ds.clone();
        let res = catch(move || match k {
            Kind::Stream => {
                let mut f = StreamFrame::new(s, a, b as usize);
                f.set_eos_flag(fin);
                ds.recv_data((f, Bytes::from(vec![0u8; b as usize])))
            }
            Kind::Reset => ds.recv_stream_control(StreamCtlFrame::ResetStream(ResetStreamFrame::new(s, vi(7), vi(a)))),
            Kind::Stop => ds.recv_stream_control(StreamCtlFrame::StopSending(StopSendingFrame::new(s, vi(9)))),
            Kind::MaxSd => ds.recv_stream_control(StreamCtlFrame::MaxStreamData(MaxStreamDataFrame::new(s, vi(a)))),
            Kind::Sdb => ds.recv_stream_control(StreamCtlFrame::StreamDataBlocked(StreamDataBlockedFrame::new(s, vi(a)))),
        });
        let local = s.role() == self.role;
        let i = s.dir() as usize;
        let ln = if local { "local" } else { "remote" };
        let cell = format!("{}:{}:{}", k.name(), ln, dn(s.dir()));
        let dir_ok = self.rfc_direction_ok(k, s);
        let adv = self.advertised[i]; // before this frame's own MAX_STREAMS
        let ms = self.ms_toks(sink);
        let obs = match &res {
            Ok(Ok(n)) => format!("ok={}{}", n, ms),
            Ok(Err(e)) => format!("err {}", kind_tok(e.kind())),
            Err(_) => "PANIC".to_string(),
        };
        sink.branch(&format!("{}:{}", cell, match &res { Ok(Ok(_)) => "ok".to_string(), Ok(Err(e)) => kind_tok(e.kind()), Err(_) => "PANIC".into() }));
        let errk = match &res { Ok(Err(e)) => Some(e.kind()), _ => None };
        // ---- monitors ----
        if res.is_err() {
            sink.monitor_fail(&format!("panic:{}", cell), &format!("{} panicked", op));
        }
        // direction (RFC 9000 §19.4/5/8/10/13)
        if !dir_ok && errk != Some(ErrorKind::StreamState) {
            sink.monitor_fail(&format!("direction:{}:accepted", cell), &format!("{} => {} (RFC 9000: STREAM_STATE_ERROR)", op, obs));
        }
        // RFC 9000 §19.5/§19.8/§19.10: STREAM / STOP_SENDING / MAX_STREAM_DATA for a locally initiated stream
        // that has not yet been created is a STREAM_STATE_ERROR too (the only other legal source of it)
        let not_created = local && matches!(k, Kind::Stream | Kind::Stop | Kind::MaxSd) && s.id() >= self.opened[i];
        if dir_ok && !not_created && errk == Some(ErrorKind::StreamState) {
            sink.monitor_fail(&format!("direction:{}:rejected", cell), &format!("{} => {} (legal on that stream type, stream open)", op, obs));
        }
        if dir_ok && !local {
            // stream limit (RFC 9000 §4.6)
            if s.id() >= adv && errk != Some(ErrorKind::StreamLimit) {
                let key = if s.id() == adv { "peer_over_limit_accepted:eq" } else { "peer_over_limit_accepted:gt" };
                sink.monitor_fail(key, &format!("{} => {}: peer stream index {} used although only {} {} streams were ever allowed", op, obs, s.id(), adv, dn(s.dir())));
            }
            if s.id() < adv && errk == Some(ErrorKind::StreamLimit) {
                sink.monitor_fail(&format!("conformant_peer_rejected:{}", self.strat.key()), &format!("{} => {}: {} {} streams were allowed", op, obs, adv, dn(s.dir())));
            }
            if errk != Some(ErrorKind::StreamLimit) && res.is_ok() {
                // implicitly opens everything below (RFC 9000 §3.2)
                for idx in self.used_hi[i]..=s.id() {
                    let id = (idx << 2) | (sid & 3);
                    self.rx.entry(id).or_default();
                }
                self.used_hi[i] = self.used_hi[i].max(s.id() + 1);
            }
        }
        if dir_ok && not_created && res.as_ref().is_ok_and(|r| r.is_ok()) {
            // RFC 9000 §19.5/§19.8/§19.10: locally initiated stream that has not yet been created
            sink.monitor_fail(&format!("not_yet_created:{}", k.name()), &format!("{} => {}: stream index {} was never opened by this endpoint ({} opened; RFC 9000: STREAM_STATE_ERROR)", op, obs, s.id(), self.opened[i]));
        }
        // final size (RFC 9000 §4.5) on receiving parts that are still open
        if dir_ok && matches!(k, Kind::Stream | Kind::Reset) && errk != Some(ErrorKind::StreamLimit) {
            if let Some(m) = self.rx.get_mut(&sid) {
                if !m.closed {
                    let (viol, clause) = match k {
                        Kind::Stream => {
                            let end = a + b;
                            match m.fin {
                                None => (fin && end < m.received_data, "a:final_size_below_received"),
                                Some(f) => {
                                    if end > f { (true, "b:data_beyond_final_size") } else { (fin && end != f, "c:final_size_changed") }
                                }
                            }
                        }
                        _ => match m.fin {
                            None => (a < m.received_data, "a:reset_below_received"),
                            Some(f) => (a != f, "c:reset_changes_final_size"),
                        },
                    };
                    if viol && errk.is_none() && res.is_ok() {
                        sink.monitor_fail(&format!("final_size:{}:accepted", clause), &format!("{} => {} (received {}, final {:?}; RFC 9000 §4.5: FINAL_SIZE_ERROR)", op, obs, m.received, m.fin));
                    }
                    // an empty frame without FIN at an offset beyond all data: whether it counts as "received"
                    // is not settled by the RFC text; neither verdict is reported (docs/C12.md, observations)
                    let edge = m.fin.is_none() && (if k == Kind::Stream { fin && a + b < m.received } else { a < m.received }) && !viol;
                    if edge { sink.branch("final_size:empty_frame_edge"); }
                    if !viol && !edge && errk == Some(ErrorKind::FinalSize) {
                        sink.monitor_fail("final_size:spurious", &format!("{} => {} (received {}, final {:?})", op, obs, m.received, m.fin));
                    }
                    if viol { sink.branch(&format!("final_size:{}", clause)); }
                    if errk.is_none() && res.is_ok() {
                        match k {
                            Kind::Stream => {
                                m.received = m.received.max(a + b);
                                if b > 0 { m.all.push((a, a + b)); m.received_data = m.received_data.max(a + b); }
                                if fin { m.fin = Some(a + b); }
                                if m.complete() { m.closed = true; }
                            }
                            _ => m.closed = true,
                        }
                    } else if k == Kind::Reset {
                        m.closed = true; // a refused RESET_STREAM is a connection error: nothing more is judged on this stream
                    }
                }
            }
        }
        sink.line(&op, &obs);
        self.check_accept_woken(sink);
    }

    fn maxstreams(&mut self, sink: &mut Sink, dir: Dir, v: u64) {
        let op = format!("maxstreams {} {}", dn(dir), v);
        sink.pending(&op);
        let ds = self.ds.clone();
        match catch(move || ds.recv_stream_control(StreamCtlFrame::MaxStreams(MaxStreamsFrame::with(dir, vi(v))))) {
            Ok(_) => {
                let i = dir as usize;
                self.granted[i] = self.granted[i].max(v);
                sink.line(&op, "ok=0");
            }
            Err(_) => sink.line(&op, "PANIC"),
        }
    }

    fn blocked(&mut self, sink: &mut Sink, dir: Dir, v: u64) {
        let op = format!("blocked {} {}", dn(dir), v);
        sink.pending(&op);
        let ds = self.ds.clone();
        match catch(move || ds.recv_stream_control(StreamCtlFrame::StreamsBlocked(StreamsBlockedFrame::with(dir, vi(v))))) {
            Ok(_) => {
                let ms = self.ms_toks(sink);
                sink.line(&op, &format!("ok=0{}", ms));
            }
            Err(_) => {
                sink.monitor_fail(&format!("panic:streams_blocked:{}", self.strat.key()), &format!("STREAMS_BLOCKED({}) {} panics", dn(dir), v));
                sink.line(&op, "PANIC");
            }
        }
    }

    /// The application accepts everything the listener holds.
    fn drain(&mut self, sink: &mut Sink) {
        sink.pending("drain");
        // the listener keeps only the waker of the LAST poll: these polls supersede a waiting single accept
        self.accept_waiting = [None, None];
        let mut bi = vec![];
        let mut uni = vec![];
        loop {
            let mut fut = self.ds.accept_bi(&self.params);
            match Pin::new(&mut fut).poll(&mut cx()) {
                Poll::Ready(Ok((sid, (r, w)))) => {
                    bi.push(u64::from(sid));
                    self.keep_r.push(r);
                    self.keep_w.push(w);
                }
                _ => break,
            }
        }
        loop {
            let mut fut = self.ds.accept_uni();
            match Pin::new(&mut fut).poll(&mut cx()) {
                Poll::Ready(Ok((sid, r))) => {
                    uni.push(u64::from(sid));
                    self.keep_r.push(r);
                }
                _ => break,
            }
        }
        // RFC 9000 §3.2 + the property: each peer stream is offered exactly once, lower-numbered ones first
        for (i, (list, d)) in [(&bi, Dir::Bi), (&uni, Dir::Uni)].into_iter().enumerate() {
            for v in list.iter() {
                self.note_accepted(sink, d, *v);
            }
            // bidirectional streams cannot be handed out before the peer's parameters are ready (their send
            // window is unknown): nothing is due yet, but nothing may be lost either (checked once ready)
            if (d == Dir::Uni || self.ready) && self.offered[i] < self.used_hi[i] {
                sink.monitor_fail("implicit_open:missing", &format!("peer used {} stream index {} but only {} streams were offered to the application", dn(d), self.used_hi[i] - 1, self.offered[i]));
            }
        }
        let tok = |l: &Vec<u64>| if l.is_empty() { "-".to_string() } else { l.iter().map(|v| v.to_string()).collect::<Vec<_>>().join(",") };
        sink.line("drain", &format!("bi={} uni={}", tok(&bi), tok(&uni)));
    }
}

impl Ep {
    /// One stream came out of `accept_*`: it must be the lowest peer stream of its kind not handed out yet.
    fn note_accepted(&mut self, sink: &mut Sink, d: Dir, v: u64) {
        let i = d as usize;
        let want = (self.offered[i] << 2) | ((d as u64) << 1) | (self.peer() as u64);
        if v != want {
            let key = if v < want { "implicit_open:dup" } else { "implicit_open:gap" };
            sink.monitor_fail(key, &format!("accept_{} yielded stream {} where {} was due", dn(d), v, want));
        }
        self.offered[i] = self.offered[i].max((v >> 2) + 1);
    }

    /// ONE poll of `accept_bi` / `accept_uni` with a fresh counting waker.
    fn accept(&mut self, sink: &mut Sink, d: Dir) {
        let i = d as usize;
        let op = format!("accept{}", dn(d));
        sink.pending(&op);
        let cw = Arc::new(CountWaker(AtomicU64::new(0)));
        let waker = Waker::from(cw.clone());
        let mut cx = Context::from_waker(&waker);
        self.accept_polls[i] += 1;
        let got = match d {
            Dir::Bi => {
                let mut fut = self.ds.accept_bi(&self.params);
                match Pin::new(&mut fut).poll(&mut cx) {
                    Poll::Ready(Ok((sid, (r, w)))) => { self.keep_r.push(r); self.keep_w.push(w); Some(u64::from(sid)) }
                    _ => None,
                }
            }
            Dir::Uni => {
                let mut fut = self.ds.accept_uni();
                match Pin::new(&mut fut).poll(&mut cx) {
                    Poll::Ready(Ok((sid, r))) => { self.keep_r.push(r); Some(u64::from(sid)) }
                    _ => None,
                }
            }
        };
        match got {
            Some(v) => {
                sink.branch(&format!("accept:{}:{}", dn(d), if self.ready { "ready" } else { "before_params" }));
                if d == Dir::Bi && !self.ready {
                    sink.monitor_fail("accept_bi:before_params_ready", &format!("accept_bi yielded stream {} although the peer's transport parameters (its send window) are not known yet", v));
                }
                self.accept_waiting[i] = None;
                self.note_accepted(sink, d, v);
                sink.line(&op, &format!("sid={}", v));
            }
            None => {
                let due = self.used_hi[i] > self.offered[i];
                sink.branch(&format!("accept:{}:pending:{}", dn(d), if !due { "nothing_due" } else if self.ready { "due" } else { "due_before_params" }));
                if due && (d == Dir::Uni || self.ready) {
                    sink.monitor_fail("implicit_open:withheld", &format!("accept_{} is Pending although peer stream index {} was opened and never offered", dn(d), self.offered[i]));
                }
                self.accept_waiting[i] = Some(cw);
                sink.line(&op, "pending");
            }
        }
    }

    /// A waiting `accept_*` whose stream has become available must have been woken (no lost wake-up).
    fn check_accept_woken(&mut self, sink: &mut Sink) {
        for (i, d) in [(0usize, Dir::Bi), (1usize, Dir::Uni)] {
            if let Some(cw) = &self.accept_waiting[i] {
                if self.used_hi[i] > self.offered[i] && (d == Dir::Uni || self.ready) && cw.0.load(Ordering::SeqCst) == 0 {
                    sink.monitor_fail(&format!("accept_{}:lost_wakeup", dn(d)), &format!("accept_{} returned Pending, peer stream index {} is available now, its waker was never woken", dn(d), self.offered[i]));
                    self.accept_waiting[i] = None;
                }
            }
        }
    }

    fn became_ready(&mut self) -> bool {
        if self.got_params && self.got_scid && !self.ready {
            self.ready = true;
            self.granted = [self.granted[0].max(self.late_granted[0]), self.granted[1].max(self.late_granted[1])];
            true
        } else {
            false
        }
    }

    fn peer_clone(&self) -> Option<Peer> {
        match &self.late {
            Some(Peer::Client(c)) => Some(Peer::Client(c.clone())),
            Some(Peer::Server(p)) => Some(Peer::Server(p.clone())),
            None => None,
        }
    }

    /// `Parameters::recv_remote_params(peer parameters)` (`scid = false`, the TLS side) or
    /// `Parameters::initial_scid_from_peer_need_equal(cid)` (`scid = true`, the peer's first Initial packet was
    /// parsed), in either order; the connection reacts to "ready" with `DataStreams::revise_params(false, peer)`.
    fn params_event(&mut self, sink: &mut Sink, scid: bool) {
        if (scid && self.got_scid) || (!scid && self.got_params) { return; }
        let Some(peer) = self.peer_clone() else { return };
        let op = if scid { "rscid" } else { "rparams" };
        sink.pending(op);
        let params = self.params.clone();
        let ds = self.ds.clone();
        let cid = self.peer_cid;
        if scid { self.got_scid = true } else { self.got_params = true }
        let r = catch(move || {
            let mut g = params.lock_guard().map_err(|e| e.to_string())?;
            if scid {
                g.initial_scid_from_peer_need_equal(cid).map_err(|e| e.to_string())?;
            } else {
                match &peer {
                    Peer::Client(cp) => g.recv_remote_params(cp.clone()).map_err(|e| e.to_string())?,
                    Peer::Server(sp) => g.recv_remote_params(sp.clone()).map_err(|e| e.to_string())?,
                }
            }
            let rdy = g.is_remote_params_ready();
            drop(g);
            if rdy {
                match &peer {
                    Peer::Client(cp) => ds.revise_params(false, cp),
                    Peer::Server(sp) => ds.revise_params(false, sp),
                }
            }
            Ok::<bool, String>(rdy)
        });
        self.params_line(sink, op, r);
    }

    fn params_line(&mut self, sink: &mut Sink, op: &str, r: Result<Result<bool, String>, String>) {
        match r {
            Ok(Ok(rdy)) => {
                self.became_ready();
                if rdy != self.ready {
                    sink.monitor_fail("params_ready_mismatch", &format!("{}: is_remote_params_ready = {} but parameters received = {}, scid known = {}", op, rdy, self.got_params, self.got_scid));
                }
                sink.branch(&format!("{}:ready={}", op, rdy as u8));
                sink.line(op, &format!("ok ready={}", rdy as u8));
                self.check_accept_woken(sink);
            }
            Ok(Err(e)) => sink.line(&format!("# {}", op), &format!("refused {}", e)),
            Err(_) => { sink.monitor_fail(&format!("panic:{}", op), "panicked"); sink.line(op, "PANIC"); }
        }
    }
}

fn einit(sink: &mut Sink, role: Role, lb: u64, lu: u64, pb: u64, pu: u64, win: [u64; 3], strat: Strat) -> Option<Ep> {
    einit_with(sink, role, lb, lu, pb, pu, win, strat, false)
}

fn einit_with(sink: &mut Sink, role: Role, lb: u64, lu: u64, pb: u64, pu: u64, win: [u64; 3], strat: Strat, late: bool) -> Option<Ep> {
    let op = format!("{} {} {} {} {} {} {},{},{} {}", if late { "einitlate" } else { "einit" }, rn(role), lb, lu, pb, pu, win[0], win[1], win[2], strat.name());
    sink.pending(&op);
    match endpoint_with(role, lb, lu, pb, pu, win, strat, late) {
        Ok(e) => {
            sink.line(&op, "ok");
            Some(e)
        }
        Err(m) => {
            if m.starts_with("PANIC") {
                sink.line(&op, "PANIC");
            } else {
                sink.line(&format!("# {}", op), &format!("refused {}", m));
            }
            None
        }
    }
}

fn case_random(sink: &mut Sink, rng: &mut Rng) {
    let role = if rng.chance(1, 2) { Role::Client } else { Role::Server };
    let strat = match rng.below(3) { 0 => Strat::Consistent, 1 => Strat::Demand, _ => Strat::Eager(rng.below(3)) };
    let (lb, lu, pb, pu) = (rng.below(6), rng.below(6), rng.below(5), rng.below(5));
    let w = |rng: &mut Rng| *rng.pick(&[0u64, 40, 120, 300, 300, 1000]);
    let win = [w(rng), w(rng), w(rng)];
    // one case in three starts BEFORE the peer's transport parameters are received (TLS and packet parsing run
    // in parallel): peer frames, accept polls and the two halves of "parameters ready" interleave freely
    let late = rng.chance(1, 3);
    let Some(mut e) = einit_with(sink, role, lb, lu, pb, pu, win, strat, late) else { return };
    let peer = other(role);
    let n = rng.range(6, 36);
    // what the generator (playing the peer) has sent per stream: (largest end, final size)
    let mut sent: BTreeMap<u64, (u64, Option<u64>)> = BTreeMap::new();
    let mut frames = 0;
    for _ in 0..n {
        let dir = if rng.chance(1, 2) { Dir::Bi } else { Dir::Uni };
        let i = dir as usize;
        // a stream id: mostly peer-initiated around the cursor / limit, sometimes ours
        let local = rng.chance(1, 4);
        let r = if local { role } else { peer };
        let idx = if local {
            rng.below(e.opened[i] + 2)
        } else {
            match rng.below(8) {
                0..=2 => e.used_hi[i].saturating_sub(rng.below(2)),
                3 => e.advertised[i] + rng.below(2),
                4 => e.advertised[i].saturating_sub(1),
                5 => rng.below(e.used_hi[i] + 1),
                _ => rng.below(7),
            }
        };
        let sid = (idx << 2) | ((dir as u64) << 1) | (r as u64);
        if late && !e.ready && rng.chance(1, 7) {
            let scid = rng.chance(1, 2);
            e.params_event(sink, scid);
            continue;
        }
        if rng.chance(1, 6) {
            e.accept(sink, dir);
            continue;
        }
        match rng.below(20) {
            0..=1 => e.open(sink, dir),
            2 => {
                let v = e.granted[i] + rng.below(3);
                e.maxstreams(sink, dir, v.saturating_sub(rng.below(2)));
            }
            3 => {
                let v = match rng.below(4) { 0 => rng.below(e.advertised[i] + 1), _ => e.advertised[i] };
                e.blocked(sink, dir, v);
            }
            4..=5 => e.drain(sink),
            6 => e.frame(sink, Kind::Stop, sid, 0, 0, false),
            7 => { let v = rng.below(2000); e.frame(sink, Kind::MaxSd, sid, v, 0, false) }
            8 => { let v = rng.below(2000); e.frame(sink, Kind::Sdb, sid, v, 0, false) }
            9..=10 => {
                let (hi, fs) = sent.get(&sid).copied().unwrap_or((0, None));
                let f = match rng.below(6) {
                    0..=2 => fs.unwrap_or(hi),
                    3 => hi.saturating_sub(1 + rng.below(5)),
                    4 => hi + rng.below(40),
                    _ => rng.below(400),
                };
                frames += 1;
                e.frame(sink, Kind::Reset, sid, f, 0, false);
            }
            _ => {
                let (hi, fs) = sent.get(&sid).copied().unwrap_or((0, None));
                let mut len = *rng.pick(&[0u64, 1, 7, 30, 64, 90]);
                let mut off = match rng.below(6) {
                    0..=2 => hi,                                  // continue
                    3 => rng.below(hi + 1),                       // overlap / retransmission
                    4 => hi + rng.below(30),                      // gap
                    _ => rng.below(350),
                };
                let mut fin = rng.chance(1, 4);
                if let Some(f) = fs {
                    // after the FIN: mostly stay inside, sometimes contradict it
                    match rng.below(6) {
                        0 => { off = f; len = 1 + rng.below(5); }                  // beyond the final size
                        1 => { fin = true; off = rng.below(f + 1); len = rng.below(5); } // possibly another final size
                        2 => { fin = true; off = f.saturating_sub(len.min(f)); len = len.min(f); } // same final size again
                        _ => { off = rng.below(f + 1); len = len.min(f - off); }
                    }
                }
                frames += 1;
                e.frame(sink, Kind::Stream, sid, off, len, fin);
                let ent = sent.entry(sid).or_insert((0, None));
                ent.0 = ent.0.max(off + len);
                if fin && ent.1.is_none() { ent.1 = Some(off + len); }
            }
        }
    }
    // end of the case: the parameters arrive at the latest now; then the application accepts everything — every
    // peer stream index below the highest one used must have come out of accept exactly once (monitors in `drain`)
    e.params_event(sink, false);
    e.params_event(sink, true);
    e.drain(sink);
    if frames >= 3 {
        sink.nontrivial();
    }
}

pub fn run_e(o: &Opts) {
    let mut sink = Sink::new_with_stats(&o.out, &o.stats);
    for c in 0..o.cases {
        if o.only_case.is_some_and(|x| x != c) {
            continue;
        }
        let mut rng = Rng::new(o.seed, c);
        sink.case(&c.to_string());
        case_random(&mut sink, &mut rng);
    }
    sink.finish(&o.stats, "a case is non-trivial when it delivers at least three STREAM / RESET_STREAM frames");
}

/// Exhaustive direction table + fixed probes.
pub fn run_d(o: &Opts) {
    let mut sink = Sink::new_with_stats(&o.out, &o.stats);
    let mut c = 0u64;
    for role in [Role::Client, Role::Server] {
        for k in [Kind::Stream, Kind::Reset, Kind::Stop, Kind::MaxSd, Kind::Sdb] {
            for local in [true, false] {
                for dir in [Dir::Bi, Dir::Uni] {
                    for created in [true, false] {
                        if !local && !created {
                            continue; // a peer stream is created by the frame itself
                        }
                        for strat in [Strat::Demand, Strat::Consistent] {
                            c += 1;
                            if o.only_case.is_some_and(|x| x != c) {
                                continue;
                            }
                            sink.case(&c.to_string());
                            sink.nontrivial();
                            let Some(mut e) = einit(&mut sink, role, 3, 3, 3, 3, [100, 100, 100], strat) else { continue };
                            if local && created {
                                e.open(&mut sink, dir);
                            }
                            let r = if local { role } else { other(role) };
                            let sid = ((dir as u64) << 1) | (r as u64);
                            let (a, b) = if k == Kind::Stream { (0, 5) } else { (5, 0) };
                            e.frame(&mut sink, k, sid, a, b, false);
                            // the same frame on the second stream of the kind, and once more on the first
                            e.frame(&mut sink, k, sid + 4, a, b, false);
                            e.frame(&mut sink, k, sid, a, b, false);
                            e.drain(&mut sink);
                        }
                    }
                }
            }
        }
    }
    // ---- fixed probes -------------------------------------------------------------------------
    // (1) DESIGN §7 item 23: initial_max_streams_* above 2^60 in the PEER's transport parameters
    for (name, v) in [("2^60-1", (1u64 << 60) - 1), ("2^60", 1u64 << 60), ("2^60+1", (1u64 << 60) + 1), ("2^61", 1u64 << 61)] {
        c += 1;
        if o.only_case.is_some_and(|x| x != c) {
            continue;
        }
        sink.case(&c.to_string());
        sink.nontrivial();
        let op = format!("einit c 3 3 {} 0 100,100,100 demand", v);
        sink.pending(&op);
        match endpoint(Role::Client, 3, 3, v, 0, [100, 100, 100], Strat::Demand) {
            Ok(_) => {
                sink.branch(&format!("probe:peer_max_streams:{}:accepted", name));
                sink.line(&op, "ok");
                if v > (1 << 60) {
                    // RFC 9000 §4.6: "If a max_streams transport parameter ... is received with a value greater
                    // than 2^60 ... the connection MUST be closed immediately (TRANSPORT_PARAMETER_ERROR)"
                    sink.monitor_fail("transport_param:max_streams>2^60:accepted", &format!("peer initial_max_streams_bidi = {} accepted", name));
                }
            }
            Err(m) if m.starts_with("PANIC") => {
                sink.branch(&format!("probe:peer_max_streams:{}:panic", name));
                sink.monitor_fail("panic:revise_params:max_streams>2^60-1", &format!("peer transport parameter initial_max_streams_bidi = {} ({}) panics in DataStreams::revise_params -> increase_limit: {}", v, name, &m[..m.len().min(120)]));
                sink.line(&op, "PANIC");
            }
            Err(m) => {
                sink.branch(&format!("probe:peer_max_streams:{}:refused", name));
                sink.line(&format!("# {}", op), &format!("refused {}", m));
            }
        }
    }
    // (3) 0-RTT rejected: the server's real limit is below the number of streams already opened
    for (remembered, real) in [(3u64, 1u64), (3, 0), (3, 3)] {
        c += 1;
        if o.only_case.is_some_and(|x| x != c) {
            continue;
        }
        sink.case(&c.to_string());
        let r = catch(|| {
            let rec = Rec12::default();
            let wakers = ArcSendWakers::default();
            let odcid = ConnectionId::from_slice(&[7u8; 8]);
            let mut cp = ClientParameters::default();
            let mut sp0 = ServerParameters::default();
            let mut sp1 = ServerParameters::default();
            fill(&mut cp, [100, 100, 100], 3, 3).unwrap();
            fill(&mut sp0, [1 << 20, 1 << 20, 1 << 20], remembered, remembered).unwrap();
            fill(&mut sp1, [1 << 20, 1 << 20, 1 << 20], real, real).unwrap();
            cp.set(ParameterId::InitialSourceConnectionId, ConnectionId::from_slice(&[1u8; 8])).unwrap();
            let ds = DataStreams::new(Role::Client, &cp, &sp0, Strat::Demand.make(3, 3), rec.clone(), wakers.clone(), None);
            let params: ArcParameters = qbase::param::Parameters::new_client(cp, Some(sp0), odcid).into();
            let mut writers = vec![];
            for _ in 0..remembered {
                let mut fut = ds.open_uni(&params);
                if let Poll::Ready(Ok(Some((sid, mut w)))) = Pin::new(&mut fut).poll(&mut cx()) {
                    w.write(Bytes::from(vec![0u8; 10])).ok();
                    writers.push((sid, w));
                }
            }
            ds.revise_params(true, &sp1); // 0-RTT rejected, the server's real parameters
            let big: qbase::flow::ArcSendControler<super::c11::Rec> = qbase::flow::ArcSendControler::new(VMAX, super::c11::Rec::default(), ArcSendWakers::default());
            let mut sids = std::collections::BTreeSet::new();
            for _ in 0..8 {
                let mut pkt = super::c11s::Pkt::new(1200);
                if ds.try_load_data_into(&mut pkt, &big, false).is_err() {
                    break;
                }
                for (s, ..) in &pkt.frames {
                    sids.insert(*s);
                }
            }
            (writers.len() as u64, sids)
        });
        match r {
            Ok((n, sids)) => {
                let over: Vec<u64> = sids.iter().copied().filter(|s| (s >> 2) >= real).collect();
                let obs = format!("opened={} frames_on={:?}", n, sids);
                sink.branch(if over.is_empty() { "probe:0rtt_rejected:within" } else { "probe:0rtt_rejected:beyond" });
                if !over.is_empty() {
                    // RFC 9000 §4.6: only streams with an id below the peer's limit may be opened / used
                    sink.monitor_fail("open_beyond_limit:0rtt_rejected", &format!("0-RTT rejected, server allows {} uni streams, {} were opened with the remembered limit {}: STREAM frames still sent on streams {:?}", real, n, remembered, over));
                }
                sink.line(&format!("# probe 0rtt remembered={} real={}", remembered, real), &obs);
            }
            Err(m) => {
                sink.monitor_fail("panic:probe:0rtt_rejected", &m);
                sink.line(&format!("# probe 0rtt remembered={} real={}", remembered, real), "PANIC");
            }
        }
    }
    // (2) the real frame parser at the 2^60 boundary: MAX_STREAMS / STREAMS_BLOCKED
    for (ty, tn) in [(0x12u8, "max_streams_bidi"), (0x16u8, "streams_blocked_bidi")] {
        for (name, v) in [("2^60-1", (1u64 << 60) - 1), ("2^60", 1u64 << 60), ("2^60+1", (1u64 << 60) + 1), ("2^62-1", VMAX)] {
            c += 1;
            if o.only_case.is_some_and(|x| x != c) {
                continue;
            }
            sink.case(&c.to_string());
            let mut raw = vec![ty];
            raw.extend_from_slice(&(v | (3u64 << 62)).to_be_bytes());
            let bytes = Bytes::from(raw);
            let r = catch(|| qbase::frame::io::be_frame(&bytes, Type::Short(qbase::packet::r#type::short::OneRtt::from(0u8))));
            let obs = match &r {
                Ok(Ok((n, _, _))) => format!("parsed used={}", n),
                Ok(Err(e)) => format!("err {}", format!("{:?}", e).split('(').next().unwrap_or("?")),
                Err(_) => "PANIC".into(),
            };
            sink.branch(&format!("probe:parse:{}:{}:{}", tn, name, obs.split(' ').next().unwrap()));
            // RFC 9000 §19.11 / §19.14: values up to and including 2^60 are legal, larger ones are
            // FRAME_ENCODING_ERROR (STREAMS_BLOCKED: STREAM_LIMIT_ERROR or FRAME_ENCODING_ERROR)
            let legal = v <= (1 << 60);
            let parsed = matches!(r, Ok(Ok(_)));
            if legal && !parsed {
                sink.monitor_fail(&format!("parse:{}:legal_value_refused", tn), &format!("{} = {} => {}", tn, name, obs));
            }
            if !legal && parsed {
                sink.monitor_fail(&format!("parse:{}:over_2^60_accepted", tn), &format!("{} = {} => {}", tn, name, obs));
            }
            sink.line(&format!("# parse {} {}", tn, v), &obs);
        }
    }
    sink.note("exhaustive", serde_json::json!(true));
    sink.finish(&o.stats, "exhaustive direction table (2 roles x 5 kinds x 2 initiators x 2 directions x created/not) + fixed probes");
}

pub const RUNS: &[(&str, fn(&Opts))] = &[("C12e", run_e), ("C12d", run_d)];
