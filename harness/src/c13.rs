//! C13: loss detection and congestion control (qcongestion: `ArcCC` with `Algorithm::NewReno`).
//!
//! Run `C13`: random + structured histories of sent / ack / tick / rcvd / discard / handshake-flag ops on a REAL
//! `ArcCC` under tokio's paused clock (nanosecond resolution), with recording `Feedback` objects.  After every
//! op the whole integer state is read through the cfg-guarded hook `ArcCC::verif_snapshot` and compared exactly
//! with the Lean model (`Model/Recovery.lean`); float-derived values (`loss_delay`, `smoothed_rtt`, `rttvar`) are
//! passed to the model as inputs (`in=`).  The monitors below keep their own books (which packets were sent,
//! covered by an ACK frame, reported lost) and evaluate each clause of the property on the real trace; they never
//! consult the model.
use std::{
    collections::BTreeMap,
    sync::{Arc, Mutex, atomic::AtomicU16},
    time::Duration,
};

use qbase::{
    Epoch,
    frame::{AckFrame, EcnCounts},
    net::tx::ArcSendWaker,
    varint::VarInt,
};
use qcongestion::{Algorithm, ArcCC, Feedback, HandshakeStatus, PathStatus, Transport};
use qevent::quic::recovery::PacketLostTrigger;
use tokio::time::Instant;

use crate::common::{catch, Opts, Rng, Sink};

struct Fb {
    epoch: usize,
    log: Arc<Mutex<Vec<(usize, Vec<u64>)>>>,
}
impl Feedback for Fb {
    fn may_loss(&self, _t: PacketLostTrigger, pns: &mut dyn Iterator<Item = u64>) {
        let v: Vec<u64> = pns.collect();
        self.log.lock().unwrap().push((self.epoch, v));
    }
}

fn site(msg: &str) -> String {
    let m = msg.to_lowercase();
    let s = if m.contains("subtract_with_overflow") { "sub" }
    else if m.contains("multiply_with_overflow") { "mul" }
    else if m.contains("add_with_overflow") { "add" }
    else if m.contains("shift_left_with_overflow") { "shl" }
    else if m.contains("unwrap()") { "unwrap" }
    else if m.contains("assertion") { "assert" }
    else if m.contains("poisonerror") { "poisoned" }
    else if m.contains("divide_by_zero") { "div0" }
    else { return format!("PANIC:other:{}", &msg[..msg.len().min(60)]); };
    format!("PANIC:{}", s)
}

#[derive(Clone, Debug)]
enum Op {
    Sent { e: usize, pn: u64, elic: bool, infl: bool, size: usize },
    /// descending inclusive ranges (lo, hi)
    Ack { e: usize, ranges: Vec<(u64, u64)>, ce: Option<u64>, delay: u64 },
    Tick(u64),
    Rcvd,
    Discard(usize),
    HsKey,
    HsAck,
    Confirmed,
    Grant,
    Limit,
    Quota,
}

const EPOCHS: [Epoch; 3] = [Epoch::Initial, Epoch::Handshake, Epoch::Data];

#[derive(Clone, Default)]
struct Rec { ts: u64, elic: bool, infl: bool, size: usize, acked: bool, lost: bool }

#[derive(Default, Clone)]
struct Snap { toks: Vec<String> }
impl Snap {
    fn get(&self, k: &str) -> Option<&str> {
        let p = format!("{}=", k);
        self.toks.iter().find(|t| t.starts_with(&p)).map(|t| &t[p.len()..])
    }
    fn num(&self, k: &str) -> u64 { self.get(k).and_then(|v| v.parse().ok()).unwrap_or(0) }
    fn opt(&self, k: &str) -> Option<u64> { self.get(k).and_then(|v| v.parse().ok()) }
    fn int_part(&self) -> String {
        const FLOATS: [&str; 6] = ["ld=", "srtt=", "rttvar=", "latest=", "minrtt=", "first="];
        self.toks.iter().filter(|t| !FLOATS.iter().any(|f| t.starts_with(f))).cloned().collect::<Vec<_>>().join(" ")
    }
}

struct Case {
    cc: ArcCC,
    hs: Arc<HandshakeStatus>,
    ps: PathStatus,
    origin: Instant,
    log: Arc<Mutex<Vec<(usize, Vec<u64>)>>>,
    server: bool,
    // monitor books
    recs: [BTreeMap<u64, Rec>; 3],
    claimed_la: [Option<u64>; 3],
    discarded: [bool; 2],
    hs_ack: bool,
    fired: std::collections::HashSet<String>,
    aa_limit: bool,
    confirmed: bool,
    last_shrink: Option<u64>,
    strict: bool, // well-formed history: monitors for panics apply
    n_lost: u64,
    n_acked: u64,
    n_pto: u64,
}

impl Case {
    fn fired_cap(&self, sink: &Sink, key: &str) -> bool {
        sink.monitor_failures.iter().filter(|m| m["key"] == key).count() >= 100
    }
}

fn now_ns(origin: Instant) -> u64 { Instant::now().saturating_duration_since(origin).as_nanos() as u64 }

fn snap_of(c: &Case) -> Snap {
    Snap { toks: c.cc.verif_snapshot(c.origin).split(' ').map(|s| s.to_string()).collect() }
}

fn mk_ack(ranges: &[(u64, u64)], ce: Option<u64>, delay: u64) -> AckFrame {
    let v = |x: u64| VarInt::from_u64(x).unwrap();
    let (lo0, hi0) = ranges[0];
    let mut rest = vec![];
    let mut prev_lo = lo0;
    for &(lo, hi) in &ranges[1..] {
        rest.push((v(prev_lo - hi - 2), v(hi - lo)));
        prev_lo = lo;
    }
    AckFrame::new(v(hi0), v(delay), v(hi0 - lo0), rest, ce.map(|c| EcnCounts::new(v(0), v(0), v(c))))
}

fn op_text(op: &Op) -> String {
    match op {
        Op::Sent { e, pn, elic, infl, size } => format!("sent {} {} {} {} {}", e, pn, *elic as u8, *infl as u8, size),
        Op::Ack { e, ranges, ce, delay } => format!(
            "ack {} {} {} {} {}", e, ranges[0].1, ce.map(|c| c.to_string()).unwrap_or("-".into()),
            ranges.iter().map(|(a, b)| format!("{}-{}", a, b)).collect::<Vec<_>>().join(","), delay),
        Op::Tick(d) => format!("tick {}", d),
        Op::Rcvd => "rcvd".into(),
        Op::Discard(e) => format!("discard {}", e),
        Op::HsKey => "hskey".into(),
        Op::HsAck => "hsack".into(),
        Op::Confirmed => "confirmed".into(),
        Op::Grant => "grant".into(),
        Op::Limit => "limit".into(),
        Op::Quota => "quota".into(),
    }
}

/// apply one op to the real controller, write the line, run the monitors.  Returns false when the case is dead.
async fn apply(c: &mut Case, sink: &mut Sink, op: &Op) -> bool {
    let pre = snap_of(c);
    let text = op_text(op);
    if let Op::Tick(d) = op { tokio::time::advance(Duration::from_nanos(*d)).await; }
    let now = now_ns(c.origin);
    sink.pending(&text);
    c.log.lock().unwrap().clear();
    let pto_pre: Vec<u128> = EPOCHS.iter().map(|e| c.cc.get_pto(*e).as_nanos()).collect();
    let mut result = "ok".to_string();
    let mut quota: Option<Result<usize, ()>> = None;
    let r = catch(|| match op {
        Op::Sent { e, pn, elic, infl, size } => c.cc.on_pkt_sent(EPOCHS[*e], *pn, *elic, *size, *infl, None),
        Op::Ack { e, ranges, ce, delay } => c.cc.on_ack_rcvd(EPOCHS[*e], &mk_ack(ranges, *ce, *delay)),
        Op::Tick(_) => { if let Err(err) = c.cc.do_tick() { result = format!("{}", err).replace("Too many PTOs: ", "toomany:"); } }
        Op::Rcvd => c.cc.on_pkt_rcvd(Epoch::Data, 0, true),
        Op::Discard(e) => c.cc.discard_epoch(EPOCHS[*e]),
        Op::HsKey => c.hs.got_handshake_key(),
        Op::HsAck => c.hs.received_handshake_ack(),
        Op::Confirmed => c.hs.handshake_confirmed(),
        Op::Grant => c.cc.grant_anti_amplification(),
        Op::Limit => c.ps.enter_anti_amplification_limit(),
        Op::Quota => { quota = Some(c.cc.send_quota().map_err(|_| ())); }
    });
    if let Err(m) = r {
        let s = site(&m);
        sink.branch(&format!("panic:{}", s));
        let inp = format!("in={},{},{},{},{},{}", pre.num("ld"), pre.num("ld"), pre.num("srtt"), pre.num("rttvar"), pre.num("srtt"), pre.num("rttvar"));
        sink.line(&text, &format!("{} r={}", inp, s));
        if c.strict { sink.monitor_fail(&format!("panic:{}:{}", op_text(op).split(' ').next().unwrap(), s), &format!("panic on a well-formed history: {}", m)); }
        return false;
    }
    let post = snap_of(c);
    let lost: Vec<(usize, Vec<u64>)> = c.log.lock().unwrap().clone();
    let lost_s = if lost.is_empty() { "-".to_string() } else {
        lost.iter().map(|(e, v)| format!("{}:{}", e, v.iter().map(|x| x.to_string()).collect::<Vec<_>>().join("."))).collect::<Vec<_>>().join(";")
    };
    let q_s = match quota { Some(Ok(n)) => format!(" q={}", n), Some(Err(())) => " q=blocked".to_string(), None => String::new() };
    let inp = format!("in={},{},{},{},{},{}", pre.num("ld"), post.num("ld"), pre.num("srtt"), pre.num("rttvar"), post.num("srtt"), post.num("rttvar"));
    sink.line(&text, &format!("{}{} r={} lost={} {}", inp, q_s, result, lost_s, post.int_part()));

    // ---------------- monitors (own books + implementation snapshot only) ----------------
    let mut fails: Vec<(String, String)> = vec![];
    let disc_before = c.discarded;
    let validated_before = c.server || c.hs_ack || c.confirmed;
    let (cw0, cw1) = (pre.num("cwnd"), post.num("cwnd"));
    let mds = post.num("mds");
    let mut newly_acked: Vec<Rec> = vec![];
    let mut ecn_trigger: Option<u64> = None;
    match op {
        Op::Sent { e, pn, elic, infl, size } => {
            c.recs[*e].insert(*pn, Rec { ts: now, elic: *elic, infl: *infl, size: *size, acked: false, lost: false });
            if *e == 1 && !c.server {
                // clause 3c: the backoff survives sending (Initial keys can only be discarded once)
                if c.discarded[0] && post.num("pto") < pre.num("pto") {
                    fails.push(("pto_reset_on_send".to_string(), format!("client sent Handshake pn {}: pto_count {} -> {} although the Initial space was discarded before", pn, pre.num("pto"), post.num("pto"))));
                }
                c.recs[0].clear();
                c.discarded[0] = true;
            }
        }
        Op::Ack { e, ranges, ce, .. } => {
            c.claimed_la[*e] = Some(c.claimed_la[*e].map_or(ranges[0].1, |x| x.max(ranges[0].1)));
            for (pn, r) in c.recs[*e].iter_mut() {
                if ranges.iter().any(|(lo, hi)| lo <= pn && pn <= hi) && !r.acked {
                    r.acked = true;
                    newly_acked.push(r.clone());
                    c.n_acked += 1;
                }
            }
            if ce.is_some() { ecn_trigger = newly_acked.iter().map(|r| r.ts).max(); }
            if *e == 1 && c.server { c.recs[0].clear(); c.discarded[0] = true; }
        }
        Op::Discard(e) => { c.recs[*e].clear(); if *e < 2 { c.discarded[*e] = true; } }
        Op::HsAck => c.hs_ack = true,
        Op::Grant => c.aa_limit = false,
        Op::Limit => c.aa_limit = true,
        Op::Confirmed => c.confirmed = true,
        _ => {}
    }
    // clause 1+2: declared lost only with a later ack and one of the two thresholds; never after an ack
    let ld = pre.num("ld").min(post.num("ld"));
    let mut lost_ts: Vec<u64> = vec![];
    for (e, pns) in &lost {
        for pn in pns {
            c.n_lost += 1;
            let largest_acked = c.recs[*e].iter().filter(|(_, r)| r.acked).map(|(p, _)| *p).max();
            if let Some(r) = c.recs[*e].get_mut(pn) {
                lost_ts.push(r.ts);
                if r.acked { fails.push(("lost_after_ack".to_string(), format!("epoch {} pn {} reported lost after an ACK frame covered it", e, pn))); }
                let later = largest_acked.is_some_and(|la| la > *pn) || (!c.strict && c.claimed_la[*e].is_some_and(|la| la >= *pn));
                if !later {
                    fails.push(("lost_without_later_ack".to_string(), format!("epoch {} pn {} reported lost at t={} (sent {}), no later packet acknowledged", e, pn, now, r.ts)));
                } else {
                    let pkt_thr = c.claimed_la[*e].is_some_and(|la| la >= *pn + 3);
                    let time_thr = now.saturating_sub(r.ts) >= ld;
                    if !pkt_thr && !time_thr { fails.push(("lost_below_both_thresholds".to_string(), format!("epoch {} pn {} lost: largest acked {:?}, age {} < loss delay {}", e, pn, largest_acked, now - r.ts, ld))); }
                }
                r.lost = true;
            } else {
                fails.push(("lost_unknown_packet".to_string(), format!("epoch {} pn {} reported lost but is not outstanding", e, pn)));
            }
        }
    }
    // clause 3: every ack-eliciting in-flight packet is acked, lost or a timer is armed
    let timer = post.opt("timer");
    let arming_op = match op {
        Op::Sent { infl, .. } => *infl,
        // a packet reported lost before may already have left the implementation's list: only the
        // acknowledgement of a still outstanding packet is sure to reach set_loss_detection_timer
        Op::Ack { .. } => newly_acked.iter().any(|r| !r.lost),
        Op::Tick(_) => post.num("pto") != pre.num("pto") || !lost.is_empty(),
        Op::Rcvd | Op::Discard(_) => true,
        _ => false,
    };
    for e in 0..3 {
        if !arming_op { break; }
        if e == 2 && !c.confirmed { continue; }
        let open = c.recs[e].values().any(|r| r.elic && r.infl && !r.acked && !r.lost);
        if open && timer.is_none() && !c.aa_limit {
            fails.push(("outstanding_no_timer".to_string(), format!("epoch {}: ack-eliciting packet outstanding, not at the anti-amplification limit, no timer armed", e)));
        }
    }
    // clause 3b: consecutive probe timeouts double the interval (same RTT estimate)
    if let Op::Tick(_) = op {
        if post.num("pto") == pre.num("pto") + 1 && pre.get("srtt") == post.get("srtt") && pre.get("rttvar") == post.get("rttvar") {
            c.n_pto += 1;
            for (i, e) in EPOCHS.iter().enumerate() {
                let p1 = c.cc.get_pto(*e).as_nanos();
                if p1 != 2 * pto_pre[i] {
                    fails.push(("pto_not_doubled".to_string(), format!("epoch {}: PTO interval {} ns after {} ns (pto_count {} -> {})", i, p1, pto_pre[i], pre.num("pto"), post.num("pto"))));
                    break;
                }
            }
        }
    }
    // clause 3d: the backoff is forgotten only by an acknowledgement of new data from a peer that completed address
    // validation, or by discarding a packet number space for the first time (sends are covered by clause 3c)
    if post.num("pto") < pre.num("pto") {
        let legit = match op {
            Op::Ack { e, .. } => (!newly_acked.is_empty() && validated_before) || (*e == 1 && c.server && !disc_before[0]),
            Op::Discard(e) => *e < 2 && !disc_before[*e],
            Op::Sent { e, .. } => *e == 1 && !c.server,
            _ => false,
        };
        if !legit {
            fails.push(("pto_backoff_forgotten".to_string(), format!("pto_count {} -> {} on `{}` (validated peer: {}, newly acknowledged: {}, first discard: {})", pre.num("pto"), post.num("pto"), text, validated_before, newly_acked.len(), !disc_before[0])));
        }
    }
    // clause 3e: after a probe timeout the timer is armed one (doubled) PTO period after the reference instant
    if let Op::Tick(_) = op {
        let lt_none = (0..3).all(|i| post.get(&format!("sp{}", i)).is_some_and(|v| v.split(';').nth(2) == Some("-")));
        if post.num("pto") == pre.num("pto") + 1 && lt_none {
            if let Some(t) = timer {
                let mut ok = false;
                for (i, e) in EPOCHS.iter().enumerate() {
                    let g = c.cc.get_pto(*e).as_nanos() as u64;
                    if i < 2 && t == now + g { ok = true; }
                    let tl = post.get(&format!("sp{}", i)).and_then(|v| v.split(';').nth(1).and_then(|x| x.parse::<u64>().ok()));
                    if tl.is_some_and(|tl| t == tl + g) { ok = true; }
                }
                if !ok { fails.push(("pto_timer_not_backed_off".to_string(), format!("after the probe timeout (pto_count {}) the timer {} is not one PTO period after now={} or after a last ack-eliciting send", post.num("pto"), t, now))); }
            }
        }
    }
    // clause 4: cwnd >= 2 datagrams
    if cw1 < 2 * mds { fails.push(("cwnd_below_two_datagrams".to_string(), format!("cwnd {} < 2*{}", cw1, mds))); }
    // clause 5: shrinks at most once per round trip
    if cw1 < cw0 {
        let trig = lost_ts.iter().copied().max().or(ecn_trigger);
        if let (Some(t_shrink), Some(tr)) = (c.last_shrink, trig) {
            if tr <= t_shrink {
                fails.push(("second_shrink_same_rtt".to_string(), format!("cwnd {} -> {} at t={} for packets sent at <= {} although cwnd already shrank at t={}", cw0, cw1, now, tr, t_shrink)));
            }
        }
        if trig.is_none() { fails.push(("shrink_without_loss_or_ecn".to_string(), format!("cwnd {} -> {} on `{}`", cw0, cw1, text))); }
        c.last_shrink = Some(now);
    }
    // clause 6: grows only on acknowledgements outside recovery
    if cw1 > cw0 {
        let rs0 = pre.opt("rs");
        if newly_acked.is_empty() { fails.push(("grow_without_ack".to_string(), format!("cwnd {} -> {} on `{}`", cw0, cw1, text))); }
        else if !newly_acked.iter().any(|r| r.infl && rs0.is_none_or(|rs| r.ts > rs)) {
            fails.push(("grow_in_recovery".to_string(), format!("cwnd {} -> {}: every newly acked packet was sent at or before recovery start {:?}", cw0, cw1, rs0)));
        }
    }
    // clause 7: bytes in flight == sizes of the packets still outstanding
    let sum: u64 = c.recs.iter().flat_map(|m| m.values()).filter(|r| r.infl && !r.acked && !r.lost).map(|r| r.size as u64).sum();
    if post.num("bif") != sum { fails.push(("bif_mismatch".to_string(), format!("bytes_in_flight {} but outstanding packets sum to {}", post.num("bif"), sum))); }
    // clause 8: no quota beyond the window
    if let Some(Ok(q)) = quota {
        if post.num("bif") >= cw1 {
            fails.push(("quota_beyond_cwnd".to_string(), format!("send_quota = Ok({}) with bytes_in_flight {} >= cwnd {}", q, post.num("bif"), cw1)));
        }
    }
    for (k, w) in fails { mfail(c, sink, &k, &w); }
    if !lost.is_empty() { sink.branch("lost:some"); }
    if cw1 < cw0 { sink.branch("cwnd:shrink"); } else if cw1 > cw0 { sink.branch("cwnd:grow"); }
    if result.starts_with("toomany") { sink.branch("tick:toomany"); return true; }
    true
}

/// report a monitor failure: counted every time (`mon:<key>` in the branch histogram), reported once per case
/// and at most 100 times per key and run
fn mfail(c: &mut Case, sink: &mut Sink, key: &str, what: &str) {
    let b = format!("mon:{}", key);
    sink.branch(&b);
    if !c.fired.insert(key.to_string()) { return; }
    if sink.branches.get(&b).copied().unwrap_or(0) > 1 && c.fired_cap(sink, key) { return; }
    sink.monitor_fail(key, what);
}

fn new_case(server: bool, mtu: u16, mad_ns: u64, strict: bool) -> Result<Case, String> {
    let hs = Arc::new(HandshakeStatus::new(server));
    let ps = PathStatus::new(hs.clone(), Arc::new(AtomicU16::new(mtu)));
    let log = Arc::new(Mutex::new(vec![]));
    let trackers: [Arc<dyn Feedback>; 3] = [
        Arc::new(Fb { epoch: 0, log: log.clone() }),
        Arc::new(Fb { epoch: 1, log: log.clone() }),
        Arc::new(Fb { epoch: 2, log: log.clone() }),
    ];
    let ps2 = ps.clone();
    let cc = catch(move || ArcCC::new(Algorithm::NewReno, Duration::from_nanos(mad_ns), trackers, ps2, ArcSendWaker::new()))?;
    Ok(Case { cc, hs, ps, origin: Instant::now(), log, server, recs: Default::default(), claimed_la: [None; 3], discarded: [false; 2], hs_ack: false, fired: Default::default(), aa_limit: true, confirmed: false,
              last_shrink: None, strict, n_lost: 0, n_acked: 0, n_pto: 0 })
}

struct Gen { next_pn: [u64; 3], sent: [Vec<u64>; 3], ce: u64, mtu: u16, discarded: [bool; 3] }

fn gen_ack(rng: &mut Rng, g: &Gen, e: usize, malformed: bool) -> Option<Vec<(u64, u64)>> {
    let s = &g.sent[e];
    if s.is_empty() { return None; }
    // pick a largest among the recently sent pns, then walk downwards choosing runs
    let hi_idx = s.len() - 1 - (rng.below(s.len().min(6) as u64) as usize);
    let mut ranges: Vec<(u64, u64)> = vec![];
    let mut cur = s[hi_idx];
    if malformed && rng.chance(1, 8) { cur += 1 + rng.below(3); } // spurious: beyond anything sent
    let floor = s[0].saturating_sub(2);
    for _ in 0..(1 + rng.below(4)) {
        let len = match rng.below(4) { 0 => 0, 1 => rng.below(3), _ => rng.below(8) };
        let lo = cur.saturating_sub(len).max(floor);
        ranges.push((lo, cur));
        let gap = 2 + rng.below(5);
        if lo < floor + gap + 1 { break; }
        cur = lo - gap;
    }
    Some(ranges)
}

fn gen_history(rng: &mut Rng, server: bool, mtu: u16, malformed: bool) -> Vec<Op> {
    let mut g = Gen { next_pn: [0; 3], sent: Default::default(), ce: 0, mtu, discarded: [false; 3] };
    let mut ops = vec![];
    let n = 10 + rng.below(60);
    let mut phase = 0usize; // 0 initial, 1 handshake, 2 data
    if rng.chance(4, 5) { ops.push(Op::Grant); }
    let style = rng.below(6); // 0: ack-starved (timeouts), 1: bursty loss, others mixed
    for _ in 0..n {
        if phase < 2 && rng.chance(1, 8) {
            phase += 1;
            if phase == 1 { ops.push(Op::HsKey); }
            if phase == 2 {
                if rng.chance(2, 3) { ops.push(Op::HsAck); }
                if rng.chance(4, 5) { ops.push(Op::Confirmed); }
                if rng.chance(2, 3) && !g.discarded[0] { ops.push(Op::Discard(0)); g.discarded[0] = true; g.sent[0].clear(); }
                if rng.chance(2, 3) { ops.push(Op::Discard(1)); g.discarded[1] = true; g.sent[1].clear(); }
            }
        }
        let e = if rng.chance(1, 6) { rng.below(phase as u64 + 1) as usize } else { phase };
        let w = rng.below(100);
        let ack_w = if style == 0 { 8 } else { 30 };
        if w < 40 {
            // burst of sends
            let k = if style == 1 { 3 + rng.below(9) } else { 1 + rng.below(4) };
            for _ in 0..k {
                if rng.chance(1, 12) { g.next_pn[e] += 1 + rng.below(3); } // skipped pns
                let pn = g.next_pn[e];
                g.next_pn[e] += 1;
                let elic = rng.chance(5, 6);
                let infl = if malformed && rng.chance(1, 6) { rng.chance(1, 2) } else { elic || rng.chance(1, 2) };
                let size = match rng.below(4) { 0 => g.mtu as usize, 1 => 40 + rng.below(60) as usize, _ => 40 + rng.below(g.mtu as u64 - 40) as usize };
                ops.push(Op::Sent { e, pn, elic, infl, size });
                g.sent[e].push(pn);
                if e == 1 && !server { g.sent[0].clear(); }
                if rng.chance(1, 5) { ops.push(Op::Tick(rng.below(2_000_000))); }
            }
        } else if w < 40 + ack_w {
            if let Some(ranges) = gen_ack(rng, &g, e, malformed) {
                let ce = if rng.chance(1, 8) { if rng.chance(2, 3) { g.ce += 1; } Some(g.ce) } else { None };
                ops.push(Op::Ack { e, ranges, ce, delay: rng.below(30_000) });
                if e == 1 && server { g.sent[0].clear(); }
            }
        } else if w < 92 {
            let dt = match rng.below(9) {
                0 => 0,
                1 => rng.below(1_000_000),
                2 => 1_000_000 + rng.below(9_000_000),
                3 => 37_125_000 + rng.below(3) - 1,
                4 => 20_000_000 + rng.below(40_000_000),
                5 => 99_000_000 + rng.below(3) - 1,
                6 => 100_000_000 + rng.below(400_000_000),
                7 => 1_000_000_000 + rng.below(20_000_000_000),
                _ => rng.below(80_000_000),
            };
            ops.push(Op::Tick(dt));
        } else if w < 95 { ops.push(Op::Quota); }
        else if w < 97 { ops.push(Op::Rcvd); }
        else if w < 98 { ops.push(if rng.chance(1, 2) { Op::Limit } else { Op::Grant }); }
        else if w < 99 {
            let d = if malformed && rng.chance(1, 4) { 2 } else { rng.below(2) as usize };
            ops.push(Op::Discard(d));
            if d < 2 { g.sent[d].clear(); }
        } else { ops.push(Op::HsAck); }
    }
    ops
}

fn sent_burst(e: usize, from: u64, k: u64, size: usize) -> Vec<Op> {
    (0..k).map(|i| Op::Sent { e, pn: from + i, elic: true, infl: true, size }).collect()
}

/// the fixed histories the theorems' witnesses use (replayed on the real code on every run)
fn fixed() -> Vec<(bool, u16, u64, bool, Vec<Op>)> {
    let ms = 1_000_000u64;
    let mut v: Vec<(bool, u16, u64, bool, Vec<Op>)> = vec![];
    // 0: one packet, never acknowledged: declared lost by the time threshold alone (finding: lost_without_later_ack)
    v.push((false, 1200, 25 * ms, true, vec![Op::Grant, Op::Sent { e: 0, pn: 0, elic: true, infl: true, size: 1200 }, Op::Tick(37_125_000), Op::Tick(100 * ms)]));
    // 1: PTO backoff: client, nothing outstanding, anti-deadlock probes (finding: pto_not_doubled)
    v.push((false, 1200, 25 * ms, true, vec![Op::Grant, Op::Sent { e: 0, pn: 0, elic: true, infl: true, size: 1200 }, Op::Tick(40 * ms), Op::Tick(99 * ms), Op::Tick(165 * ms), Op::Tick(297 * ms), Op::Tick(561 * ms)]));
    // 2: burst of 10, ack 6 then ack 9: persistent-loss carve-out halves again and forgets the recovery period (finding: second_shrink_same_rtt)
    let mut h = vec![Op::Grant, Op::HsKey, Op::Confirmed];
    h.extend(sent_burst(2, 0, 10, 1200));
    h.push(Op::Tick(10 * ms));
    h.push(Op::Ack { e: 2, ranges: vec![(6, 6)], ce: None, delay: 0 });
    h.push(Op::Ack { e: 2, ranges: vec![(9, 9)], ce: None, delay: 0 });
    v.push((true, 1200, 25 * ms, true, h));
    // 3: 66 full-size packets without any acknowledgement: quota still granted (finding: quota_beyond_cwnd)
    let mut h = vec![Op::Grant, Op::HsKey, Op::Confirmed];
    h.extend(sent_burst(2, 0, 11, 1200));
    h.push(Op::Quota);
    h.push(Op::Tick(5 * ms));
    h.push(Op::Quota);
    v.push((true, 1200, 25 * ms, true, h));
    // 4: ordinary slow start, reordering, packet-threshold loss, recovery, congestion avoidance
    let mut h = vec![Op::Grant, Op::HsKey, Op::Confirmed];
    h.extend(sent_burst(2, 0, 8, 1200));
    h.push(Op::Tick(30 * ms));
    h.push(Op::Ack { e: 2, ranges: vec![(4, 7), (1, 2)], ce: None, delay: 1000 });
    h.extend(sent_burst(2, 8, 6, 1200));
    h.push(Op::Tick(30 * ms));
    h.push(Op::Ack { e: 2, ranges: vec![(8, 13), (3, 3)], ce: None, delay: 1000 });
    h.push(Op::Ack { e: 2, ranges: vec![(0, 13)], ce: None, delay: 1000 });
    h.extend(sent_burst(2, 14, 12, 1200));
    h.push(Op::Tick(30 * ms));
    h.push(Op::Ack { e: 2, ranges: vec![(14, 25)], ce: Some(1), delay: 1000 });
    v.push((true, 1200, 25 * ms, true, h));
    // 5: client handshake: every Handshake packet sent discards Initial and resets pto_count
    let mut h = vec![Op::Grant, Op::Sent { e: 0, pn: 0, elic: true, infl: true, size: 1200 }, Op::Tick(10 * ms), Op::Ack { e: 0, ranges: vec![(0, 0)], ce: None, delay: 0 }, Op::HsKey];
    for i in 0..4 { h.push(Op::Sent { e: 1, pn: i, elic: true, infl: true, size: 300 }); h.push(Op::Tick(40 * ms)); h.push(Op::Tick(200 * ms)); }
    v.push((false, 1200, 25 * ms, true, h));
    // 6: jumbo MTU: `mtu * 10` in u16 (NewReno::new)
    v.push((true, 9000, 25 * ms, false, vec![]));
    // 7: ticking on after TooManyPtos until `1 << pto_count` overflows
    let mut h = vec![Op::Grant, Op::Sent { e: 0, pn: 0, elic: true, infl: true, size: 1200 }, Op::Tick(40 * ms)];
    let mut dt = 99 * ms;
    for _ in 0..34 { h.push(Op::Tick(dt + 33 * ms)); dt = dt.saturating_mul(2).min(1u64 << 58); }
    v.push((false, 1200, 25 * ms, false, h));
    // 8: ack-eliciting but not in flight: `time_of_last_ack_eliciting_packet.unwrap()`
    v.push((true, 1200, 25 * ms, false, vec![Op::Grant, Op::Sent { e: 0, pn: 0, elic: true, infl: false, size: 100 }, Op::Sent { e: 0, pn: 1, elic: false, infl: true, size: 100 }, Op::Tick(200 * ms)]));
    // 9: a client that is not yet sure of address validation keeps its backoff across an Initial ACK (seeded c13-2)
    v.push((false, 1200, 25 * ms, true, vec![Op::Grant, Op::Sent { e: 0, pn: 0, elic: true, infl: true, size: 1200 }, Op::Tick(40 * ms), Op::Tick(112 * ms),
        Op::Sent { e: 0, pn: 1, elic: true, infl: true, size: 1200 }, Op::Tick(20 * ms), Op::Ack { e: 0, ranges: vec![(1, 1)], ce: None, delay: 0 },
        Op::Tick(400 * ms), Op::HsAck, Op::Sent { e: 0, pn: 2, elic: true, infl: true, size: 1200 }, Op::Tick(20 * ms), Op::Ack { e: 0, ranges: vec![(2, 2)], ce: None, delay: 0 }]));
    v
}

async fn run_case(sink: &mut Sink, server: bool, mtu: u16, mad: u64, strict: bool, ops: &[Op]) {
    let init = format!("init {} {} {}", server as u8, mtu, mad);
    let mut c = match new_case(server, mtu, mad, strict) {
        Ok(c) => c,
        Err(m) => { sink.line(&init, &format!("r={}", site(&m))); sink.branch("panic:init"); return; }
    };
    let s0 = snap_of(&c);
    sink.line(&init, &format!("r=ok lost=- {}", s0.int_part()));
    let mut alive = true;
    for op in ops {
        if !apply(&mut c, sink, op).await { alive = false; break; }
    }
    if alive && c.n_lost > 0 && c.n_acked > 1 { sink.nontrivial(); }
    if c.n_pto > 0 { sink.branch("case:with_pto"); }
}

pub fn run(o: &Opts) {
    crate::common::silence_panics();
    let mut sink = Sink::new_with_stats(&o.out, &o.stats);
    let rt = tokio::runtime::Builder::new_current_thread().enable_time().start_paused(true).build().unwrap();
    rt.block_on(async {
        let fx = fixed();
        let nfixed = fx.len() as u64;
        for (i, (server, mtu, mad, strict, ops)) in fx.iter().enumerate() {
            if let Some(k) = o.only_case { if k != i as u64 { continue; } }
            sink.case(&format!("{}", i));
            run_case(&mut sink, *server, *mtu, *mad, *strict, ops).await;
        }
        for i in nfixed..o.cases.max(nfixed) {
            if let Some(k) = o.only_case { if k != i { continue; } }
            let mut rng = Rng::new(o.seed, i);
            sink.case(&format!("{}", i));
            let server = rng.chance(1, 2);
            let mtu = *rng.pick(&[1200u16, 1200, 1350, 1500, 4000]);
            let mad = *rng.pick(&[25_000_000u64, 0, 1_000_000, 100_000_000]);
            let malformed = rng.chance(1, 20);
            sink.branch(if malformed { "stream:malformed" } else { "stream:wellformed" });
            let ops = gen_history(&mut rng, server, mtu, malformed);
            run_case(&mut sink, server, mtu, mad, !malformed, &ops).await;
        }
    });
    sink.finish(&o.stats, "C13: random + structured histories (sent / ack with ranges, reordering, spurious and ECN / tick / rcvd / discard / handshake flags / anti-amplification / quota) on a real ArcCC(NewReno) under tokio paused time, whole integer state read through verif_snapshot after every op; non-trivial = at least one packet reported lost and two acknowledged, no panic; distinct by transcript hash");
}

pub const RUNS: &[(&str, fn(&Opts))] = &[("C13", run)];
