//! C07: packet numbers are never reused and always decode to the number sent.
//!
//! * `C07pn` — the real `qbase::packet::PacketNumber::{encode, decode, size}`, `put_packet_number`,
//!   `take_pn_len` on (pn, largest_acked, expected) triples biased to every threshold ±1, on
//!   arbitrary in-memory values, and on short / wrong-length parser inputs.
//! * `C07j`  — random guard life-cycle histories on a real `qrecovery::journal::ArcSentJournal<u32>`
//!   under tokio's paused clock; the internal state is read from the derived `Debug` output.
//! * `C07r`  — the real `ArcRcvdJournal::{decode_pn, on_rcvd_pn}` (+ queue rotation), receiver side.
//!
//! Monitors never consult the model.
use bytes::BytesMut;
use qbase::{
    frame::AckFrame,
    packet::{InvalidPacketNumber, PacketNumber, WritePacketNumber, take_pn_len},
    varint::VarInt,
};
use qrecovery::journal::{ArcRcvdJournal, ArcSentJournal, NewPacketGuard};
use std::time::Duration;

use crate::common::{catch, hex, unhex, Opts, Rng, Sink};

fn site(msg: &str) -> String {
    let m = msg.to_lowercase();
    let s = if m.contains("subtract_with_overflow") { "sub" }
    else if m.contains("multiply_with_overflow") { "mul" }
    else if m.contains("add_with_overflow") { "add" }
    else if m.contains("too_large_to_encode") { "toolarge" }
    else if m.contains("unreachable") { "unreachable" }
    else if m.contains("never_overflow") { "pnoverflow" }
    else if m.contains("assertion") { "assert" }
    else if m.contains("poisonerror") { "poisoned" }
    else { return format!("PANIC:other:{}", &msg[..msg.len().min(60)]); };
    format!("PANIC:{}", s)
}

fn show(e: PacketNumber) -> String {
    match e {
        PacketNumber::U8(x) => format!("u8:{}", x),
        PacketNumber::U16(x) => format!("u16:{}", x),
        PacketNumber::U24(x) => format!("u24:{}", x),
        PacketNumber::U32(x) => format!("u32:{}", x),
    }
}

fn mk(variant: u64, payload: u64) -> PacketNumber {
    match variant {
        8 => PacketNumber::U8(payload as u8),
        16 => PacketNumber::U16(payload as u16),
        24 => PacketNumber::U24(payload as u32),
        _ => PacketNumber::U32(payload as u32),
    }
}

fn dec_str(e: PacketNumber, exp: u64) -> String {
    match catch(|| e.decode(exp)) { Ok(v) => format!("{}", v), Err(m) => site(&m) }
}

/// values around every threshold the code or the property mentions
fn boundary(rng: &mut Rng) -> u64 {
    const P: [u32; 14] = [0, 7, 8, 15, 16, 23, 24, 30, 31, 32, 33, 61, 62, 63];
    let p = *rng.pick(&P);
    let b: u64 = if p == 0 { 0 } else { 1u64 << p };
    match rng.below(5) { 0 => b.wrapping_sub(1), 1 => b, 2 => b.wrapping_add(1), 3 => b.wrapping_sub(rng.below(4)), _ => b.wrapping_add(rng.below(300)) }
}

fn any_u64(rng: &mut Rng) -> u64 {
    match rng.below(6) { 0 => boundary(rng), 1 => rng.below(70000), 2 => rng.varint62(), 3 => u64::MAX - rng.below(3), 4 => rng.next_u64() >> rng.below(64), _ => rng.next_u64() & ((1 << 62) - 1) }
}

/// (pn, la, exp, in_domain)
fn triple(rng: &mut Rng, sink: &mut Sink) -> (u64, u64, u64) {
    let max62 = (1u64 << 62) - 1;
    match rng.below(10) {
        // the property's domain, gaps around the half-window boundaries
        0..=5 => {
            let gap = match rng.below(8) {
                0 => rng.below(3),
                1 => (1u64 << *rng.pick(&[7u32, 15, 23, 31])) - 1 - rng.below(3),
                2 => (1u64 << *rng.pick(&[7u32, 15, 23])) + rng.below(3),
                3 => rng.below(1 << 15),
                4 => (1 << 15) + rng.below((1 << 23) - (1 << 15)),
                5 => (1 << 23) + rng.below((1 << 31) - (1 << 23)),
                6 => rng.below(1 << 31),
                _ => rng.below(300),
            };
            let pn = match rng.below(6) {
                // pn just above a multiple of the window, so that expected lies below it
                0 => { let w = 1u64 << *rng.pick(&[8u32, 16, 24, 32]); ((rng.next_u64() & max62) / w * w).saturating_add(rng.below(gap.max(1) + 2)).min(max62) }
                1 => boundary(rng).min(max62),
                2 => max62 - rng.below(4),
                3 => rng.below(1 << 20),
                _ => rng.next_u64() & max62,
            }.max(gap);
            let la = pn - gap;
            let exp = match rng.below(6) { 0 => la, 1 => (la + 1).min(pn), 2 => pn, 3 => pn.saturating_sub(1).max(la), _ => la + rng.below(gap + 1) };
            sink.branch("triple:domain");
            (pn, la, exp)
        }
        // around the domain: expected beyond pn / below la, la > pn, gap >= 2^31
        6 => { let pn = any_u64(rng) & max62; let la = pn.saturating_sub(rng.below(1 << 16)); sink.branch("triple:exp_outside"); (pn, la, any_u64(rng)) }
        7 => { let pn = any_u64(rng); sink.branch("triple:la_above_pn"); (pn, pn.saturating_add(1 + rng.below(3)), any_u64(rng)) }
        8 => { let pn = any_u64(rng); let la = pn.saturating_sub((1u64 << 31) - 2 + rng.below(5)); sink.branch("triple:gap_2^31"); (pn, la, la.max(pn.saturating_sub(rng.below(9)))) }
        _ => { sink.branch("triple:any"); (any_u64(rng), any_u64(rng), any_u64(rng)) }
    }
}

fn in_domain(pn: u64, la: u64, exp: u64) -> bool {
    pn < (1 << 62) && la <= pn && pn - la < (1 << 31) && la <= exp && exp <= pn
}

fn op_pn(sink: &mut Sink, pn: u64, la: u64, exp: u64) {
    let op = format!("pn {} {} {}", pn, la, exp);
    sink.pending(&op);
    let dom = in_domain(pn, la, exp);
    match catch(|| PacketNumber::encode(pn, la)) {
        Err(m) => {
            let s = site(&m);
            if dom { sink.monitor_fail(&format!("encode_panic:{}", s), &format!("PacketNumber::encode({}, {}) panicked inside the property's domain", pn, la)); }
            sink.branch(&format!("encode:{}", s));
            sink.line(&op, &s);
        }
        Ok(e) => {
            let mut buf = BytesMut::new();
            buf.put_packet_number(e);
            let wire = buf.to_vec();
            if wire.len() != e.size() { sink.monitor_fail("size_vs_written", &format!("size()={} but {} bytes written for {:?}", e.size(), wire.len(), e)); }
            let taken = catch(|| take_pn_len(e.size() as u8)(&wire[..]).map(|(r, p)| (r.len(), p)));
            let (take_s, dec_s) = match taken {
                Ok(Ok((0, p))) => (show(p), dec_str(p, exp)),
                Ok(Ok((n, p))) => (format!("{}+rest{}", show(p), n), dec_str(p, exp)),
                Ok(Err(_)) => ("err".to_string(), "-".to_string()),
                Err(m) => (site(&m), "-".to_string()),
            };
            let mem_s = dec_str(e, exp);
            sink.branch(&format!("encode:{}", show(e).split(':').next().unwrap()));
            if dom {
                sink.nontrivial();
                if dec_s != format!("{}", pn) {
                    sink.monitor_fail("wire_roundtrip", &format!("pn={} la={} exp={}: decode(take(put(encode))) = {}", pn, la, exp, dec_s));
                }
                if mem_s != format!("{}", pn) {
                    sink.monitor_fail(&format!("inmem_roundtrip:{}", show(e).split(':').next().unwrap()),
                        &format!("pn={} la={} exp={}: PacketNumber::encode(pn,la).decode(exp) = {} (without the wire)", pn, la, exp, mem_s));
                }
            }
            sink.line(&op, &format!("enc={} size={} wire={} take={} dec={} mem={}", show(e), e.size(), hex(&wire), take_s, dec_s, mem_s));
        }
    }
}

pub fn run_pn(o: &Opts) {
    let mut sink = Sink::new_with_stats(&o.out, &o.stats);
    // fixed corpus first: the design's boundaries, the repo's own unit-test literals, the U24 case
    let fixed: &[(u64, u64, u64)] = &[
        (0, 0, 0), (1, 0, 0), (1, 0, 1), (255, 0, 0), (256, 0, 0), (65535, 0, 0), (65536, 0, 0), ((1 << 24) - 1, 0, 0), (1 << 24, 0, 0),
        ((1 << 31) - 1, 0, 0), (1 << 31, 0, 0), (1 << 31, 1, 1), ((1 << 32) + 5, 1 << 31, 1 << 31), ((1 << 62) - 1, (1 << 62) - 2, (1 << 62) - 1),
        ((1 << 62) - 1, (1 << 62) - (1 << 31), (1 << 62) - (1 << 31)), (1 << 62, (1 << 62) - 1, 1 << 62),
        (0x0400_0005, 0x03ff_0000, 0x03ff_fff0), (0x0400_0005, 0x03ff_0000, 0x0400_0000), (0xa9b3, 0xa82e, 0xa82f + 1), (0xac5c02, 0xabe8b3, 0xabe8b4),
        (5, 9, 0), (u64::MAX, 0, 0), (1 << 63, 0, 0),
    ];
    if o.only_case.is_none() || o.only_case == Some(0) {
        sink.case("0");
        for &(pn, la, exp) in fixed { op_pn(&mut sink, pn, la, exp); }
    }
    for i in 1..o.cases.max(1) {
        if let Some(k) = o.only_case { if k != i { continue; } }
        let mut rng = Rng::new(o.seed, i);
        sink.case(&format!("{}", i));
        for _ in 0..10 {
            match rng.below(10) {
                0..=6 => { let (pn, la, exp) = triple(&mut rng, &mut sink); op_pn(&mut sink, pn, la, exp); }
                7 | 8 => {
                    // decode of an arbitrary in-memory value against an arbitrary expected
                    let v = *rng.pick(&[8u64, 16, 24, 32]);
                    let payload = match rng.below(3) { 0 => rng.next_u64(), 1 => boundary(&mut rng), _ => rng.below(1 << 12) } & (if v == 8 { 0xff } else if v == 16 { 0xffff } else { 0xffff_ffff });
                    let exp = any_u64(&mut rng);
                    let e = mk(v, payload);
                    let op = format!("dec {} {}", show(e).replace(':', " "), exp);
                    sink.pending(&op);
                    sink.line(&op, &format!("dec={}", dec_str(e, exp)));
                }
                _ => {
                    // parser on short / long inputs and illegal lengths
                    let len = rng.below(7);
                    let n = rng.below(7) as usize;
                    let input = rng.bytes(n);
                    let op = format!("take {} {}", len, hex(&input));
                    sink.pending(&op);
                    let r = catch(|| take_pn_len(len as u8)(&input[..]).map(|(r, p)| (r.to_vec(), p)));
                    let obs = match r { Ok(Ok((rest, p))) => format!("ok {} rest={}", show(p), hex(&rest)), Ok(Err(_)) => "err".into(), Err(m) => site(&m) };
                    sink.line(&op, &obs);
                }
            }
        }
    }
    sink.finish(&o.stats, "C07pn: (pn, largest_acked, expected) triples biased to 2^7/8/15/16/23/24/31/32/62/63 ±1 on the real PacketNumber::encode → put_packet_number → take_pn_len → decode (and the in-memory decode), arbitrary in-memory decode inputs, parser inputs of every length; non-trivial = a case containing a triple inside the property's domain; distinct by transcript hash");
}

pub const RUNS: &[(&str, fn(&Opts))] = &[("C07pn", run_pn)];

#[allow(dead_code)]
fn _unused() { let _ = (unhex("-"), Duration::ZERO); let _: Option<(ArcRcvdJournal, ArcSentJournal<u32>, InvalidPacketNumber, VarInt)> = None; let _: Option<AckFrame> = None; let _: Option<NewPacketGuard<'static, u32>> = None; }
