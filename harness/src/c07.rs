//! C07: packet numbers are never reused and always decode to the number sent.
//!
//! * `C07pn` — the real `qbase::packet::PacketNumber::{encode, decode, size}`, `put_packet_number`,
//!   `take_pn_len` on (pn, largest_acked, expected) triples biased to every threshold ±1, on
//!   arbitrary in-memory values, and on short / wrong-length parser inputs.
//! * `C07j`  — random guard life-cycle histories on a real `qrecovery::journal::ArcSentJournal<u32>`
//!   under tokio's paused clock; the internal state is read from the derived `Debug` output.
//! * `C07r`  — the real `ArcRcvdJournal::{decode_pn, on_rcvd_pn}` (+ queue rotation), receiver side.
//!
//! Monitors never consult the model.
use bytes::BytesMut;
use qbase::{
    frame::AckFrame,
    packet::{InvalidPacketNumber, PacketNumber, WritePacketNumber, take_pn_len},
    varint::VarInt,
};
use qrecovery::journal::{ArcRcvdJournal, ArcSentJournal, NewPacketGuard};
use std::time::Duration;

use crate::common::{catch, hex, unhex, Opts, Rng, Sink};

fn site(msg: &str) -> String {
    let m = msg.to_lowercase();
    let s = if m.contains("subtract_with_overflow") { "sub" }
    else if m.contains("multiply_with_overflow") { "mul" }
    else if m.contains("add_with_overflow") { "add" }
    else if m.contains("too_large_to_encode") { "toolarge" }
    else if m.contains("unreachable") { "unreachable" }
    else if m.contains("never_overflow") { "pnoverflow" }
    else if m.contains("assertion") { "assert" }
    else if m.contains("poisonerror") { "poisoned" }
    else { return format!("PANIC:other:{}", &msg[..msg.len().min(60)]); };
    format!("PANIC:{}", s)
}

fn show(e: PacketNumber) -> String {
    match e {
        PacketNumber::U8(x) => format!("u8:{}", x),
        PacketNumber::U16(x) => format!("u16:{}", x),
        PacketNumber::U24(x) => format!("u24:{}", x),
        PacketNumber::U32(x) => format!("u32:{}", x),
    }
}

fn mk(variant: u64, payload: u64) -> PacketNumber {
    match variant {
        8 => PacketNumber::U8(payload as u8),
        16 => PacketNumber::U16(payload as u16),
        24 => PacketNumber::U24(payload as u32),
        _ => PacketNumber::U32(payload as u32),
    }
}

fn dec_str(e: PacketNumber, exp: u64) -> String {
    match catch(|| e.decode(exp)) { Ok(v) => format!("{}", v), Err(m) => site(&m) }
}

/// values around every threshold the code or the property mentions
fn boundary(rng: &mut Rng) -> u64 {
    const P: [u32; 14] = [0, 7, 8, 15, 16, 23, 24, 30, 31, 32, 33, 61, 62, 63];
    let p = *rng.pick(&P);
    let b: u64 = if p == 0 { 0 } else { 1u64 << p };
    match rng.below(5) { 0 => b.wrapping_sub(1), 1 => b, 2 => b.wrapping_add(1), 3 => b.wrapping_sub(rng.below(4)), _ => b.wrapping_add(rng.below(300)) }
}

fn any_u64(rng: &mut Rng) -> u64 {
    match rng.below(6) { 0 => boundary(rng), 1 => rng.below(70000), 2 => rng.varint62(), 3 => u64::MAX - rng.below(3), 4 => rng.next_u64() >> rng.below(64), _ => rng.next_u64() & ((1 << 62) - 1) }
}

/// (pn, la, exp, in_domain)
fn triple(rng: &mut Rng, sink: &mut Sink) -> (u64, u64, u64) {
    let max62 = (1u64 << 62) - 1;
    match rng.below(10) {
        // the property's domain, gaps around the half-window boundaries
        0..=5 => {
            let gap = match rng.below(8) {
                0 => rng.below(3),
                1 => (1u64 << *rng.pick(&[7u32, 15, 23, 31])) - 1 - rng.below(3),
                2 => (1u64 << *rng.pick(&[7u32, 15, 23])) + rng.below(3),
                3 => rng.below(1 << 15),
                4 => (1 << 15) + rng.below((1 << 23) - (1 << 15)),
                5 => (1 << 23) + rng.below((1 << 31) - (1 << 23)),
                6 => rng.below(1 << 31),
                _ => rng.below(300),
            };
            let pn = match rng.below(6) {
                // pn just above a multiple of the window, so that expected lies below it
                0 => { let w = 1u64 << *rng.pick(&[8u32, 16, 24, 32]); ((rng.next_u64() & max62) / w * w).saturating_add(rng.below(gap.max(1) + 2)).min(max62) }
                1 => boundary(rng).min(max62),
                2 => max62 - rng.below(4),
                3 => rng.below(1 << 20),
                _ => rng.next_u64() & max62,
            }.max(gap);
            let la = pn - gap;
            let exp = match rng.below(6) { 0 => la, 1 => (la + 1).min(pn), 2 => pn, 3 => pn.saturating_sub(1).max(la), _ => la + rng.below(gap + 1) };
            sink.branch("triple:domain");
            (pn, la, exp)
        }
        // around the domain: expected beyond pn / below la, la > pn, gap >= 2^31
        6 => { let pn = any_u64(rng) & max62; let la = pn.saturating_sub(rng.below(1 << 16)); sink.branch("triple:exp_outside"); (pn, la, any_u64(rng)) }
        7 => { let pn = any_u64(rng); sink.branch("triple:la_above_pn"); (pn, pn.saturating_add(1 + rng.below(3)), any_u64(rng)) }
        8 => { let pn = any_u64(rng); let la = pn.saturating_sub((1u64 << 31) - 2 + rng.below(5)); sink.branch("triple:gap_2^31"); (pn, la, la.max(pn.saturating_sub(rng.below(9)))) }
        _ => { sink.branch("triple:any"); (any_u64(rng), any_u64(rng), any_u64(rng)) }
    }
}

fn in_domain(pn: u64, la: u64, exp: u64) -> bool {
    pn < (1 << 62) && la <= pn && pn - la < (1 << 31) && la <= exp && exp <= pn
}

fn op_pn(sink: &mut Sink, pn: u64, la: u64, exp: u64) {
    let op = format!("pn {} {} {}", pn, la, exp);
    sink.pending(&op);
    let dom = in_domain(pn, la, exp);
    match catch(|| PacketNumber::encode(pn, la)) {
        Err(m) => {
            let s = site(&m);
            if dom { sink.monitor_fail(&format!("encode_panic:{}", s), &format!("PacketNumber::encode({}, {}) panicked inside the property's domain", pn, la)); }
            sink.branch(&format!("encode:{}", s));
            sink.line(&op, &s);
        }
        Ok(e) => {
            let mut buf = BytesMut::new();
            buf.put_packet_number(e);
            let wire = buf.to_vec();
            if wire.len() != e.size() { sink.monitor_fail("size_vs_written", &format!("size()={} but {} bytes written for {:?}", e.size(), wire.len(), e)); }
            let taken = catch(|| take_pn_len(e.size() as u8)(&wire[..]).map(|(r, p)| (r.len(), p)));
            let (take_s, dec_s) = match taken {
                Ok(Ok((0, p))) => (show(p), dec_str(p, exp)),
                Ok(Ok((n, p))) => (format!("{}+rest{}", show(p), n), dec_str(p, exp)),
                Ok(Err(_)) => ("err".to_string(), "-".to_string()),
                Err(m) => (site(&m), "-".to_string()),
            };
            let mem_s = dec_str(e, exp);
            sink.branch(&format!("encode:{}", show(e).split(':').next().unwrap()));
            if dom {
                sink.nontrivial();
                // RFC 9000 §17.1: the encoding must represent more than twice the distance to the largest acked
                if (pn - la) * 2 >= 1u64 << (8 * e.size()) {
                    sink.monitor_fail("window_not_twice_gap", &format!("pn={} la={}: {} byte(s) chosen, 2*(pn-la)={} does not fit", pn, la, e.size(), (pn - la) * 2));
                }
                if dec_s != format!("{}", pn) {
                    sink.monitor_fail("wire_roundtrip", &format!("pn={} la={} exp={}: decode(take(put(encode))) = {}", pn, la, exp, dec_s));
                }
                if mem_s != format!("{}", pn) {
                    sink.monitor_fail(&format!("inmem_roundtrip:{}", show(e).split(':').next().unwrap()),
                        &format!("pn={} la={} exp={}: PacketNumber::encode(pn,la).decode(exp) = {} (without the wire)", pn, la, exp, mem_s));
                }
            }
            sink.line(&op, &format!("enc={} size={} wire={} take={} dec={} mem={}", show(e), e.size(), hex(&wire), take_s, dec_s, mem_s));
        }
    }
}

pub fn run_pn(o: &Opts) {
    let mut sink = Sink::new_with_stats(&o.out, &o.stats);
    // fixed corpus first: the design's boundaries, the repo's own unit-test literals, the U24 case
    let fixed: &[(u64, u64, u64)] = &[
        (0, 0, 0), (1, 0, 0), (1, 0, 1), (255, 0, 0), (256, 0, 0), (65535, 0, 0), (65536, 0, 0), ((1 << 24) - 1, 0, 0), (1 << 24, 0, 0),
        ((1 << 31) - 1, 0, 0), (1 << 31, 0, 0), (1 << 31, 1, 1), ((1 << 32) + 5, 1 << 31, 1 << 31), ((1 << 62) - 1, (1 << 62) - 2, (1 << 62) - 1),
        ((1 << 62) - 1, (1 << 62) - (1 << 31), (1 << 62) - (1 << 31)), (1 << 62, (1 << 62) - 1, 1 << 62),
        (0x0400_0005, 0x03ff_0000, 0x03ff_fff0), (0x0400_0005, 0x03ff_0000, 0x0400_0000), (0xa9b3, 0xa82e, 0xa82f + 1), (0xac5c02, 0xabe8b3, 0xabe8b4),
        (5, 9, 0), (u64::MAX, 0, 0), (1 << 63, 0, 0),
    ];
    if o.only_case.is_none() || o.only_case == Some(0) {
        sink.case("0");
        for &(pn, la, exp) in fixed { op_pn(&mut sink, pn, la, exp); }
    }
    for i in 1..o.cases.max(1) {
        if let Some(k) = o.only_case { if k != i { continue; } }
        let mut rng = Rng::new(o.seed, i);
        sink.case(&format!("{}", i));
        for _ in 0..10 {
            match rng.below(10) {
                0..=6 => { let (pn, la, exp) = triple(&mut rng, &mut sink); op_pn(&mut sink, pn, la, exp); }
                7 | 8 => {
                    // decode of an arbitrary in-memory value against an arbitrary expected
                    let v = *rng.pick(&[8u64, 16, 24, 32]);
                    let payload = match rng.below(3) { 0 => rng.next_u64(), 1 => boundary(&mut rng), _ => rng.below(1 << 12) } & (if v == 8 { 0xff } else if v == 16 { 0xffff } else { 0xffff_ffff });
                    let exp = any_u64(&mut rng);
                    let e = mk(v, payload);
                    let op = format!("dec {} {}", show(e).replace(':', " "), exp);
                    sink.pending(&op);
                    sink.line(&op, &format!("dec={}", dec_str(e, exp)));
                }
                _ => {
                    // parser on short / long inputs and illegal lengths
                    let len = rng.below(7);
                    let n = rng.below(7) as usize;
                    let input = rng.bytes(n);
                    let op = format!("take {} {}", len, hex(&input));
                    sink.pending(&op);
                    let r = catch(|| take_pn_len(len as u8)(&input[..]).map(|(r, p)| (r.to_vec(), p)));
                    let obs = match r { Ok(Ok((rest, p))) => format!("ok {} rest={}", show(p), hex(&rest)), Ok(Err(_)) => "err".into(), Err(m) => site(&m) };
                    sink.line(&op, &obs);
                }
            }
        }
    }
    sink.finish(&o.stats, "C07pn: (pn, largest_acked, expected) triples biased to 2^7/8/15/16/23/24/31/32/62/63 ±1 on the real PacketNumber::encode → put_packet_number → take_pn_len → decode (and the in-memory decode), arbitrary in-memory decode inputs, parser inputs of every length; non-trivial = a case containing a triple inside the property's domain; distinct by transcript hash");
}


// ------------------------------------------------------------------------------------------------
// C07j: guard life-cycle histories on a real ArcSentJournal<u32>

/// Canonical dump of the journal parsed from its derived `Debug` output (no hook needed):
/// `off=<offset> recs=<S|F<n>|R<n>|A<n>,…> q=<queue len> la=<largest acked>`
fn dump_sent(j: &ArcSentJournal<u32>) -> String {
    let d = format!("{:?}", j);
    if d.contains("<locked>") { return "LOCKED".into(); }
    let poisoned = d.contains("poisoned: true");
    let num_after = |key: &str, from: usize| -> Option<u64> {
        let p = d[from..].find(key)? + from + key.len();
        let e = d[p..].find(|c: char| !c.is_ascii_digit()).map(|e| e + p).unwrap_or(d.len());
        d[p..e].parse().ok()
    };
    // queue: [1, 2, 3]
    let qs = d.find("queue: [").map(|p| p + "queue: [".len()).unwrap_or(0);
    let qe = d[qs..].find(']').map(|e| e + qs).unwrap_or(qs);
    let qlen = if d[qs..qe].trim().is_empty() { 0 } else { d[qs..qe].split(',').count() };
    let sp = d.find("sent_packets:").unwrap_or(0);
    let mut recs = vec![];
    let mut i = sp;
    let end = d.find("largest_acked_pktno").unwrap_or(d.len());
    while i < end {
        let rest = &d[i..end];
        let cands = [("Skipped", 'S'), ("Flighting {", 'F'), ("Retransmitted {", 'R'), ("Acked {", 'A')];
        let next = cands.iter().filter_map(|(k, c)| rest.find(k).map(|p| (p, *k, *c))).min_by_key(|x| x.0);
        match next {
            None => break,
            Some((p, k, c)) => {
                let at = i + p + k.len();
                if c == 'S' { recs.push("S".to_string()); } else { recs.push(format!("{}{}", c, num_after("nframes: ", at).unwrap_or(u64::MAX))); }
                i = at;
            }
        }
    }
    let off = num_after("offset: ", sp).unwrap_or(u64::MAX);
    let la = num_after("largest_acked_pktno: ", 0).unwrap_or(u64::MAX);
    format!("{}off={} recs={} q={} la={}", if poisoned { "POISONED " } else { "" }, off, if recs.is_empty() { "-".into() } else { recs.join(",") }, qlen, la)
}

#[derive(Clone, Copy, Debug, PartialEq)]
enum JOp { Begin, Pn, Frame, Trivial, Build(u64, u64), BuildTrivial, Abandon, AckLargest(u64), Rotate, Acked(u64), Lost(u64), Tick(u64) }

fn gen_history(rng: &mut Rng) -> Vec<JOp> {
    let mut ops = vec![];
    let mut in_guard = false;
    let mut recorded = false;   // frame or trivial recorded in this guard
    let mut frames = 0u64;
    let mut next_pn = 0u64;     // generator's own estimate, only to aim acks at interesting numbers
    let n = rng.range(4, 60);
    let style = rng.below(4);   // 0: assembler-like only, 1..: everything the API allows
    for _ in 0..n {
        if in_guard {
            let r = rng.below(20);
            let op = match r {
                0..=3 => JOp::Pn,
                4..=8 => { recorded = true; frames += 1; JOp::Frame }
                9..=10 => { recorded = true; JOp::Trivial }
                11..=14 => {
                    if !recorded && style == 0 { JOp::Abandon } else { JOp::Build(rng.range(0, 50), rng.range(0, 120)) }
                }
                15 => if style >= 2 || (recorded && frames == 0) { JOp::BuildTrivial } else { JOp::Pn },
                16..=17 => if recorded && style <= 1 { JOp::Build(rng.range(0, 50), rng.range(0, 120)) } else { JOp::Abandon },
                18 => JOp::Tick(rng.range(1, 60)),
                _ => JOp::Pn,
            };
            match op {
                JOp::Build(..) | JOp::BuildTrivial => { in_guard = false; if recorded { next_pn += 1; } }
                JOp::Abandon => { in_guard = false; }
                _ => {}
            }
            ops.push(op);
        } else {
            let near = |rng: &mut Rng, n: u64| -> u64 { match rng.below(6) { 0 => n, 1 => n + 1, 2 => n.saturating_sub(1), 3 => rng.below(n + 2), 4 => n + rng.below(4), _ => rng.below(n + 1) } };
            let op = match rng.below(20) {
                0..=10 => { in_guard = true; recorded = false; frames = 0; JOp::Begin }
                11..=12 => JOp::AckLargest(near(rng, next_pn)),
                13..=14 => JOp::Acked(near(rng, next_pn)),
                15 => JOp::Lost(near(rng, next_pn)),
                16..=17 => JOp::Rotate,
                _ => JOp::Tick(rng.range(1, 80)),
            };
            ops.push(op);
        }
    }
    if in_guard && rng.chance(1, 2) { ops.push(JOp::Abandon); }
    ops
}

async fn journal_case(rng: &mut Rng, sink: &mut Sink, ops: &[JOp]) {
    let journal: ArcSentJournal<u32> = ArcSentJournal::with_capacity(rng.range(0, 8) as usize);
    let mut guard: Option<NewPacketGuard<'_, u32>> = None;
    // monitor state (never consults the model)
    let mut emitted: Vec<u64> = vec![];          // pn of every non-empty packet handed to build
    let mut guard_pn: Option<u64> = None;        // first pn() seen in this guard
    let mut recorded = false;
    let mut frames_in_guard = 0u32;
    let mut last_abandoned_pn: Option<u64> = None;
    let mut known_la = 0u64;                     // largest ack accepted so far
    let (mut n_abandon, mut n_built, mut n_rot) = (0, 0, 0);
    let mut fid = 0u32;
    for &op in ops {
        match op {
            JOp::Begin => {
                sink.pending("begin");
                guard = Some(journal.new_packet());
                guard_pn = None; recorded = false; frames_in_guard = 0;
                // every guard looks at its pn at least once (tx.rs does, in new_long/new_short)
                let g = guard.as_ref().unwrap();
                let obs = match catch(|| g.pn()) {
                    Ok((pn, e)) => {
                        guard_pn = Some(pn);
                        if let Some(a) = last_abandoned_pn.take() { if a != pn { sink.monitor_fail("abandon_consumed_pn", &format!("guard abandoned at pn {} but the next guard got pn {}", a, pn)); } }
                        if let Some(&l) = emitted.last() { if pn <= l { sink.monitor_fail("pn_not_increasing", &format!("new guard offers pn {} after a packet with pn {} was emitted", pn, l)); } }
                        // receiver-side reconstruction for every expected position the property allows
                        for exp in [known_la.min(pn), pn, (known_la + 1).min(pn), known_la.min(pn) + (pn - known_la.min(pn)) / 2] {
                            let mut b = BytesMut::new(); b.put_packet_number(e);
                            let d = catch(|| take_pn_len(e.size() as u8)(&b[..]).map(|(_, p)| p.decode(exp)));
                            if !matches!(d, Ok(Ok(v)) if v == pn) { sink.monitor_fail("guard_pn_wire_roundtrip", &format!("pn {} la {} exp {}: {:?}", pn, known_la, exp, d.map(|r| r.ok()))); }
                        }
                        format!("pn={} enc={}", pn, show(e))
                    }
                    Err(m) => { sink.monitor_fail(&format!("guard_pn_panic:{}", site(&m)), "NewPacketGuard::pn() panicked"); site(&m) }
                };
                sink.line("begin", &obs);
            }
            JOp::Pn => {
                let g = guard.as_ref().unwrap();
                let obs = match catch(|| g.pn()) {
                    Ok((pn, e)) => {
                        if guard_pn.is_some_and(|p| p != pn) { sink.monitor_fail("pn_unstable_within_guard", &format!("same guard returned pn {:?} then {}", guard_pn, pn)); }
                        format!("pn={} enc={}", pn, show(e))
                    }
                    Err(m) => site(&m),
                };
                sink.line("pn", &obs);
            }
            JOp::Frame => { fid += 1; guard.as_mut().unwrap().record_frame(fid); recorded = true; frames_in_guard += 1; sink.line("frame", "ok"); }
            JOp::Trivial => { guard.as_mut().unwrap().record_trivial(); recorded = true; sink.line("trivial", "ok"); }
            JOp::Build(rt, et) => {
                let g = guard.take().unwrap();
                let opn = format!("build {} {}", rt, et);
                sink.pending(&opn);
                let r = catch(move || g.build_with_time(Duration::from_millis(rt), Duration::from_millis(et)));
                match r {
                    Ok(()) => {
                        n_built += 1;
                        if recorded {
                            let pn = guard_pn.unwrap();
                            if let Some(&l) = emitted.last() { if pn <= l { sink.monitor_fail("pn_reused", &format!("packet emitted with pn {} after pn {}", pn, l)); } }
                            emitted.push(pn);
                        } else { sink.branch("build:empty(not counted as emitted)"); }
                        sink.line(&opn, &format!("built {}", dump_sent(&journal)));
                    }
                    Err(m) => { sink.line(&opn, &site(&m)); return; }
                }
            }
            JOp::BuildTrivial => {
                let g = guard.take().unwrap();
                sink.pending("build_trivial");
                let r = catch(move || g.build_trivial());
                match r {
                    Ok(()) => {
                        n_built += 1;
                        let pn = guard_pn.unwrap();
                        if let Some(&l) = emitted.last() { if pn <= l { sink.monitor_fail("pn_reused", &format!("packet emitted with pn {} after pn {}", pn, l)); } }
                        emitted.push(pn);
                        sink.line("build_trivial", &format!("built {}", dump_sent(&journal)));
                    }
                    Err(m) => { sink.branch("build_trivial:assert"); sink.line("build_trivial", &format!("{} {}", site(&m), dump_sent(&journal))); return; }
                }
            }
            JOp::Abandon => {
                drop(guard.take());
                n_abandon += 1;
                last_abandoned_pn = guard_pn;
                sink.branch(if frames_in_guard > 0 { "abandon:after_record_frame" } else if recorded { "abandon:after_trivial" } else { "abandon:clean" });
                sink.line("abandon", &format!("dropped {}", dump_sent(&journal)));
            }
            JOp::AckLargest(n) => {
                let f = AckFrame::new(VarInt::from_u64(n).unwrap(), VarInt::from_u32(0), VarInt::from_u32(0), vec![], None);
                let r = { let mut rot = journal.rotate(); rot.update_largest(&f) };
                n_rot += 1;
                if r.is_ok() && n > known_la { known_la = n; }
                sink.branch(if r.is_ok() { "acklargest:ok" } else { "acklargest:err" });
                sink.line(&format!("acklargest {}", n), &format!("{} {}", if r.is_ok() { "ok" } else { "err" }, dump_sent(&journal)));
            }
            JOp::Rotate => { drop(journal.rotate()); n_rot += 1; sink.line("rotate", &dump_sent(&journal)); }
            JOp::Acked(pn) => {
                let k = { let mut rot = journal.rotate(); rot.on_packet_acked(pn).count() };
                n_rot += 1;
                sink.line(&format!("acked {}", pn), &format!("n={} {}", k, dump_sent(&journal)));
            }
            JOp::Lost(pn) => {
                let k = { let mut rot = journal.rotate(); rot.may_loss_packet(pn).count() };
                n_rot += 1;
                sink.line(&format!("lost {}", pn), &format!("n={} {}", k, dump_sent(&journal)));
            }
            JOp::Tick(ms) => { tokio::time::advance(Duration::from_millis(ms)).await; sink.line(&format!("tick {}", ms), "ok"); }
        }
    }
    drop(guard);
    if n_abandon > 0 && n_built >= 2 && n_rot > 0 { sink.nontrivial(); }
}

pub fn run_j(o: &Opts) {
    let mut sink = Sink::new_with_stats(&o.out, &o.stats);
    let rt = tokio::runtime::Builder::new_current_thread().enable_time().start_paused(true).build().unwrap();
    rt.block_on(async {
        // fixed corpus: the histories the theorems' witnesses use
        let fixed: Vec<Vec<JOp>> = vec![
            vec![JOp::Begin, JOp::Frame, JOp::Build(10, 30), JOp::Begin, JOp::Abandon, JOp::Begin, JOp::Trivial, JOp::Build(10, 30), JOp::AckLargest(1), JOp::Begin, JOp::Pn, JOp::Frame, JOp::Pn, JOp::Build(5, 5), JOp::Acked(0), JOp::Rotate],
            vec![JOp::Begin, JOp::Build(1, 1), JOp::Begin, JOp::Trivial, JOp::Build(1, 1)],            // empty build does not consume the pn
            vec![JOp::Begin, JOp::Frame, JOp::Abandon, JOp::Begin, JOp::Frame, JOp::Build(1, 1)],      // abandon after record leaks a frame
            vec![JOp::AckLargest(0), JOp::AckLargest(1), JOp::Begin, JOp::Pn, JOp::Frame, JOp::Build(1, 1)], // ACK of the next unsent pn is accepted
            vec![JOp::Begin, JOp::Frame, JOp::BuildTrivial],
            vec![JOp::Begin, JOp::BuildTrivial],
            vec![JOp::Begin, JOp::Frame, JOp::Build(5, 10), JOp::Lost(0), JOp::Tick(11), JOp::Rotate, JOp::Begin, JOp::Pn, JOp::Abandon],
        ];
        let nfixed = fixed.len() as u64;
        for (i, h) in fixed.iter().enumerate() {
            if let Some(k) = o.only_case { if k != i as u64 { continue; } }
            let mut rng = Rng::new(o.seed, i as u64);
            sink.case(&format!("{}", i));
            journal_case(&mut rng, &mut sink, h).await;
        }
        for i in nfixed..o.cases.max(nfixed) {
            if let Some(k) = o.only_case { if k != i { continue; } }
            let mut rng = Rng::new(o.seed, i);
            sink.case(&format!("{}", i));
            let h = gen_history(&mut rng);
            journal_case(&mut rng, &mut sink, &h).await;
        }
    });
    sink.finish(&o.stats, "C07j: random life-cycle histories (begin / pn / frame / trivial / build / build_trivial / abandon, interleaved with acklargest / acked / lost / rotate / tick) on a real ArcSentJournal<u32> under tokio paused time, state read from Debug output; non-trivial = at least one abandoned guard, two built packets and one rotate-guard operation; distinct by transcript hash");
}


// ------------------------------------------------------------------------------------------------
// C07r: receiver side, real ArcRcvdJournal::{decode_pn, on_rcvd_pn} + queue rotation

fn rcvd_offset(j: &ArcRcvdJournal) -> u64 {
    let d = format!("{:?}", j);
    let p = d.find("offset: ").map(|p| p + 8).unwrap_or(0);
    let e = d[p..].find(|c: char| !c.is_ascii_digit()).map(|e| e + p).unwrap_or(d.len());
    d[p..e].parse().unwrap_or(u64::MAX)
}

pub fn run_r(o: &Opts) {
    let mut sink = Sink::new_with_stats(&o.out, &o.stats);
    for i in 0..o.cases {
        if let Some(k) = o.only_case { if k != i { continue; } }
        let mut rng = Rng::new(o.seed, i);
        sink.case(&format!("{}", i));
        let j = ArcRcvdJournal::with_capacity(rng.range(0, 8) as usize, None);
        let mut registered = std::collections::BTreeSet::<u64>::new();
        let mut largest = 0u64; // harness's own view of queue.largest(), only to aim the generator
        let mut ack_pn = 0u64;
        let (mut n_dup, mut n_old, mut n_ok) = (0, 0, 0);
        for _ in 0..rng.range(5, 50) {
            match rng.below(10) {
                0..=4 => {
                    // a packet arrives: aim at something near the window, send it as the peer would (wire form)
                    let target = match rng.below(6) { 0 => largest, 1 => largest + rng.below(5), 2 => largest.saturating_sub(1 + rng.below(6)), 3 => rng.below(largest + 2), 4 => largest + rng.below(200), _ => *registered.iter().nth(rng.below(registered.len().max(1) as u64) as usize).unwrap_or(&0) };
                    let v = *rng.pick(&[8u64, 16, 16, 24, 32]);
                    let bits = v;
                    let e = if rng.chance(1, 8) { mk(v, rng.next_u64() & ((1u64 << bits) - 1)) } else { mk(v, target & ((1u64 << bits) - 1)) };
                    let op = format!("decpn {}", show(e).replace(':', " "));
                    sink.pending(&op);
                    let r = catch(|| j.decode_pn(e));
                    let obs = match &r {
                        Ok(Ok(pn)) => {
                            let pn = *pn;
                            n_ok += 1;
                            if registered.contains(&pn) { sink.monitor_fail("accepted_twice", &format!("decode_pn accepted pn {} which was already registered with on_rcvd_pn", pn)); }
                            format!("ok {}", pn)
                        }
                        Ok(Err(InvalidPacketNumber::TooOld)) => { n_old += 1; "TooOld".into() }
                        Ok(Err(InvalidPacketNumber::Duplicate)) => { n_dup += 1; "Dup".into() }
                        Ok(Err(InvalidPacketNumber::TooLarge)) => "TooLarge".into(),
                        Err(m) => site(m),
                    };
                    sink.line(&op, &obs);
                    // like the real packet path: a successfully decoded (and authenticated) packet is registered
                    if let Ok(Ok(pn)) = r { if pn < largest + 300 && rng.chance(4, 5) {
                        j.on_rcvd_pn(pn, false, Duration::from_millis(10));
                        registered.insert(pn); largest = largest.max(pn + 1);
                        sink.line(&format!("rcvd {}", pn), "ok");
                    } }
                }
                5..=6 => {
                    // registration without a preceding decode (API allows it), bounded jump
                    let pn = match rng.below(3) { 0 => largest + rng.below(40), 1 => rng.below(largest + 1), _ => largest };
                    j.on_rcvd_pn(pn, false, Duration::from_millis(10));
                    if pn >= rcvd_offset(&j) { registered.insert(pn); largest = largest.max(pn + 1); }
                    sink.line(&format!("rcvd {}", pn), "ok");
                }
                _ => {
                    // make the queue rotate: send an ACK in packet `ack_pn`, have it acknowledged
                    if largest == 0 { continue; }
                    ack_pn += 1;
                    let upto = if rng.chance(1, 2) { largest - 1 } else { rng.below(largest) };
                    if j.gen_ack_frame_util(ack_pn, upto, tokio::time::Instant::now(), 1200).is_ok() {
                        let f = AckFrame::new(VarInt::from_u64(ack_pn).unwrap(), VarInt::from_u32(0), VarInt::from_u32(0), vec![], None);
                        j.on_rcvd_ack(&f);
                    }
                    sink.line("slide", &format!("off={}", rcvd_offset(&j)));
                }
            }
        }
        if n_dup > 0 && n_old > 0 && n_ok > 1 { sink.nontrivial(); }
    }
    sink.finish(&o.stats, "C07r: packets (wire-form packet numbers aimed at the window edges, duplicates and old numbers) decoded by a real ArcRcvdJournal::decode_pn, registered with on_rcvd_pn, queue rotated through gen_ack_frame_util + on_rcvd_ack (offset read from Debug output); non-trivial = at least one Duplicate, one TooOld and two accepted numbers; distinct by transcript hash");
}

pub const RUNS: &[(&str, fn(&Opts))] = &[("C07pn", run_pn), ("C07j", run_j), ("C07r", run_r)];

#[allow(dead_code)]
fn _unused() { let _ = unhex("-"); }
