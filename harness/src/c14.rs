//! C14: connection IDs are issued, used, retired and routed consistently.
//!
//! * `C14l` — several connections, each a REAL `ArcLocalCids` wired (as `qconnection/src/builder.rs` does) to a
//!   REAL shared `QuicRouter` through `registry_on_issuing_scid`; a thin harness-side wrapper around the real
//!   `QuicRouterRegistry` records `gen_unique_cid` / `retire_cid` / NEW_CONNECTION_ID frames.  Router lookups go
//!   through the real `QuicRouter::try_deliver` with a 1-RTT packet carrying the id; the connection that got
//!   the packet is found by polling every connection's `RcvdPacketQueue`.
//! * `C14r` — a REAL `ArcRemoteCids` with `ArcCidCell`s (paths); RETIRE_CONNECTION_ID frames through a recording
//!   `SendFrame`; private state (offsets, cursor, table sizes) from the derived `Debug` output.
//! * `C14x` — the same as `C14r`, exhaustive small scope.
use std::{
    collections::{BTreeMap, BTreeSet, HashMap},
    net::SocketAddr,
    sync::{Arc, Mutex},
};

use bytes::BytesMut;
use futures::FutureExt;
use qbase::{
    cid::{ArcCidCell, ArcLocalCids, ArcRemoteCids, BorrowedCid, ConnectionId, GenUniqueCid, RetireCid},
    error::ErrorKind,
    frame::{
        NewConnectionIdFrame, RetireConnectionIdFrame,
        io::{ReceiveFrame, SendFrame},
    },
    net::{
        addr::EndpointAddr,
        route::{Link, Pathway},
        tx::ArcSendWaker,
    },
    packet::{DataHeader, DataPacket, OneRttHeader, Packet},
    varint::VarInt,
};
use qinterface::{
    bind_uri::BindUri,
    component::route::{QuicRouter, QuicRouterEntry, QuicRouterRegistry, RcvdPacketQueue, Signpost},
};

use crate::common::{catch, Opts, Rng, Sink};

fn list(xs: &[String]) -> String {
    if xs.is_empty() { "-".into() } else { xs.join(",") }
}

fn kind_tok(k: ErrorKind) -> String {
    match k {
        ErrorKind::ConnectionIdLimit => "CIL".into(),
        ErrorKind::ProtocolViolation => "PV".into(),
        ErrorKind::TransportParameter => "TP".into(),
        other => format!("{:?}", other),
    }
}

// ------------------------------------------------------------------------------------------------
// C14l
// ------------------------------------------------------------------------------------------------

/// names of connection ids: generated ones `g<n>` in order of generation, harness-chosen ones `x<n>`.
#[derive(Default)]
struct Names {
    by_cid: HashMap<ConnectionId, String>,
    by_name: HashMap<String, ConnectionId>,
    gen: u64,
    ext: u64,
}

impl Names {
    fn name_gen(&mut self, c: ConnectionId) -> String {
        if let Some(n) = self.by_cid.get(&c) {
            return n.clone(); // the real code produced an id it had produced before
        }
        let n = format!("g{}", self.gen);
        self.gen += 1;
        self.by_cid.insert(c, n.clone());
        self.by_name.insert(n.clone(), c);
        n
    }
    fn new_ext(&mut self, rng: &mut Rng) -> (String, ConnectionId) {
        loop {
            let mut b = rng.bytes(8);
            b[0] &= 0x7f; // generated ids carry the 0x80 mark: a client-chosen id without it can never collide
            let c = ConnectionId::from_slice(&b);
            if self.by_cid.contains_key(&c) { continue; }
            let n = format!("x{}", self.ext);
            self.ext += 1;
            self.by_cid.insert(c, n.clone());
            self.by_name.insert(n.clone(), c);
            return (n, c);
        }
    }
}

#[derive(Default)]
struct Log {
    frames: Vec<(u64, u64, String)>,
    gone: Vec<String>,
}

/// the real registry + a recorder
struct Issuer {
    inner: QuicRouterRegistry<NoFrames>,
    names: Arc<Mutex<Names>>,
    log: Arc<Mutex<Log>>,
}

#[derive(Clone, Copy)]
struct NoFrames;

impl GenUniqueCid for Issuer {
    fn gen_unique_cid(&self) -> ConnectionId {
        let c = self.inner.gen_unique_cid();
        self.names.lock().unwrap().name_gen(c);
        c
    }
}

impl RetireCid for Issuer {
    fn retire_cid(&self, cid: ConnectionId) {
        self.inner.retire_cid(cid);
        let n = self.names.lock().unwrap().by_cid.get(&cid).cloned().unwrap_or_else(|| "?".into());
        self.log.lock().unwrap().gone.push(n);
    }
}

impl SendFrame<NewConnectionIdFrame> for Issuer {
    fn send_frame<I: IntoIterator<Item = NewConnectionIdFrame>>(&self, iter: I) {
        for f in iter {
            let n = self.names.lock().unwrap().by_cid.get(f.connection_id()).cloned().unwrap_or_else(|| "?".into());
            self.log.lock().unwrap().frames.push((f.sequence(), f.retire_prior_to(), n));
        }
    }
}

struct LConn {
    queue: Arc<RcvdPacketQueue>,
    local: Option<ArcLocalCids<Issuer>>,
    odcid: Option<(String, QuicRouterEntry)>,
    log: Arc<Mutex<Log>>,
    // ---- independent bookkeeping for the monitors ----
    ids: BTreeMap<u64, String>, // seq -> id, every id ever issued by this connection
    retired: BTreeSet<u64>,     // seqs whose retirement was accepted
    gone: bool,                 // cleared or dropped
    limit: Option<u64>,
    next_seq: u64,
    last_rpt: u64,
    poisoned: bool,
}

impl LConn {
    fn active(&self) -> usize {
        if self.gone { 0 } else { self.ids.keys().filter(|s| !self.retired.contains(s)).count() }
    }
}

fn take_log(log: &Arc<Mutex<Log>>) -> (Vec<(u64, u64, String)>, Vec<String>) {
    let mut g = log.lock().unwrap();
    (std::mem::take(&mut g.frames), std::mem::take(&mut g.gone))
}

fn frames_str(fs: &[(u64, u64, String)]) -> String {
    list(&fs.iter().map(|(s, r, c)| format!("{}:{}:{}", s, r, c)).collect::<Vec<_>>())
}

fn way() -> (BindUri, Pathway, Link) {
    let a: SocketAddr = "127.0.0.1:1".parse().unwrap();
    let b: SocketAddr = "127.0.0.1:2".parse().unwrap();
    (BindUri::from(a), Pathway::new(EndpointAddr::Direct { addr: a }, EndpointAddr::Direct { addr: b }), Link::new(b, a))
}

/// Real routing decision for a packet whose DCID is `cid`: index of the connection whose queue received it.
fn route(router: &Arc<QuicRouter>, conns: &[LConn], cid: ConnectionId) -> Result<Option<usize>, String> {
    let pkt = Packet::Data(DataPacket {
        header: DataHeader::Short(OneRttHeader::new(Default::default(), cid)),
        bytes: BytesMut::new(),
        offset: 0,
    });
    let delivered = futures::executor::block_on(router.try_deliver(pkt, way())).is_ok();
    let mut got = vec![];
    for (k, c) in conns.iter().enumerate() {
        let mut n = 0;
        while let Some(Some(_)) = c.queue.one_rtt().recv().now_or_never() {
            n += 1;
        }
        if n > 0 { got.push((k, n)); }
    }
    match (delivered, got.as_slice()) {
        (false, []) => Ok(None),
        (true, [(k, 1)]) => Ok(Some(*k)),
        _ => Err(format!("delivered={} queues={:?}", delivered, got)),
    }
}

fn absorb_frames(c: &mut LConn, k: usize, fs: &[(u64, u64, String)], sink: &mut Sink) {
    for (s, r, id) in fs {
        if *s != c.next_seq {
            sink.monitor_fail("local_seq_not_consecutive", &format!("conn {}: NEW_CONNECTION_ID seq {} after {} ids", k, s, c.next_seq));
        }
        if r > s { sink.monitor_fail("local_rpt_above_seq", &format!("conn {}: retire_prior_to {} > seq {}", k, r, s)); }
        if *r < c.last_rpt { sink.monitor_fail("local_rpt_decreased", &format!("conn {}: retire_prior_to {} after {}", k, r, c.last_rpt)); }
        c.last_rpt = *r;
        c.next_seq = s + 1;
        c.ids.insert(*s, id.clone());
    }
}

fn one_case_l(rng: &mut Rng, sink: &mut Sink) {
    let router = Arc::new(QuicRouter::new());
    let names = Arc::new(Mutex::new(Names::default()));
    let mut conns: Vec<LConn> = vec![];
    let nops = rng.range(4, 40);
    let mut retire_live = false;
    let mut retire_mid = false;
    let mut dropped_any = false;
    for step in 0..nops {
        let c = if conns.is_empty() || step == 0 { 0 } else { rng.below(100) };
        let k = if conns.is_empty() { 0 } else { rng.below(conns.len() as u64) as usize };
        if c < 10 && conns.len() < 4 {
            // ---- new connection, wired like builder.rs ----
            let server = rng.chance(1, 2);
            let queue = Arc::new(RcvdPacketQueue::new());
            let log = Arc::new(Mutex::new(Log::default()));
            let reg = router.registry_on_issuing_scid(queue.clone(), NoFrames);
            let issuer = Issuer { inner: reg, names: names.clone(), log: log.clone() };
            let scid = issuer.gen_unique_cid();
            let scid_name = names.lock().unwrap().by_cid[&scid].clone();
            let od = if server {
                let (n, cid) = names.lock().unwrap().new_ext(rng);
                let e = router.insert(Signpost::from(cid), queue.clone());
                Some((n, e))
            } else { None };
            let op = format!("conn {}", od.as_ref().map(|x| x.0.clone()).unwrap_or("-".into()));
            let local = ArcLocalCids::new(scid, issuer);
            let (fs, _) = take_log(&log);
            let kk = conns.len();
            let mut lc = LConn { queue, local: Some(local), odcid: od, log, ids: BTreeMap::new(), retired: BTreeSet::new(), gone: false, limit: None, next_seq: 1, last_rpt: 0, poisoned: false };
            lc.ids.insert(0, scid_name.clone());
            absorb_frames(&mut lc, kk, &fs, sink);
            conns.push(lc);
            sink.branch(if server { "conn:server" } else { "conn:client" });
            sink.line(&op, &format!("k={} scid={} frames={}", kk, scid_name, frames_str(&fs)));
        } else if c < 25 {
            let Some(local) = conns[k].local.clone() else { continue };
            let n = match rng.below(12) { 0 => 0, 1 => 1, 2 | 3 => 2, 4 | 5 => 3, 6 | 7 => 4, 8 => rng.range(5, 9), 9 => rng.range(9, 40), 10 => conns[k].next_seq, _ => conns[k].next_seq + 1 };
            let op = format!("setlimit {} {}", k, n);
            sink.pending(&op);
            let r = catch(|| local.set_limit(n));
            let (fs, gone) = take_log(&conns[k].log);
            match r {
                Ok(Ok(())) => {
                    if n < 2 { sink.monitor_fail("limit_below_2_accepted", &format!("set_limit({}) accepted", n)); }
                    conns[k].limit = Some(n);
                    absorb_frames(&mut conns[k], k, &fs, sink);
                    sink.branch(if fs.is_empty() { "setlimit:none-issued" } else { "setlimit:issued" });
                    sink.line(&op, &format!("ok frames={} gone={}", frames_str(&fs), list(&gone)));
                }
                Ok(Err(e)) => {
                    if n >= 2 { sink.monitor_fail("limit_rejected", &format!("set_limit({}) rejected", n)); }
                    sink.branch("setlimit:err");
                    sink.line(&op, &format!("err {}", kind_tok(e.kind())));
                }
                Err(_) => {
                    // second set_limit (debug_assert) or a poisoned mutex: API misuse, not judged
                    conns[k].poisoned = true;
                    sink.branch("setlimit:panic");
                    sink.line(&op, "PANIC");
                }
            }
        } else if c < 70 {
            let Some(local) = conns[k].local.clone() else { continue };
            let live: Vec<u64> = conns[k].ids.keys().filter(|s| !conns[k].retired.contains(s)).cloned().collect();
            let nx = conns[k].next_seq;
            let seq = match rng.below(12) {
                0..=4 if !live.is_empty() => *rng.pick(&live),
                5 if !live.is_empty() => *live.last().unwrap(),
                6 => rng.below(nx),
                7 => nx,
                8 => nx + 1,
                9 => nx + rng.range(2, 50),
                10 => rng.varint62(),
                _ => rng.below(nx + 1),
            };
            let op = format!("retire {} {}", k, seq);
            sink.pending(&op);
            let was_live = !conns[k].gone && live.contains(&seq);
            let unissued = seq >= nx;
            let r = catch(|| local.recv_frame(RetireConnectionIdFrame::new(VarInt::from_u64(seq).unwrap())));
            let (fs, gone) = take_log(&conns[k].log);
            match r {
                Ok(Ok(())) => {
                    if unissued { sink.monitor_fail("retire_unissued_accepted", &format!("conn {}: RETIRE_CONNECTION_ID {} accepted, only {} ids issued", k, seq, nx)); }
                    if was_live {
                        if live.first() != Some(&seq) { retire_mid = true; }
                        retire_live = true;
                        conns[k].retired.insert(seq);
                        if fs.len() != 1 { sink.monitor_fail("retire_not_replaced", &format!("conn {}: retiring live seq {} issued {} ids", k, seq, fs.len())); }
                        sink.branch("retire:live");
                    } else {
                        if !fs.is_empty() { sink.monitor_fail("retire_noop_issued", &format!("conn {}: retiring non-live seq {} issued {} ids", k, seq, fs.len())); }
                        sink.branch("retire:noop");
                    }
                    absorb_frames(&mut conns[k], k, &fs, sink);
                    sink.line(&op, &format!("ok frames={} gone={}", frames_str(&fs), list(&gone)));
                }
                Ok(Err(e)) => {
                    if !unissued { sink.monitor_fail("retire_issued_rejected", &format!("conn {}: RETIRE_CONNECTION_ID {} rejected, {} ids issued", k, seq, nx)); }
                    else if e.kind() != ErrorKind::ProtocolViolation {
                        // RFC 9000 §19.16: MUST be PROTOCOL_VIOLATION
                        sink.monitor_fail("retire_unissued_wrong_kind", &format!("conn {}: RETIRE_CONNECTION_ID {} (only {} issued) rejected with {:?}", k, seq, nx, e.kind()));
                    }
                    sink.branch("retire:unissued");
                    sink.line(&op, &format!("err {}", kind_tok(e.kind())));
                }
                Err(_) => {
                    if !conns[k].poisoned { sink.monitor_fail("panic:local:retire", &format!("recv RETIRE_CONNECTION_ID {} panicked", seq)); }
                    sink.branch("retire:panic");
                    sink.line(&op, "PANIC");
                }
            }
        } else if c < 75 {
            let Some(local) = conns[k].local.clone() else { continue };
            let op = format!("clear {}", k);
            let r = catch(|| local.clear());
            let (_, gone) = take_log(&conns[k].log);
            match r {
                Ok(()) => { let all: Vec<u64> = conns[k].ids.keys().cloned().collect(); conns[k].retired.extend(all); sink.branch("clear"); sink.line(&op, &format!("ok frames=- gone={}", list(&gone))); }
                Err(_) => { if !conns[k].poisoned { sink.monitor_fail("panic:local:clear", "clear panicked"); } sink.line(&op, "PANIC"); }
            }
        } else if c < 82 {
            let Some(local) = conns[k].local.take() else { continue };
            let op = format!("drop {}", k);
            let r = catch(move || drop(local));
            let (_, gone) = take_log(&conns[k].log);
            dropped_any = true;
            match r {
                Ok(()) => { conns[k].gone = true; conns[k].ids.clear(); sink.branch("drop"); sink.line(&op, &format!("ok frames=- gone={}", list(&gone))); }
                Err(_) => { sink.monitor_fail("panic:local:drop", "drop panicked"); sink.line(&op, "PANIC"); }
            }
        } else if c < 87 {
            let Some((_, e)) = conns[k].odcid.take() else { continue };
            drop(e);
            sink.branch("dropodcid");
            sink.line(&format!("dropodcid {}", k), "ok frames=- gone=-");
        } else {
            // explicit lookup of some id (any name ever seen, or an unknown one)
            let nm = { let g = names.lock().unwrap(); let mut v: Vec<&String> = g.by_name.keys().collect(); v.sort(); if v.is_empty() { continue } else { (*rng.pick(&v)).clone() } };
            let cid = names.lock().unwrap().by_name[&nm];
            match route(&router, &conns, cid) {
                Ok(Some(q)) => { sink.branch("route:hit"); sink.line(&format!("route {}", nm), &format!("conn={}", q)); }
                Ok(None) => { sink.branch("route:miss"); sink.line(&format!("route {}", nm), "none"); }
                Err(e) => { sink.monitor_fail("route:ambiguous", &e); sink.line(&format!("route {}", nm), "AMBIGUOUS"); }
            }
        }
        // ---------------- monitors: evaluated on the real router after every operation ----------------
        // (1) active ids of every connection within the peer's limit (2 until known)
        for (q, cn) in conns.iter().enumerate() {
            let lim = cn.limit.unwrap_or(2);
            if cn.active() as u64 > lim {
                sink.monitor_fail("local_active_exceeds_limit", &format!("conn {}: {} unretired ids, peer limit {}", q, cn.active(), lim));
            }
        }
        // (2) every id ever issued / registered: live ⇒ routed to its own connection, otherwise unrouted
        let mut expect: Vec<(String, Option<usize>)> = vec![];
        {
            let g = names.lock().unwrap();
            let mut owner: HashMap<&String, usize> = HashMap::new();
            for (q, cn) in conns.iter().enumerate() {
                if !cn.gone {
                    for (s, id) in &cn.ids { if !cn.retired.contains(s) { owner.insert(id, q); } }
                }
                if let Some((n, _)) = &cn.odcid { owner.insert(n, q); }
            }
            let mut all: Vec<&String> = g.by_name.keys().collect();
            all.sort();
            for n in all { expect.push((n.clone(), owner.get(n).cloned())); }
        }
        for (n, want) in expect {
            let cid = names.lock().unwrap().by_name[&n];
            match route(&router, &conns, cid) {
                Ok(got) if got == want => {}
                Ok(got) => {
                    let key = match (want, got) {
                        (Some(_), None) => "route:live_id_unrouted",
                        (Some(_), Some(_)) => "route:live_id_misrouted",
                        (None, _) => "route:dead_id_routed",
                    };
                    sink.monitor_fail(key, &format!("id {} is routed to {:?}, should be {:?}", n, got, want));
                }
                Err(e) => sink.monitor_fail("route:ambiguous", &e),
            }
        }
    }
    if retire_live && retire_mid && dropped_any && conns.len() >= 2 { sink.nontrivial(); }
}

pub fn run_l(o: &Opts) {
    let mut sink = Sink::new_with_stats(&o.out, &o.stats);
    for i in 0..o.cases {
        if let Some(k) = o.only_case { if k != i { continue; } }
        let mut rng = Rng::new(o.seed, i);
        sink.case(&format!("{}", i));
        one_case_l(&mut rng, &mut sink);
    }
    sink.finish(&o.stats, "random histories of connection creation (client / server with original DCID), set_limit, RETIRE_CONNECTION_ID (live, retired, slid-out, unissued numbers), clear, drop, dropping the original-DCID entry and lookups, over up to 4 real ArcLocalCids on one real QuicRouter; non-trivial = at least 2 connections, a live id retired, a non-front id retired and a connection dropped; distinct by hash of the case transcript");
}

pub const RUNS: &[(&str, fn(&Opts))] = &[("C14l", run_l)];
