//! C14: connection IDs are issued, used, retired and routed consistently.
//!
//! * `C14l` — several connections, each a REAL `ArcLocalCids` wired (as `qconnection/src/builder.rs` does) to a
//!   REAL shared `QuicRouter` through `registry_on_issuing_scid`; a thin harness-side wrapper around the real
//!   `QuicRouterRegistry` records `gen_unique_cid` / `retire_cid` / NEW_CONNECTION_ID frames.  Router lookups go
//!   through the real `QuicRouter::try_deliver` with a 1-RTT packet carrying the id; the connection that got
//!   the packet is found by polling every connection's `RcvdPacketQueue`.
//! * `C14r` — a REAL `ArcRemoteCids` with `ArcCidCell`s (paths); RETIRE_CONNECTION_ID frames through a recording
//!   `SendFrame`; private state (offsets, cursor, table sizes) from the derived `Debug` output.
//! * `C14x` — the same as `C14r`, exhaustive small scope.
use std::{
    collections::{BTreeMap, BTreeSet, HashMap},
    net::SocketAddr,
    sync::{Arc, Mutex, Weak},
};

use bytes::BytesMut;
use futures::FutureExt;
use qbase::{
    cid::{ArcCidCell, ArcLocalCids, ArcRemoteCids, BorrowedCid, ConnectionId, GenUniqueCid, RetireCid},
    error::ErrorKind,
    frame::{
        NewConnectionIdFrame, RetireConnectionIdFrame,
        io::{ReceiveFrame, SendFrame},
    },
    net::{
        addr::EndpointAddr,
        route::{Link, Pathway},
        tx::ArcSendWaker,
    },
    packet::{DataHeader, DataPacket, OneRttHeader, Packet},
    varint::VarInt,
};
use qinterface::{
    bind_uri::BindUri,
    component::route::{QuicRouter, QuicRouterEntry, QuicRouterRegistry, RcvdPacketQueue, Signpost},
};

use crate::common::{catch, Opts, Rng, Sink};

fn list(xs: &[String]) -> String {
    if xs.is_empty() { "-".into() } else { xs.join(",") }
}

fn kind_tok(k: ErrorKind) -> String {
    match k {
        ErrorKind::ConnectionIdLimit => "CIL".into(),
        ErrorKind::ProtocolViolation => "PV".into(),
        ErrorKind::TransportParameter => "TP".into(),
        other => format!("{:?}", other),
    }
}

// ------------------------------------------------------------------------------------------------
// C14l
// ------------------------------------------------------------------------------------------------

/// names of connection ids: generated ones `g<n>` in order of generation, harness-chosen ones `x<n>`.
#[derive(Default)]
struct Names {
    by_cid: HashMap<ConnectionId, String>,
    by_name: HashMap<String, ConnectionId>,
    ngen: u64,
    next: u64,
}

impl Names {
    fn name_gen(&mut self, c: ConnectionId) -> String {
        if let Some(n) = self.by_cid.get(&c) {
            return n.clone(); // the real code produced an id it had produced before
        }
        let n = format!("g{}", self.ngen);
        self.ngen += 1;
        self.by_cid.insert(c, n.clone());
        self.by_name.insert(n.clone(), c);
        n
    }
    fn new_ext(&mut self, rng: &mut Rng) -> (String, ConnectionId) {
        loop {
            let mut b = rng.bytes(8);
            b[0] &= 0x7f; // generated ids carry the 0x80 mark: a client-chosen id without it can never collide
            let c = ConnectionId::from_slice(&b);
            if self.by_cid.contains_key(&c) { continue; }
            let n = format!("x{}", self.next);
            self.next += 1;
            self.by_cid.insert(c, n.clone());
            self.by_name.insert(n.clone(), c);
            return (n, c);
        }
    }
}

#[derive(Default)]
struct Log {
    frames: Vec<(u64, u64, String)>,
    gone: Vec<String>,
}

/// the real registry + a recorder
struct Issuer {
    inner: QuicRouterRegistry<NoFrames>,
    names: Arc<Mutex<Names>>,
    log: Arc<Mutex<Log>>,
}

#[derive(Clone, Copy)]
struct NoFrames;

impl GenUniqueCid for Issuer {
    fn gen_unique_cid(&self) -> ConnectionId {
        let c = self.inner.gen_unique_cid();
        self.names.lock().unwrap().name_gen(c);
        c
    }
}

impl RetireCid for Issuer {
    fn retire_cid(&self, cid: ConnectionId) {
        self.inner.retire_cid(cid);
        let n = self.names.lock().unwrap().by_cid.get(&cid).cloned().unwrap_or_else(|| "?".into());
        self.log.lock().unwrap().gone.push(n);
    }
}

impl SendFrame<NewConnectionIdFrame> for Issuer {
    fn send_frame<I: IntoIterator<Item = NewConnectionIdFrame>>(&self, iter: I) {
        for f in iter {
            let n = self.names.lock().unwrap().by_cid.get(f.connection_id()).cloned().unwrap_or_else(|| "?".into());
            self.log.lock().unwrap().frames.push((f.sequence(), f.retire_prior_to(), n));
        }
    }
}

struct LConn {
    queue: Option<Arc<RcvdPacketQueue>>, // the connection's own handle (released by `relq`)
    wq: Weak<RcvdPacketQueue>,           // to look into the queue while anybody (e.g. the router table) keeps it alive

    local: Option<Arc<ArcLocalCids<Issuer>>>,
    odcid: Option<(String, QuicRouterEntry)>,
    log: Arc<Mutex<Log>>,
    // ---- independent bookkeeping for the monitors ----
    ids: BTreeMap<u64, String>, // seq -> id, every id ever issued by this connection
    retired: BTreeSet<u64>,     // seqs whose retirement was accepted
    gone: bool,                 // cleared or dropped
    limit: Option<u64>,
    next_seq: u64,
    last_rpt: u64,
    poisoned: bool,
}

impl LConn {
    fn active(&self) -> usize {
        if self.gone { 0 } else { self.ids.keys().filter(|s| !self.retired.contains(s)).count() }
    }
}

fn take_log(log: &Arc<Mutex<Log>>) -> (Vec<(u64, u64, String)>, Vec<String>) {
    let mut g = log.lock().unwrap();
    (std::mem::take(&mut g.frames), std::mem::take(&mut g.gone))
}

fn frames_str(fs: &[(u64, u64, String)]) -> String {
    list(&fs.iter().map(|(s, r, c)| format!("{}:{}:{}", s, r, c)).collect::<Vec<_>>())
}

fn way() -> (BindUri, Pathway, Link) {
    let a: SocketAddr = "127.0.0.1:1".parse().unwrap();
    let b: SocketAddr = "127.0.0.1:2".parse().unwrap();
    (BindUri::from(a), Pathway::new(EndpointAddr::Direct { addr: a }, EndpointAddr::Direct { addr: b }), Link::new(b, a))
}

/// Real routing decision for a packet whose DCID is `cid`: index of the connection whose queue received it.
fn route(router: &Arc<QuicRouter>, conns: &[LConn], cid: ConnectionId) -> Result<Option<usize>, String> {
    let pkt = Packet::Data(DataPacket {
        header: DataHeader::Short(OneRttHeader::new(Default::default(), cid)),
        bytes: BytesMut::new(),
        offset: 0,
    });
    let delivered = futures::executor::block_on(router.try_deliver(pkt, way())).is_ok();
    let mut got = vec![];
    for (k, c) in conns.iter().enumerate() {
        let mut n = 0;
        if let Some(q) = c.wq.upgrade() {
            while let Some(Some(_)) = q.one_rtt().recv().now_or_never() {
                n += 1;
            }
        }
        if n > 0 { got.push((k, n)); }
    }
    match (delivered, got.as_slice()) {
        (false, []) => Ok(None),
        (true, [(k, 1)]) => Ok(Some(*k)),
        _ => Err(format!("delivered={} queues={:?}", delivered, got)),
    }
}

fn absorb_frames(c: &mut LConn, k: usize, fs: &[(u64, u64, String)], sink: &mut Sink) {
    for (s, r, id) in fs {
        if *s != c.next_seq {
            sink.monitor_fail("local_seq_not_consecutive", &format!("conn {}: NEW_CONNECTION_ID seq {} after {} ids", k, s, c.next_seq));
        }
        if r > s { sink.monitor_fail("local_rpt_above_seq", &format!("conn {}: retire_prior_to {} > seq {}", k, r, s)); }
        if *r < c.last_rpt { sink.monitor_fail("local_rpt_decreased", &format!("conn {}: retire_prior_to {} after {}", k, r, c.last_rpt)); }
        c.last_rpt = *r;
        c.next_seq = s + 1;
        c.ids.insert(*s, id.clone());
    }
}

fn one_case_l(rng: &mut Rng, sink: &mut Sink) {
    let router = Arc::new(QuicRouter::new());
    let names = Arc::new(Mutex::new(Names::default()));
    let mut conns: Vec<LConn> = vec![];
    let nops = rng.range(4, 40);
    let mut retire_live = false;
    let mut retire_mid = false;
    let mut dropped_any = false;
    // monitor bookkeeping for signposts registered through `QuicRouter::insert`: the LATEST registration owns the route
    // until that connection's entry is dropped (an earlier connection's entry is then stale and routes nothing)
    let mut reg_owner: HashMap<String, usize> = HashMap::new();
    let mut xnames: Vec<String> = vec![];
    let mut forced: std::collections::VecDeque<(u64, usize)> = Default::default();
    let mut saw_stale_after_free = false;
    for step in 0..nops {
        let mut c = if conns.is_empty() || step == 0 { 0 } else { rng.below(100) };
        let mut k = if conns.is_empty() { 0 } else { rng.below(conns.len() as u64) as usize };
        if let Some((fc, fk)) = forced.pop_front() { c = fc; k = fk; }
        else if c >= 97 && !conns.is_empty() {
            // tear one connection down: its LocalCids, its packet queue and its router entry go away in a random order
            let mut parts = vec![80u64, 67, 85];
            for i in (1..parts.len()).rev() { let j = rng.below(i as u64 + 1) as usize; parts.swap(i, j); }
            for pc in parts { forced.push_back((pc, k)); }
            sink.branch("teardown");
            continue;
        }
        if c < 10 && conns.len() < 4 {
            // ---- new connection, wired like builder.rs ----
            let server = rng.chance(1, 2);
            let queue = Arc::new(RcvdPacketQueue::new());
            let log = Arc::new(Mutex::new(Log::default()));
            let reg = router.registry_on_issuing_scid(queue.clone(), NoFrames);
            let issuer = Issuer { inner: reg, names: names.clone(), log: log.clone() };
            let scid = issuer.gen_unique_cid();
            let scid_name = names.lock().unwrap().by_cid[&scid].clone();
            let od = if server {
                // mostly a fresh client-chosen id; sometimes a signpost that was registered before (same original DCID
                // seen twice): `QuicRouter::insert` takes the route over
                let (n, cid) = if !xnames.is_empty() && rng.chance(2, 5) {
                    let n = rng.pick(&xnames).clone();
                    let cid = names.lock().unwrap().by_name[&n];
                    sink.branch(if reg_owner.contains_key(&n) { "conn:takeover" } else { "conn:reuse-free-signpost" });
                    (n, cid)
                } else {
                    let (n, cid) = names.lock().unwrap().new_ext(rng);
                    xnames.push(n.clone());
                    (n, cid)
                };
                let e = router.insert(Signpost::from(cid), queue.clone());
                if let Some(prev) = reg_owner.get(&n).cloned() {
                    // often the superseded connection is torn down next, its three parts in a random order
                    if rng.chance(1, 2) {
                        let mut parts = vec![80u64, 67, 85];
                        for i in (1..parts.len()).rev() { let j = rng.below(i as u64 + 1) as usize; parts.swap(i, j); }
                        for pc in parts { forced.push_back((pc, prev)); }
                        sink.branch("teardown:superseded");
                    }
                }
                reg_owner.insert(n.clone(), conns.len());
                Some((n, e))
            } else { None };
            let op = format!("conn {}", od.as_ref().map(|x| x.0.clone()).unwrap_or("-".into()));
            let local = ArcLocalCids::new(scid, issuer);
            let (fs, _) = take_log(&log);
            let kk = conns.len();
            let wq = Arc::downgrade(&queue);
            let mut lc = LConn { queue: Some(queue), wq, local: Some(Arc::new(local)), odcid: od, log, ids: BTreeMap::new(), retired: BTreeSet::new(), gone: false, limit: None, next_seq: 1, last_rpt: 0, poisoned: false };
            lc.ids.insert(0, scid_name.clone());
            absorb_frames(&mut lc, kk, &fs, sink);
            conns.push(lc);
            sink.branch(if server { "conn:server" } else { "conn:client" });
            sink.line(&op, &format!("k={} scid={} frames={}", kk, scid_name, frames_str(&fs)));
        } else if c < 25 {
            let Some(local) = conns[k].local.clone() else { continue };
            if conns[k].limit.is_some() && !rng.chance(1, 12) { continue; } // a second set_limit is API misuse (debug_assert): rare
            let n = match rng.below(15) { 0 => 0, 1 => 1, 2 | 3 => 2, 4 | 5 => 3, 6 | 7 => 4, 8 => rng.range(5, 9), 9 => rng.range(9, 40), 10 => conns[k].next_seq, 11 => conns[k].next_seq + 1, 12 => rng.range(40, 101), 13 => *rng.pick(&[63u64, 64, 65, 66, 100, 1000, 16384]), _ => conns[k].next_seq + 1 };
            let op = format!("setlimit {} {}", k, n);
            sink.pending(&op);
            let r = catch(|| local.set_limit(n));
            let (fs, gone) = take_log(&conns[k].log);
            match r {
                Ok(Ok(())) => {
                    if n < 2 { sink.monitor_fail("limit_below_2_accepted", &format!("set_limit({}) accepted", n)); }
                    conns[k].limit = Some(n);
                    absorb_frames(&mut conns[k], k, &fs, sink);
                    sink.branch(if fs.is_empty() { "setlimit:none-issued" } else { "setlimit:issued" });
                    sink.line(&op, &format!("ok frames={} gone={}", frames_str(&fs), list(&gone)));
                }
                Ok(Err(e)) => {
                    if n >= 2 { sink.monitor_fail("limit_rejected", &format!("set_limit({}) rejected", n)); }
                    sink.branch("setlimit:err");
                    sink.line(&op, &format!("err {}", kind_tok(e.kind())));
                }
                Err(_) => {
                    // second set_limit (debug_assert) or a poisoned mutex: API misuse, not judged
                    conns[k].poisoned = true;
                    sink.branch("setlimit:panic");
                    sink.line(&op, "PANIC");
                }
            }
        } else if (66..70).contains(&c) {
            // the connection lets go of its `Arc<RcvdPacketQueue>`; the queue is freed once the registry (inside LocalCids)
            // and every table entry pointing to it are gone too
            let Some(q) = conns[k].queue.take() else { continue };
            drop(q);
            sink.branch(if conns[k].wq.upgrade().is_none() { "relq:freed" } else { "relq:still-referenced" });
            sink.line(&format!("relq {}", k), "ok frames=- gone=-");
        } else if c < 70 {
            let Some(local) = conns[k].local.clone() else { continue };
            let live: Vec<u64> = conns[k].ids.keys().filter(|s| !conns[k].retired.contains(s)).cloned().collect();
            let nx = conns[k].next_seq;
            let seq = match rng.below(12) {
                0..=4 if !live.is_empty() => *rng.pick(&live),
                5 if !live.is_empty() => *live.last().unwrap(),
                6 => rng.below(nx),
                7 => nx,
                8 => nx + 1,
                9 => nx + rng.range(2, 50),
                10 => rng.varint62(),
                _ => rng.below(nx + 1),
            };
            let op = format!("retire {} {}", k, seq);
            sink.pending(&op);
            let was_live = !conns[k].gone && live.contains(&seq);
            let unissued = seq >= nx;
            let r = catch(|| local.recv_frame(RetireConnectionIdFrame::new(VarInt::from_u64(seq).unwrap())));
            let (fs, gone) = take_log(&conns[k].log);
            match r {
                Ok(Ok(())) => {
                    if unissued { sink.monitor_fail("retire_unissued_accepted", &format!("conn {}: RETIRE_CONNECTION_ID {} accepted, only {} ids issued", k, seq, nx)); }
                    if was_live {
                        if live.first() != Some(&seq) { retire_mid = true; }
                        retire_live = true;
                        conns[k].retired.insert(seq);
                        if fs.len() != 1 { sink.monitor_fail("retire_not_replaced", &format!("conn {}: retiring live seq {} issued {} ids", k, seq, fs.len())); }
                        sink.branch("retire:live");
                    } else {
                        if !fs.is_empty() { sink.monitor_fail("retire_noop_issued", &format!("conn {}: retiring non-live seq {} issued {} ids", k, seq, fs.len())); }
                        sink.branch("retire:noop");
                    }
                    absorb_frames(&mut conns[k], k, &fs, sink);
                    sink.line(&op, &format!("ok frames={} gone={}", frames_str(&fs), list(&gone)));
                }
                Ok(Err(e)) => {
                    if !unissued { sink.monitor_fail("retire_issued_rejected", &format!("conn {}: RETIRE_CONNECTION_ID {} rejected, {} ids issued", k, seq, nx)); }
                    else if e.kind() != ErrorKind::ProtocolViolation {
                        // RFC 9000 §19.16: MUST be PROTOCOL_VIOLATION
                        sink.monitor_fail("retire_unissued_wrong_kind", &format!("conn {}: RETIRE_CONNECTION_ID {} (only {} issued) rejected with {:?}", k, seq, nx, e.kind()));
                    }
                    sink.branch("retire:unissued");
                    sink.line(&op, &format!("err {}", kind_tok(e.kind())));
                }
                Err(_) => {
                    if !conns[k].poisoned { sink.monitor_fail("panic:local:retire", &format!("recv RETIRE_CONNECTION_ID {} panicked", seq)); }
                    sink.branch("retire:panic");
                    sink.line(&op, "PANIC");
                }
            }
        } else if c < 75 {
            let Some(local) = conns[k].local.clone() else { continue };
            let op = format!("clear {}", k);
            let r = catch(|| local.clear());
            let (_, gone) = take_log(&conns[k].log);
            match r {
                Ok(()) => { let all: Vec<u64> = conns[k].ids.keys().cloned().collect(); conns[k].retired.extend(all); sink.branch("clear"); sink.line(&op, &format!("ok frames=- gone={}", list(&gone))); }
                Err(_) => { if !conns[k].poisoned { sink.monitor_fail("panic:local:clear", "clear panicked"); } sink.line(&op, "PANIC"); }
            }
        } else if c < 82 {
            let Some(local) = conns[k].local.take() else { continue };
            let op = format!("drop {}", k);
            let r = catch(move || drop(local));
            let (_, gone) = take_log(&conns[k].log);
            dropped_any = true;
            match r {
                Ok(()) => { conns[k].gone = true; conns[k].ids.clear(); sink.branch("drop"); sink.line(&op, &format!("ok frames=- gone={}", list(&gone))); }
                Err(_) => { sink.monitor_fail("panic:local:drop", "drop panicked"); sink.line(&op, "PANIC"); }
            }
        } else if c < 87 {
            let Some((n, e)) = conns[k].odcid.take() else { continue };
            let stale = reg_owner.get(&n) != Some(&k);
            let freed = conns[k].wq.upgrade().is_none();
            drop(e);
            if !stale { reg_owner.remove(&n); }
            if stale && freed { saw_stale_after_free = true; }
            sink.branch(match (stale, freed) { (false, _) => "dropodcid", (true, false) => "dropodcid:stale", (true, true) => "dropodcid:stale-after-queue-freed" });
            sink.line(&format!("dropodcid {}", k), "ok frames=- gone=-");
        } else {
            // explicit lookup of some id (any name ever seen, or an unknown one)
            let nm = { let g = names.lock().unwrap(); let mut v: Vec<&String> = g.by_name.keys().collect(); v.sort(); if v.is_empty() { continue } else { (*rng.pick(&v)).clone() } };
            let cid = names.lock().unwrap().by_name[&nm];
            match route(&router, &conns, cid) {
                Ok(Some(q)) => { sink.branch("route:hit"); sink.line(&format!("route {}", nm), &format!("conn={}", q)); }
                Ok(None) => { sink.branch("route:miss"); sink.line(&format!("route {}", nm), "none"); }
                Err(e) => { sink.monitor_fail("route:ambiguous", &e); sink.line(&format!("route {}", nm), "AMBIGUOUS"); }
            }
        }
        // ---------------- monitors: evaluated on the real router after every operation ----------------
        // (1) active ids of every connection within the peer's limit (2 until known)
        for (q, cn) in conns.iter().enumerate() {
            let lim = cn.limit.unwrap_or(2);
            if cn.active() as u64 > lim {
                sink.monitor_fail("local_active_exceeds_limit", &format!("conn {}: {} unretired ids, peer limit {}", q, cn.active(), lim));
            }
        }
        // (2) every id ever issued / registered: live ⇒ routed to its own connection, otherwise unrouted
        let mut expect: Vec<(String, Option<usize>)> = vec![];
        {
            let g = names.lock().unwrap();
            let mut owner: HashMap<&String, usize> = HashMap::new();
            for (q, cn) in conns.iter().enumerate() {
                if !cn.gone {
                    for (s, id) in &cn.ids { if !cn.retired.contains(s) { owner.insert(id, q); } }
                }
                let _ = &cn.odcid;
            }
            for (n, q) in &reg_owner { owner.insert(n, *q); }
            let mut all: Vec<&String> = g.by_name.keys().collect();
            all.sort();
            for n in all { expect.push((n.clone(), owner.get(n).cloned())); }
        }
        for (n, want) in expect {
            let cid = names.lock().unwrap().by_name[&n];
            match route(&router, &conns, cid) {
                Ok(got) if got == want => {}
                Ok(got) => {
                    let key = match (want, got) {
                        (Some(_), None) => "route:live_id_unrouted",
                        (Some(_), Some(_)) => "route:live_id_misrouted",
                        (None, _) => "route:dead_id_routed",
                    };
                    sink.monitor_fail(key, &format!("id {} is routed to {:?}, should be {:?}", n, got, want));
                }
                Err(e) => sink.monitor_fail("route:ambiguous", &e),
            }
        }
    }
    if (retire_live && retire_mid && dropped_any && conns.len() >= 2) || saw_stale_after_free { sink.nontrivial(); }
}

pub fn run_l(o: &Opts) {
    let mut sink = Sink::new_with_stats(&o.out, &o.stats);
    for i in 0..o.cases {
        if let Some(k) = o.only_case { if k != i { continue; } }
        let mut rng = Rng::new(o.seed, i);
        sink.case(&format!("{}", i));
        one_case_l(&mut rng, &mut sink);
    }
    sink.finish(&o.stats, "random histories of connection creation (client / server with original DCID), set_limit, RETIRE_CONNECTION_ID (live, retired, slid-out, unissued numbers), clear, drop, dropping the original-DCID entry, re-registering an already registered original DCID from another connection (take-over, 2/5 of the server connections once one exists), releasing a connection's RcvdPacketQueue handle, tear-downs (LocalCids / queue / entry in a random order) and lookups, over up to 4 real ArcLocalCids on one real QuicRouter; non-trivial = (at least 2 connections, a live id retired, a non-front id retired and a connection dropped) or a superseded entry dropped after its queue was freed; distinct by hash of the case transcript");
}


// ------------------------------------------------------------------------------------------------
// C14r / C14x
// ------------------------------------------------------------------------------------------------

#[derive(Clone, Default)]
struct RRec(Arc<Mutex<Vec<u64>>>);

impl std::fmt::Debug for RRec {
    fn fmt(&self, f: &mut std::fmt::Formatter<'_>) -> std::fmt::Result { f.write_str("RRec") }
}

impl SendFrame<RetireConnectionIdFrame> for RRec {
    fn send_frame<I: IntoIterator<Item = RetireConnectionIdFrame>>(&self, iter: I) {
        let mut g = self.0.lock().unwrap();
        for f in iter { g.push(f.sequence()); }
    }
}

/// number of top-level elements of the `[...]` that follows `key`, and the index just after it
fn dbg_list(d: &str, key: &str) -> Option<(usize, usize)> {
    let p = d.find(key)? + key.len();
    let b = d.as_bytes();
    let mut depth = 0i32;
    let mut commas = 0usize;
    let mut any = false;
    let mut i = p;
    while i < b.len() {
        match b[i] {
            b'[' | b'{' | b'(' => { depth += 1; any = true; }
            b']' | b'}' | b')' => {
                if depth == 0 { return Some((if any { commas + 1 } else { 0 }, i + 1)); }
                depth -= 1;
            }
            b',' if depth == 0 => commas += 1,
            b' ' => {}
            _ => any = true,
        }
        i += 1;
    }
    None
}

fn dbg_num_after(d: &str, from: usize, key: &str) -> Option<u64> {
    let p = d[from..].find(key)? + from + key.len();
    let rest = &d[p..];
    let e = rest.find(|c: char| !c.is_ascii_digit()).unwrap_or(rest.len());
    rest[..e].parse().ok()
}

/// (coff, ncid, roff, nready, npend, cursor) from the derived Debug output of the real `RemoteCids`
fn remote_state(r: &ArcRemoteCids<RRec>) -> Option<(u64, usize, u64, usize, usize, u64)> {
    let d = format!("{:?}", r);
    let (ncid, e1) = dbg_list(&d, "cid_deque: IndexDeque { deque: [")?;
    let coff = dbg_num_after(&d, e1, "offset: ")?;
    let (nready, e2) = dbg_list(&d, "ready_cells: IndexDeque { deque: [")?;
    let roff = dbg_num_after(&d, e2, "offset: ")?;
    let (npend, e3) = dbg_list(&d, "pending_cells: [")?;
    let cursor = dbg_num_after(&d, e3, "cursor: ")?;
    Some((coff, ncid, roff, nready, npend, cursor))
}

/// real state of one path's cell from the derived Debug output of `ArcCidCell`:
/// (sequence numbers in `allocated_cids`, front = newest; `is_retired`; `is_using`).  `None` = poisoned / unparsed.
fn cell_view(c: &ArcCidCell<RRec>) -> Option<(Vec<u64>, bool, bool)> {
    let d = format!("{:?}", c);
    if d.contains("poisoned: true") || d.contains("<locked>") { return None; }
    let key = "allocated_cids: [";
    let p = d.find(key)? + key.len();
    let b = d.as_bytes();
    let mut seqs = vec![];
    let mut depth = 0i32;
    let mut i = p;
    loop {
        if i >= b.len() { return None; }
        match b[i] {
            b'(' => {
                depth += 1;
                if depth == 1 {
                    let rest = &d[i + 1..];
                    let e = rest.find(|ch: char| !ch.is_ascii_digit())?;
                    seqs.push(rest[..e].parse().ok()?);
                }
            }
            b'[' | b'{' => depth += 1,
            b')' | b'}' => depth -= 1,
            b']' => { if depth == 0 { break; } depth -= 1; }
            _ => {}
        }
        i += 1;
    }
    let flag = |k: &str| -> Option<bool> {
        let q = d[i..].find(k)? + i + k.len();
        if d[q..].starts_with("true") { Some(true) } else if d[q..].starts_with("false") { Some(false) } else { None }
    };
    Some((seqs, flag("is_retired: ")?, flag("is_using: ")?))
}

struct RCase {
    limit: u64,
    rec: RRec,
    remote: ArcRemoteCids<RRec>,
    cells: Vec<&'static ArcCidCell<RRec>>,
    held: Vec<Vec<BorrowedCid<'static, RRec>>>,
    names: HashMap<ConnectionId, String>,
    cids: HashMap<String, ConnectionId>,
    dead: bool,
    // ---- monitor bookkeeping (never consults the model) ----
    received: BTreeMap<u64, String>, // seq -> id as first received (accepted frames + initial)
    max_rpt: u64,
    retired: BTreeSet<u64>,          // RETIRE_CONNECTION_ID seen
    max_seq_seen: Option<u64>,       // largest seq in any frame handed to the real code (0 = initial)
    id_cell: HashMap<String, usize>, // which cell an id was handed to by borrow
    cell_retired: Vec<bool>,
    conflict: bool,
    saw_reassign: bool,
    saw_deferred: bool,
    saw_jump: bool,
    saw_burst3: bool,
    // ---- ghost log for the per-path monitors (sequence numbers only, from the real cells' Debug output) ----
    closed: bool,                       // a connection error was returned: only the exactly-once part is still judged
    assigned: Vec<BTreeSet<u64>>,       // per cell: every sequence number ever seen in its allocated_cids
    retire_count: BTreeMap<u64, u32>,   // multiset of RETIRE_CONNECTION_ID frames emitted
    jump_checked: u64,                  // numbers below this were judged by `jumped_id_not_retired`
    reported: BTreeSet<String>,         // (key, cell, seq) already reported in this case
}

impl RCase {
    fn new(limit: u64) -> Self {
        let rec = RRec::default();
        let remote = ArcRemoteCids::new(limit, rec.clone());
        RCase { limit, rec, remote, cells: vec![], held: vec![], names: HashMap::new(), cids: HashMap::new(), dead: false,
                received: BTreeMap::new(), max_rpt: 0, retired: BTreeSet::new(), max_seq_seen: None, id_cell: HashMap::new(),
                cell_retired: vec![], conflict: false, saw_reassign: false, saw_deferred: false, saw_jump: false, saw_burst3: false,
                closed: false, assigned: vec![], retire_count: BTreeMap::new(), jump_checked: 0, reported: BTreeSet::new() }
    }

    fn cid_of(&mut self, name: &str) -> ConnectionId {
        if let Some(c) = self.cids.get(name) { return *c; }
        // deterministic bytes from the name: 'x' + number
        let n: u64 = name[1..].parse().unwrap();
        let mut b = [0u8; 8];
        b.copy_from_slice(&(n.wrapping_mul(0x9E37_79B9_7F4A_7C15) ^ 0x5555).to_be_bytes());
        b[0] &= 0x7f;
        let c = ConnectionId::from_slice(&b);
        self.cids.insert(name.to_string(), c);
        self.names.insert(c, name.to_string());
        c
    }

    fn tail(&mut self, sink: &mut Sink) -> String {
        let fr: Vec<u64> = std::mem::take(&mut *self.rec.0.lock().unwrap());
        for s in &fr {
            if !self.retired.insert(*s) {
                sink.monitor_fail("retire_frame_duplicated", &format!("RETIRE_CONNECTION_ID {} sent twice", s));
            }
            if self.max_seq_seen.map(|m| *s > m).unwrap_or(true) {
                sink.monitor_fail("retire_of_unissued_seq", &format!("RETIRE_CONNECTION_ID {} although the peer's largest sequence number is {:?}", s, self.max_seq_seen));
            }
        }
        for s in &fr { *self.retire_count.entry(*s).or_insert(0) += 1; }
        self.observe(&fr, sink);
        let st = remote_state(&self.remote);
        let latest = self.remote.latest_dcid().map(|c| self.names.get(&c).cloned().unwrap_or("?".into())).unwrap_or("-".into());
        let frs = list(&fr.iter().map(|s| s.to_string()).collect::<Vec<_>>());
        match st {
            Some((coff, ncid, roff, nready, npend, cur)) => format!("frames={} cur={} coff={} ncid={} roff={} nready={} npend={} latest={}", frs, cur, coff, ncid, roff, nready, npend, latest),
            None => format!("frames={} DEBUG-UNPARSED latest={}", frs, latest),
        }
    }

    fn flag(&mut self, sink: &mut Sink, key: &str, id: &str, what: &str) {
        if self.reported.insert(format!("{} {}", key, id)) { sink.monitor_fail(key, what); }
    }

    /// RFC 9000 §5.1.2 / §19.15 for the peer's ids, evaluated on the REAL cells after every operation (`fr` = the
    /// RETIRE_CONNECTION_ID frames this operation emitted): each path uses one id at a time, switches when its id
    /// falls below Retire Prior To and a replacement exists, and every abandoned id is retired exactly once.
    /// Knows nothing of the model: only the cells' Debug output, the frames sent and the frames received.
    fn observe(&mut self, fr: &[u64], sink: &mut Sink) {
        if self.dead { return; }
        while self.assigned.len() < self.cells.len() { self.assigned.push(BTreeSet::new()); }
        let views: Vec<Option<(Vec<u64>, bool, bool)>> = self.cells.iter().map(|c| cell_view(c)).collect();
        for (i, v) in views.iter().enumerate() { if let Some((seqs, _, _)) = v { self.assigned[i].extend(seqs.iter().cloned()); } }
        // ids a path holds: all of them while a BorrowedCid is alive, otherwise only the newest
        let live: Vec<Vec<u64>> = views.iter().map(|v| match v {
            Some((seqs, _, true)) => seqs.clone(),
            Some((seqs, _, false)) => seqs.iter().take(1).cloned().collect(),
            None => vec![],
        }).collect();
        // (a) exactly once: an id ever given to a path is either still held by it or retired (once; twice = retire_frame_duplicated)
        for i in 0..views.len() {
            let Some((seqs, _, using)) = views[i].clone() else { continue };
            let qs: Vec<u64> = self.assigned[i].iter().cloned().collect();
            for q in qs {
                let cnt = self.retire_count.get(&q).cloned().unwrap_or(0);
                let held = live[i].contains(&q);
                if held && cnt > 0 {
                    self.flag(sink, "retired_id_still_held", &format!("{} {}", i, q), &format!("cell {} still holds id seq {} although RETIRE_CONNECTION_ID {} was sent (cell: {:?}, in use {})", i, q, q, seqs, using));
                } else if !held && cnt == 0 {
                    let key = if using { "assigned_id_never_retired" } else { "abandoned_id_not_retired" };
                    self.flag(sink, key, &format!("{} {}", i, q), &format!("cell {} (no BorrowedCid alive: {}) was switched away from id seq {} but RETIRE_CONNECTION_ID {} was never sent; cell now {:?}, retire_prior_to {}, RETIRE frames so far (largest 12) {:?}", i, !using, q, q, seqs, self.max_rpt, { let mut v: Vec<u64> = self.retire_count.keys().rev().take(12).cloned().collect(); v.reverse(); v }));
                }
            }
        }
        if self.closed { return; }
        // (b) one id at a time
        for i in 0..views.len() {
            let Some((seqs, retired, using)) = views[i].clone() else { continue };
            if !using && seqs.len() > 1 { self.flag(sink, "cell_holds_two_ids", &format!("{}", i), &format!("cell {} holds ids {:?} although no BorrowedCid is alive", i, seqs)); }
            if retired && !seqs.is_empty() { self.flag(sink, "retired_cell_holds_id", &format!("{}", i), &format!("retired cell {} holds ids {:?}", i, seqs)); }
            // ids are handed out in rising order: the newest is the largest ever given to this path
            if let (Some(f), Some(m)) = (seqs.first().cloned(), self.assigned[i].iter().next_back().cloned()) {
                if f != m || seqs.windows(2).any(|w| w[0] <= w[1]) { self.flag(sink, "cell_holds_stale_id", &format!("{}", i), &format!("cell {} holds {:?} (front = in use next) although it was given id seq {}", i, seqs, m)); }
            }
        }
        // (c) no id in two paths at once
        for i in 0..views.len() { for j in i + 1..views.len() {
            if let (Some((a, _, _)), Some((b, _, _))) = (&views[i], &views[j]) {
                if let Some(q) = a.iter().find(|q| b.contains(q)) {
                    let q = *q;
                    self.flag(sink, "id_shared_between_cells", &format!("{} {} {}", i, j, q), &format!("id seq {} is held by cells {} and {} at once", q, i, j));
                }
            }
        } }
        // (d) a retirement is sent only for an id that was abandoned: given to a path and no longer held, or below retire_prior_to
        for q in fr {
            if let Some(i) = live.iter().position(|l| l.contains(q)) {
                self.flag(sink, "retire_of_live_id", &format!("held {}", q), &format!("RETIRE_CONNECTION_ID {} sent while cell {} still holds that id", q, i));
            } else if !(*q < self.max_rpt || self.assigned.iter().any(|a| a.contains(q))) {
                self.flag(sink, "retire_of_live_id", &format!("free {}", q), &format!("RETIRE_CONNECTION_ID {} sent for an id that no path gave up and that is not below retire_prior_to {}", q, self.max_rpt));
            }
        }
        //     ... and every number below an accepted retire_prior_to that never reached a path is retired at once
        for q in self.jump_checked..self.max_rpt {
            if !self.assigned.iter().any(|a| a.contains(&q)) && self.retire_count.get(&q).cloned().unwrap_or(0) == 0 {
                self.flag(sink, "jumped_id_not_retired", &format!("{}", q), &format!("retire_prior_to {} accepted, id seq {} was never given to a path, but RETIRE_CONNECTION_ID {} was not sent", self.max_rpt, q, q));
            }
        }
        self.jump_checked = self.max_rpt;
        // (e) switching: an idle path keeps an id below retire_prior_to only while no replacement exists.  Ids are handed out
        //     in sequence order, so the replacement is the next number never handed out / retired; a gap (that number not
        //     yet received, later ones received) is not judged.
        let next = self.assigned.iter().filter_map(|a| a.iter().next_back().cloned()).chain(self.retire_count.keys().next_back().cloned())
            .max().map(|m| m + 1).unwrap_or(0).max(self.max_rpt);
        for i in 0..views.len() {
            let Some((seqs, retired, using)) = views[i].clone() else { continue };
            if retired || using { continue; }
            if let Some(q) = seqs.first() {
                if *q < self.max_rpt && self.received.contains_key(&next) {
                    self.flag(sink, "abandoned_id_kept_although_spare", &format!("{} {}", i, q), &format!("idle cell {} keeps id seq {} < retire_prior_to {} although the unused id seq {} has been received", i, q, self.max_rpt, next));
                }
            }
        }
    }

    /// end of a case, every BorrowedCid released: the RETIRE_CONNECTION_ID frames sent are exactly the ids below
    /// retire_prior_to plus the ids some path gave up, minus the ids still held — each once.
    fn end_check(&mut self, sink: &mut Sink) {
        if self.dead || self.closed { return; }
        self.observe(&[], sink);
        let mut held: BTreeSet<u64> = BTreeSet::new();
        for c in &self.cells {
            match cell_view(c) {
                Some((seqs, _, true)) => held.extend(seqs),
                Some((seqs, _, false)) => held.extend(seqs.into_iter().take(1)),
                None => return,
            }
        }
        let mut want: BTreeSet<u64> = (0..self.max_rpt).collect();
        for a in &self.assigned { want.extend(a.iter().cloned()); }
        for q in &held { want.remove(q); }
        let missing: Vec<u64> = want.iter().filter(|q| !self.retire_count.contains_key(q)).cloned().collect();
        let extra: Vec<(u64, u32)> = self.retire_count.iter().filter(|(q, n)| **n != 1 || !want.contains(q)).map(|(q, n)| (*q, *n)).collect();
        if !missing.is_empty() || !extra.is_empty() {
            let show = |v: &BTreeSet<u64>| { let mut x: Vec<u64> = v.iter().rev().take(12).cloned().collect(); x.reverse(); x };
            let got: BTreeSet<u64> = self.retire_count.keys().cloned().collect();
            sink.monitor_fail("retire_multiset_mismatch", &format!("end of case: ids still held {:?}, retire_prior_to {}; never retired {:?}; retired wrongly (seq, times) {:?}; expected RETIRE set (largest 12 of {}) {:?}, sent (largest 12 of {}) {:?}",
                held, self.max_rpt, &missing[..missing.len().min(12)], &extra[..extra.len().min(12)], want.len(), show(&want), got.len(), show(&got)));
        }
    }

    /// ids usable per RFC 9000 §5.1.1: received, not below the largest Retire Prior To, not retired by us
    fn active(&self) -> usize {
        self.received.keys().filter(|s| **s >= self.max_rpt && !self.retired.contains(s)).count()
    }

    fn apply(&mut self, sink: &mut Sink) {
        let r = catch(|| self.remote.apply_dcid());
        match r {
            Ok(c) => {
                self.cells.push(Box::leak(Box::new(c)));
                self.held.push(vec![]);
                self.cell_retired.push(false);
                let t = self.tail(sink);
                sink.line("apply", &format!("cell={} {}", self.cells.len() - 1, t));
            }
            Err(_) => { self.dead = true; sink.line("apply", "PANIC"); sink.monitor_fail("panic:remote:apply", "apply_dcid panicked"); }
        }
    }

    fn initial(&mut self, name: &str, cell: usize, sink: &mut Sink) {
        let cid = self.cid_of(name);
        let op = format!("initial {} {}", name, cell);
        let c = self.cells[cell];
        let legit = self.received.is_empty() && self.max_seq_seen.is_none() && !self.cell_retired[cell];
        match catch(|| self.remote.apply_initial_dcid(cid, c)) {
            Ok(()) => {
                self.received.insert(0, name.to_string());
                self.max_seq_seen = Some(self.max_seq_seen.unwrap_or(0));
                let t = self.tail(sink);
                sink.line(&op, &format!("ok {}", t));
            }
            Err(m) => {
                self.dead = true;
                let site = if m.contains("first_initial") { "initial:not-first" } else if m.contains("pending_cells") { "initial:cell-not-pending" } else { "?" };
                sink.line(&op, &format!("PANIC {}", site));
                if legit { sink.monitor_fail("panic:remote:initial", &format!("apply_initial_dcid panicked: {}", m)); }
            }
        }
    }

    fn newcid(&mut self, seq: u64, rpt: u64, name: &str, sink: &mut Sink) {
        let cid = self.cid_of(name);
        let op = format!("newcid {} {} {}", seq, rpt, name);
        sink.pending(&op);
        let frame = NewConnectionIdFrame::new(cid, VarInt::from_u64(seq).unwrap(), VarInt::from_u64(rpt).unwrap());
        // what RFC 9000 says about this frame, from the harness's own bookkeeping
        let parseable = rpt <= seq;
        let dup_conflict = self.received.get(&seq).map(|n| n != name).unwrap_or(false);
        let new_rpt = self.max_rpt.max(rpt);
        let would_active = {
            let mut set: BTreeSet<u64> = self.received.keys().cloned().collect();
            set.insert(seq);
            set.iter().filter(|s| **s >= new_rpt && !self.retired.contains(s)).count()
        };
        // fix-C04-newcid-seq-gap: a sequence number more than max(4096, limit) beyond the largest one received may be
        // refused with CONNECTION_ID_LIMIT_ERROR (RFC 9000 5.1.1 lets an endpoint bound the ids it tracks)
        let next_rcvd = self.received.keys().next_back().map(|m| m + 1).unwrap_or(0);
        let far_ahead = seq.saturating_sub(next_rcvd) > 4096u64.max(self.limit);
        if far_ahead { sink.branch("newcid:far-ahead(>max(4096,limit))"); }
        let r = catch(|| self.remote.recv_frame(frame));
        self.max_seq_seen = Some(self.max_seq_seen.unwrap_or(0).max(seq));
        match r {
            Ok(Ok(tok)) => {
                if tok.is_some() {
                    if dup_conflict { self.conflict = true; sink.branch("newcid:conflicting-duplicate"); }
                    self.received.entry(seq).or_insert(name.to_string());
                    if rpt > self.max_rpt { if self.received.keys().any(|s| *s < rpt) { self.saw_jump = true; } self.max_rpt = rpt; }
                    sink.branch("newcid:accepted");
                } else { sink.branch("newcid:discarded"); }
                let t = self.tail(sink);
                if tok.is_some() && parseable && !self.conflict && self.active() as u64 > self.limit {
                    sink.monitor_fail("remote_limit_exceeded", &format!("after accepting NEW_CONNECTION_ID seq={} retire_prior_to={}: {} active peer ids, active_connection_id_limit {}", seq, rpt, self.active(), self.limit));
                }
                sink.line(&op, &format!("{} {}", if tok.is_some() { "ok" } else { "none" }, t));
            }
            Ok(Err(e)) => {
                sink.branch("newcid:err");
                if e.kind() != ErrorKind::ConnectionIdLimit { sink.monitor_fail("newcid_wrong_error", &format!("{:?}", e.kind())); }
                if parseable && !dup_conflict && !self.conflict && !far_ahead && would_active as u64 <= self.limit {
                    sink.monitor_fail("legal_issue_rejected", &format!("NEW_CONNECTION_ID seq={} retire_prior_to={} would leave {} active ids (limit {}) but was rejected with CONNECTION_ID_LIMIT_ERROR", seq, rpt, would_active, self.limit));
                }
                self.closed = true;
                let t = self.tail(sink);
                sink.line(&op, &format!("err {} {}", kind_tok(e.kind()), t));
                self.dead = true; // connection error: the connection is closed
            }
            Err(m) => {
                self.dead = true;
                let site = if m.contains("self.offset") { "drain_to" } else { "?" };
                sink.line(&op, &format!("PANIC {}", site));
                if parseable { sink.monitor_fail("panic:remote:newcid", &format!("recv NEW_CONNECTION_ID seq={} rpt={} panicked: {}", seq, rpt, m)); }
            }
        }
    }

    fn borrow(&mut self, cell: usize, sink: &mut Sink) {
        let op = format!("borrow {}", cell);
        let c = self.cells[cell];
        match catch(|| c.borrow_cid(ArcSendWaker::new())) {
            Ok(Ok(Some(b))) => {
                let nm = self.names.get(&*b).cloned().unwrap_or("?".into());
                // monitors: the id handed to a path
                let seq = self.received.iter().find(|(_, n)| **n == nm).map(|(s, _)| *s);
                if !self.conflict {
                    match seq {
                        None => sink.monitor_fail("borrow_unknown_id", &format!("cell {} got id {} which the peer never issued", cell, nm)),
                        Some(s) => {
                            if self.retired.contains(&s) { sink.monitor_fail("retired_id_used", &format!("cell {} got id seq {} after RETIRE_CONNECTION_ID {} was sent", cell, s, s)); }
                            if let Some(o) = self.id_cell.get(&nm) { if *o != cell { sink.monitor_fail("id_shared_between_cells", &format!("id seq {} handed to cells {} and {}", s, o, cell)); } }
                            if s < self.max_rpt {
                                // an abandoned id may only be used while no replacement is available: count spare ids
                                let mut spare = 0usize;
                                let mut q = self.max_rpt;
                                while let Some(n) = self.received.get(&q) { if !self.retired.contains(&q) && !self.id_cell.contains_key(n) { spare += 1; } q += 1; }
                                let others = self.cell_retired.iter().enumerate().filter(|(i, r)| *i != cell && !**r).count();
                                if self.held[cell].is_empty() && spare > others {
                                    sink.monitor_fail("abandoned_id_used", &format!("cell {} still uses id seq {} < retire_prior_to {} although {} unused ids are available for {} other paths", cell, s, self.max_rpt, spare, others));
                                }
                                sink.branch("borrow:abandoned-id");
                            }
                        }
                    }
                }
                self.id_cell.entry(nm.clone()).or_insert(cell);
                if self.held[cell].len() >= 1 { sink.branch("borrow:nested"); }
                self.held[cell].push(b);
                sink.branch("borrow:cid");
                let t = self.tail(sink);
                sink.line(&op, &format!("cid={} {}", nm, t));
            }
            Ok(Ok(None)) => {
                if !self.cell_retired[cell] { sink.monitor_fail("live_cell_reported_gone", &format!("cell {}", cell)); }
                sink.branch("borrow:gone"); let t = self.tail(sink); sink.line(&op, &format!("gone {}", t));
            }
            Ok(Err(_)) => { sink.branch("borrow:wait"); let t = self.tail(sink); sink.line(&op, &format!("wait {}", t)); }
            Err(_) => { self.dead = true; sink.line(&op, "PANIC"); sink.monitor_fail("panic:remote:borrow", "borrow_cid panicked"); }
        }
    }

    fn release(&mut self, cell: usize, sink: &mut Sink) {
        if self.held[cell].is_empty() { return; }
        let op = format!("release {}", cell);
        let nested = self.held[cell].len() > 1;
        let b = self.held[cell].remove(0);
        match catch(move || drop(b)) {
            Ok(()) => {
                let before = self.retired.len();
                let t = self.tail(sink);
                if self.retired.len() > before { self.saw_deferred = true; sink.branch("release:deferred-retire"); } else { sink.branch("release:plain"); }
                sink.line(&op, &format!("ok {}", t));
            }
            Err(_) => {
                // two BorrowedCid of one cell alive: the second drop hits assert!(is_using) — API misuse, not judged
                self.dead = true;
                sink.branch("release:panic");
                sink.line(&op, "PANIC renew");
                if !nested && !self.held[cell].is_empty() { sink.monitor_fail("panic:remote:release", "dropping the only BorrowedCid panicked"); }
            }
        }
    }

    fn retirecell(&mut self, cell: usize, sink: &mut Sink) {
        let op = format!("retirecell {}", cell);
        let c = self.cells[cell];
        match catch(|| c.retire()) {
            Ok(()) => {
                self.cell_retired[cell] = true;
                sink.branch("retirecell");
                let t = self.tail(sink);
                // a retired path gives back every id it was ever handed
                for (nm, owner) in &self.id_cell {
                    if *owner != cell { continue; }
                    if let Some((s, _)) = self.received.iter().find(|(_, n)| *n == nm) {
                        if !self.conflict && !self.retired.contains(s) {
                            sink.monitor_fail("cell_retire_leaves_id", &format!("cell {} retired but RETIRE_CONNECTION_ID {} was never sent", cell, s));
                        }
                    }
                }
                sink.line(&op, &format!("ok {}", t));
            }
            Err(_) => { self.dead = true; sink.line(&op, "PANIC"); sink.monitor_fail("panic:remote:retirecell", "retire panicked"); }
        }
    }

    fn finish(mut self) {
        // BorrowedCid guards of a poisoned cell would panic in Drop: leak them
        for v in self.held.drain(..) { for b in v { std::mem::forget(b); } }
    }
}

/// Several NEW_CONNECTION_ID frames arrive while paths hold a `BorrowedCid`, each raising retire_prior_to past the id
/// the borrowed paths were just switched to; then the borrows end.  All choices from `rng` (the burst stream).
#[allow(clippy::too_many_arguments)]
fn burst(c: &mut RCase, rng: &mut Rng, limit: u64, peer_next: &mut u64, peer_rpt: &mut u64, flight: &mut Vec<(u64, u64)>, delivered: &mut Vec<(u64, u64)>, sink: &mut Sink) {
    sink.branch("burst:rpt-bumps-in-one-borrow");
    let mut order: Vec<usize> = (0..c.cells.len()).collect();
    for i in (1..order.len()).rev() { let j = rng.below(i as u64 + 1) as usize; order.swap(i, j); }
    // paths that can borrow (alive, holding an id) first
    let able = |i: &usize| matches!(cell_view(c.cells[*i]), Some((s, false, _)) if !s.is_empty());
    let (mut can, cannot): (Vec<usize>, Vec<usize>) = order.iter().partition(|i| able(i));
    can.extend(cannot);
    let order = can;
    let want = rng.range(1, 3) as usize;
    let mut mine: Vec<usize> = vec![];
    for &cell in order.iter().take(want) {
        if c.dead { return; }
        if c.held[cell].is_empty() { c.borrow(cell, sink); }
        if !c.held[cell].is_empty() { mine.push(cell); }
    }
    if c.dead { return; }
    sink.branch(&format!("burst:borrowed-cells-{}", mine.len()));
    let n = rng.range(2, 4);
    let mut late: Vec<(u64, u64)> = vec![];
    for _ in 0..n {
        if c.dead { return; }
        let seq = *peer_next;
        *peer_next += 1;
        // newest id held by the borrowed paths right now (real state)
        let front = mine.iter().filter_map(|&i| cell_view(c.cells[i])).filter_map(|v| v.0.first().cloned()).max();
        let lo = seq.saturating_sub(limit).max(*peer_rpt);
        let rpt = match rng.below(10) {
            0..=5 => seq,
            6..=8 => front.map(|f| f + 1).unwrap_or(seq).max(lo).min(seq),
            _ => (*peer_rpt + 1).max(lo).min(seq),
        };
        *peer_rpt = (*peer_rpt).max(rpt);
        if rng.chance(1, 4) { late.push((seq, rpt)); continue; }
        c.newcid(seq, rpt, &format!("x{}", seq), sink);
        delivered.push((seq, rpt));
    }
    if !late.is_empty() {
        if rng.chance(2, 3) {
            sink.branch("burst:reordered");
            while !late.is_empty() && !c.dead {
                let i = rng.below(late.len() as u64) as usize;
                let (seq, rpt) = late.remove(i);
                c.newcid(seq, rpt, &format!("x{}", seq), sink);
                delivered.push((seq, rpt));
            }
        } else {
            sink.branch("burst:held-back");
            flight.extend(late.drain(..));
        }
    }
    if c.dead { return; }
    let most = mine.iter().filter_map(|&i| cell_view(c.cells[i])).map(|v| v.0.len()).max().unwrap_or(0);
    sink.branch(match most { 0 => "burst:cell-holds-0", 1 => "burst:cell-holds-1", 2 => "burst:cell-holds-2", _ => "burst:cell-holds-3+" });
    if most >= 3 { c.saw_burst3 = true; }
    for cell in mine {
        if c.dead { return; }
        if rng.chance(1, 8) { sink.branch("burst:borrow-kept"); continue; }
        c.release(cell, sink);
    }
}

fn one_case_r(rng: &mut Rng, brng: &mut Rng, sink: &mut Sink) {
    let limit = match rng.below(12) { 0..=3 => 2, 4..=6 => 3, 7 => 4, 8 => rng.range(5, 9), 9 => rng.range(9, 101), _ => rng.range(2, 5) };
    let mut c = RCase::new(limit);
    sink.line(&format!("init {}", limit), "ok");
    // the simulated peer: ids it has issued, its retire_prior_to, frames in flight (reordering / duplication)
    let mut peer_next: u64 = 1;
    let mut peer_rpt: u64 = 0;
    let mut flight: Vec<(u64, u64)> = vec![];
    let mut delivered: Vec<(u64, u64)> = vec![];
    let mut conflicts = 0u64;
    c.apply(sink);
    if rng.chance(9, 10) { c.initial("x0", 0, sink); }
    let nops = rng.range(4, 34);
    // bursts come from their own random stream: the histories of the main stream stay what they were
    let bursty = brng.chance(3, 4);
    for _ in 0..nops {
        if c.dead { break; }
        if bursty && !c.received.is_empty() && brng.below(100) < 17 {
            burst(&mut c, brng, limit, &mut peer_next, &mut peer_rpt, &mut flight, &mut delivered, sink);
            if c.dead { break; }
        }
        let k = rng.below(100);
        if k < 8 && c.cells.len() < 4 {
            c.apply(sink);
            sink.branch("apply");
        } else if k < 10 && c.received.is_empty() {
            let cell = rng.below(c.cells.len() as u64) as usize;
            c.initial("x0", cell, sink);
        } else if k < 50 {
            // peer issues a new id (mostly legal w.r.t. the limit as the peer sees it), possibly raising retire_prior_to
            let seq = peer_next;
            peer_next += 1;
            let rpt = match rng.below(10) { 0..=4 => peer_rpt, 5 | 6 => (peer_rpt + 1).min(seq), 7 => rng.range(peer_rpt, seq), 8 => seq, _ => seq.saturating_sub(limit.saturating_sub(1)).max(peer_rpt) };
            peer_rpt = peer_rpt.max(rpt);
            match rng.below(6) {
                0 => { flight.push((seq, rpt)); sink.branch("peer:held-back"); }
                _ => { c.newcid(seq, rpt, &format!("x{}", seq), sink); delivered.push((seq, rpt)); }
            }
        } else if k < 58 {
            if flight.is_empty() { continue; }
            let i = rng.below(flight.len() as u64) as usize;
            let (seq, rpt) = flight.remove(i);
            sink.branch("peer:reordered");
            c.newcid(seq, rpt, &format!("x{}", seq), sink);
            delivered.push((seq, rpt));
        } else if k < 63 {
            if delivered.is_empty() { continue; }
            let (seq, rpt) = *rng.pick(&delivered);
            sink.branch("peer:duplicate");
            c.newcid(seq, rpt, &format!("x{}", seq), sink);
        } else if k < 68 {
            // arbitrary frame
            let seq = match rng.below(9) { 0 => rng.range(0, 3), 1 => peer_next + rng.range(1, 6), 2 => rng.range(100, 3000), 3 => peer_next + rng.range(4088, 4112), _ => rng.range(0, 12) };
            let rpt = match rng.below(8) { 0 => seq + rng.range(1, 3), 1 => seq, 2 => seq.saturating_sub(1), 3 => 0, _ => rng.below(seq + 1) };
            let name = if rng.chance(1, 6) { conflicts += 1; format!("x{}", 100000 + conflicts) } else { format!("x{}", seq) };
            peer_next = peer_next.max(seq + 1);
            sink.branch(if rpt > seq { "peer:arbitrary-unparseable" } else { "peer:arbitrary" });
            c.newcid(seq, rpt, &name, sink);
        } else if k < 82 {
            let cell = rng.below(c.cells.len() as u64) as usize;
            if !c.held[cell].is_empty() && !rng.chance(1, 12) { c.release(cell, sink); } else { c.borrow(cell, sink); }
        } else if k < 92 {
            let cell = rng.below(c.cells.len() as u64) as usize;
            c.release(cell, sink);
        } else {
            let cell = rng.below(c.cells.len() as u64) as usize;
            c.retirecell(cell, sink);
        }
    }
    // epilogue: let go of everything, then look at what every path would use
    for cell in 0..c.cells.len() { while !c.dead && c.held[cell].len() > 0 { c.release(cell, sink); } }
    for cell in 0..c.cells.len() { if !c.dead { c.borrow(cell, sink); } }
    for cell in 0..c.cells.len() { if !c.dead { c.release(cell, sink); } }
    c.end_check(sink);
    if (c.max_rpt > 0 && c.saw_jump && c.saw_deferred) || c.saw_burst3 { sink.nontrivial(); }
    let _ = c.saw_reassign;
    c.finish();
}

pub fn run_r(o: &Opts) {
    let mut sink = Sink::new_with_stats(&o.out, &o.stats);
    for i in 0..o.cases {
        if let Some(k) = o.only_case { if k != i { continue; } }
        let mut rng = Rng::new(o.seed, i);
        let mut brng = Rng::new(o.seed ^ 0x6275_7273_7400, i);
        sink.case(&format!("{}", i));
        one_case_r(&mut rng, &mut brng, &mut sink);
    }
    sink.finish(&o.stats, "random histories on a real ArcRemoteCids: a simulated peer issuing ids in order with rising retire_prior_to, frames held back / reordered / duplicated / arbitrary (incl. conflicting duplicates, unparseable rpt > seq, large sequence numbers), up to 4 ArcCidCells borrowing (also nested), releasing and retiring; in 3/4 of the cases bursts (own random stream, ~1 per 6 ops): 1..3 cells borrowed, 2..4 frames each raising retire_prior_to past the ids those cells hold (some reordered / held back), then released; non-trivial = (retire_prior_to rose past a received id and a deferred retirement happened on release) or a borrowed cell held >= 3 ids in a burst; distinct by hash of the case transcript");
}

// ---- exhaustive small scope --------------------------------------------------------------------

fn x_case(limit: u64, frames: &[(u64, u64)], variant: u32, sink: &mut Sink) {
    let mut c = RCase::new(limit);
    sink.line(&format!("init {}", limit), "ok");
    c.apply(sink);
    c.initial("x0", 0, sink);
    let early = matches!(variant, 2 | 3 | 5 | 6 | 7 | 8 | 9);
    if early { c.apply(sink); }
    if variant == 7 { c.retirecell(1, sink); }
    if matches!(variant, 1 | 8 | 9) { c.borrow(0, sink); }
    if matches!(variant, 6 | 8 | 9) { c.borrow(1, sink); }
    // 8 / 9: both cells borrowed (cell 1 as soon as it has an id) across ALL frames, released after the last; 9: frames reversed
    let reversed: Vec<(u64, u64)> = frames.iter().rev().cloned().collect();
    let frames: &[(u64, u64)] = if variant == 9 { &reversed } else { frames };
    for (i, (seq, rpt)) in frames.iter().enumerate() {
        if c.dead { break; }
        if variant == 4 && i == 1 { c.borrow(0, sink); }
        c.newcid(*seq, *rpt, &format!("x{}", seq), sink);
        if c.dead { break; }
        match (variant, i) {
            (2, _) => { c.borrow(0, sink); c.borrow(1, sink); c.release(0, sink); c.release(1, sink); }
            (3, 0) => c.retirecell(1, sink),
            (4, 0) => c.apply(sink),
            (4, 1) => c.release(0, sink),
            (5, 0) => c.retirecell(0, sink),
            (8, _) | (9, _) => { if c.held[1].is_empty() { c.borrow(1, sink); } }
            _ => {}
        }
    }
    for cell in 0..c.cells.len() { while !c.dead && c.held[cell].len() > 0 { c.release(cell, sink); } }
    for cell in 0..c.cells.len() { if !c.dead { c.borrow(cell, sink); } }
    for cell in 0..c.cells.len() { if !c.dead { c.release(cell, sink); } }
    c.end_check(sink);
    sink.nontrivial();
    c.finish();
}

pub fn run_x(o: &Opts) {
    let mut sink = Sink::new_with_stats(&o.out, &o.stats);
    let (limits, maxlen, maxseq): (Vec<u64>, usize, u64) = if o.thorough() { (vec![2, 3, 4], 3, 6) } else { (vec![2, 3], 2, 5) };
    let mut alpha: Vec<(u64, u64)> = vec![];
    for seq in 1..=maxseq { for rpt in 0..=seq { alpha.push((seq, rpt)); } }
    let mut id = 0u64;
    let mut emit = |limit: u64, fr: &[(u64, u64)], v: u32, sink: &mut Sink| {
        let run = o.only_case.map(|k| k == id).unwrap_or(true);
        if run { sink.case(&format!("{}", id)); x_case(limit, fr, v, sink); }
        id += 1;
    };
    for &limit in &limits {
        for len in 1..=maxlen {
            let mut idx = vec![0usize; len];
            loop {
                let fr: Vec<(u64, u64)> = idx.iter().map(|i| alpha[*i]).collect();
                for v in 0..10 { emit(limit, &fr, v, &mut sink); }
                let mut p = 0;
                while p < len { idx[p] += 1; if idx[p] < alpha.len() { break; } idx[p] = 0; p += 1; }
                if p == len { break; }
            }
        }
    }
    if o.thorough() {
        // up to 6 frames over a reduced alphabet
        let small: [(u64, u64); 6] = [(1, 0), (2, 0), (2, 2), (3, 1), (4, 3), (5, 2)];
        for &limit in &limits {
            for len in 4..=6usize {
                let mut idx = vec![0usize; len];
                loop {
                    let fr: Vec<(u64, u64)> = idx.iter().map(|i| small[*i]).collect();
                    for v in [1u32, 3] { emit(limit, &fr, v, &mut sink); }
                    let mut p = 0;
                    while p < len { idx[p] += 1; if idx[p] < small.len() { break; } idx[p] = 0; p += 1; }
                    if p == len { break; }
                }
            }
        }
    }
    sink.finish(&o.stats, "exhaustive: limits 2..4 (quick 2..3), every sequence of <= 3 (quick 2) NEW_CONNECTION_ID frames with seq 1..6 (quick 1..5) and retire_prior_to 0..seq, times 10 fixed interleavings with 2 cells (borrow held across frames, cell applied late, cell retired early/late, both cells borrowed across all frames in order / reversed); thorough also 4..6 frames over a 6-frame alphabet; every case counted");
}

pub const RUNS: &[(&str, fn(&Opts))] = &[("C14l", run_l), ("C14r", run_r), ("C14x", run_x)];
