//! C16 (see c16.rs for the runner): the crypto stream — `CryptoStreamWriter::{poll_write, poll_flush}` against
//! `CryptoStreamOutgoing::{try_load_data_into, on_data_acked}`, and `CryptoStreamReader::poll_read` against
//! `CryptoStreamIncoming::recv_frame`.
use std::{pin::Pin, task::Context};

use bytes::{BufMut, Bytes, BytesMut};
use qbase::{
    frame::{io::ReceiveFrame, CryptoFrame, Frame},
    net::tx::ArcSendWakers,
    packet::io::RecordFrame,
    util::ContinuousData,
    varint::VarInt,
};
use qrecovery::crypto::{CryptoStream, CryptoStreamIncoming, CryptoStreamOutgoing, CryptoStreamReader, CryptoStreamWriter};
use tokio::io::{AsyncRead, AsyncWrite, ReadBuf};

use super::c16::{poll_tok, run_inst, Inst, Wakers, NWAKERS};
use crate::common::{Opts, Rng};

/// packet buffer recording the CRYPTO frames written into it
struct CPkt {
    buf: BytesMut,
    room: usize,
    frames: Vec<(u64, u64)>,
}
unsafe impl BufMut for CPkt {
    fn remaining_mut(&self) -> usize {
        self.room
    }
    unsafe fn advance_mut(&mut self, cnt: usize) {
        unsafe { self.buf.advance_mut(cnt) };
        self.room -= cnt;
    }
    fn chunk_mut(&mut self) -> &mut bytes::buf::UninitSlice {
        if self.buf.capacity() == self.buf.len() {
            self.buf.reserve(64);
        }
        let n = self.room;
        let c = self.buf.chunk_mut();
        let l = c.len().min(n);
        &mut c[..l]
    }
}
impl<D: ContinuousData> RecordFrame<Frame<D>, D> for CPkt {
    fn record_frame(&mut self, frame: &Frame<D>) {
        if let Frame::Crypto(f, _) = frame {
            self.frames.push((f.offset(), f.offset() + f.len()));
        }
    }
}

fn wk_of(rng: &mut Rng) -> u64 {
    if rng.chance(4, 5) { 0 } else { rng.below(NWAKERS as u64) }
}

// 13. sending half
struct CrWI {
    w: CryptoStreamWriter,
    out: CryptoStreamOutgoing,
    unacked: Vec<(u64, u64)>,
}
impl Inst for CrWI {
    const NAME: &'static str = "CryptoWriter";
    const MULTI: bool = false;
    const CLOSE: &'static str = "-";
    fn new(_: &mut Rng) -> Self {
        let cs = CryptoStream::new(ArcSendWakers::default());
        CrWI { w: cs.writer(), out: cs.outgoing(), unacked: vec![] }
    }
    fn gen_op(&self, rng: &mut Rng, single: bool) -> String {
        let t = if single { 0 } else { rng.below(2) };
        match rng.below(10) {
            0..=1 => format!("poll {} {} write {}", t, wk_of(rng), rng.range(1, 5)),
            2..=4 => format!("poll {} {} flush", t, wk_of(rng)),
            5..=6 => "load".into(),
            7..=8 => "ack".into(),
            _ => format!("dropfut {}", rng.below(2)),
        }
    }
    fn alphabet() -> Vec<String> {
        ["poll 0 0 write 3", "poll 0 0 flush", "poll 0 1 flush", "load", "ack"].iter().map(|s| s.to_string()).collect()
    }
    fn apply(&mut self, op: &[&str], wk: &Wakers) -> String {
        match op[0] {
            "poll" => {
                let w: usize = op[2].parse().unwrap();
                let mut cx = Context::from_waker(&wk.w[w]);
                if op[3] == "write" {
                    let n: usize = op[4].parse().unwrap();
                    poll_tok(Pin::new(&mut self.w).poll_write(&mut cx, &vec![1u8; n]), |v| match v {
                        Ok(n) => format!("ready:{}", n),
                        Err(_) => "err".into(),
                    })
                } else {
                    poll_tok(Pin::new(&mut self.w).poll_flush(&mut cx), |v| match v {
                        Ok(()) => "ready:0".into(),
                        Err(_) => "err".into(),
                    })
                }
            }
            "load" => {
                let mut pkt = CPkt { buf: BytesMut::with_capacity(4096), room: 60_000, frames: vec![] };
                let _ = self.out.try_load_data_into(&mut pkt, false);
                let mut out = vec![];
                for (a, b) in &pkt.frames {
                    self.unacked.push((*a, *b));
                    out.push(format!("{}..{}", a, b));
                }
                format!("- emitted={}", if out.is_empty() { "-".to_string() } else { out.join(",") })
            }
            "ack" => {
                if !self.unacked.is_empty() {
                    let (a, b) = self.unacked.remove(0);
                    self.out.on_data_acked(&CryptoFrame::new(VarInt::from_u64(a).unwrap(), VarInt::from_u64(b - a).unwrap()));
                }
                "-".into()
            }
            _ => "-".into(),
        }
    }
}

// 14. receiving half
struct CrRI {
    r: CryptoStreamReader,
    inc: CryptoStreamIncoming,
}
impl Inst for CrRI {
    const NAME: &'static str = "CryptoReader";
    const MULTI: bool = false;
    const CLOSE: &'static str = "-";
    fn new(_: &mut Rng) -> Self {
        let cs = CryptoStream::new(ArcSendWakers::default());
        CrRI { r: cs.reader(), inc: cs.incoming() }
    }
    fn gen_op(&self, rng: &mut Rng, single: bool) -> String {
        let t = if single { 0 } else { rng.below(2) };
        match rng.below(10) {
            0..=4 => format!("poll {} {} {}", t, wk_of(rng), rng.range(1, 5)),
            5..=8 => format!("recv {} {}", rng.below(9), rng.below(5)),
            _ => format!("dropfut {}", rng.below(2)),
        }
    }
    fn alphabet() -> Vec<String> {
        ["poll 0 0 2", "poll 0 0 9", "poll 0 1 2", "recv 0 3", "recv 3 2", "recv 2 4"].iter().map(|s| s.to_string()).collect()
    }
    fn apply(&mut self, op: &[&str], wk: &Wakers) -> String {
        match op[0] {
            "poll" => {
                let w: usize = op[2].parse().unwrap();
                let cap: usize = op[3].parse().unwrap();
                let mut store = vec![0u8; cap];
                let mut rb = ReadBuf::new(&mut store);
                let p = Pin::new(&mut self.r).poll_read(&mut Context::from_waker(&wk.w[w]), &mut rb);
                let n = rb.filled().len();
                poll_tok(p, |v| match v {
                    Ok(()) => format!("ready:{}", n),
                    Err(_) => "err".into(),
                })
            }
            "recv" => {
                let off: u64 = op[1].parse().unwrap();
                let len: usize = op[2].parse().unwrap();
                let f = CryptoFrame::new(VarInt::from_u64(off).unwrap(), VarInt::from_u64(len as u64).unwrap());
                match self.inc.recv_frame((f, Bytes::from(vec![0u8; len]))) {
                    Ok(_) => "-".into(),
                    Err(_) => "err".into(),
                }
            }
            _ => "-".into(),
        }
    }
}

pub const RUNS: &[(&str, fn(&Opts))] = &[("C16crw", run_inst::<CrWI>), ("C16crr", run_inst::<CrRI>)];
