//! C05 (second part): packet-type byte + packet headers, transport-parameter sets, endpoint
//! addresses / links / preferred address.
//!
//!  * `C05hdr`  `henc`: build a real header (VN / Retry / Initial / 0-RTT / Handshake / 1-RTT, cid
//!              lengths 0..20, token lengths around the varint thresholds), `put_header` into a Vec,
//!              `EncodeHeader::size()` / `Type::encoding_size()`, then `be_packet_type` + `be_header`
//!              on bytes ++ tail; `hdec`: the same decoder pair on truncated / mutated / random bytes.
//!              Monitors: decoded header == original (field by field), consumed == written,
//!              declared size == written.
use bytes::Bytes;
use qbase::{
    cid::ConnectionId,
    packet::{
        error::Error as PE,
        header::{EncodeHeader, GetDcid, GetScid, GetType, Header, OneRttHeader, io::{WriteHeader, be_header}, long::io::LongHeaderBuilder},
        r#type::{Type, io::be_packet_type},
        SpinBit,
    },
};

use crate::common::{Opts, Rng, Sink, catch, hex};

fn b01(b: bool) -> u8 { b as u8 }

fn cid(r: &mut Rng) -> ConnectionId {
    let n = match r.below(5) { 0 => 0, 1 => 20, 2 => 8, _ => r.below(21) } as usize;
    ConnectionId::from_slice(&r.bytes(n))
}

fn tok_len(r: &mut Rng) -> usize {
    match r.below(8) { 0 => 0, 1 => 63, 2 => 64, 3 => 16383, 4 => 16384, _ => r.below(40) as usize }
}

fn show_header(h: &Header) -> String {
    match h {
        Header::VN(v) => {
            let vs: Vec<String> = v.versions().iter().map(|x| x.to_string()).collect();
            format!("VN {} {} {}", hex(v.dcid()), hex(v.scid()), if vs.is_empty() { "-".into() } else { vs.join(",") })
        }
        Header::Retry(x) => format!("RETRY {} {} {} {}", hex(x.dcid()), hex(x.scid()), hex(x.token()), hex(x.integrity())),
        Header::Initial(x) => format!("INITIAL {} {} {}", hex(x.dcid()), hex(x.scid()), hex(x.token())),
        Header::ZeroRtt(x) => format!("ZERO_RTT {} {}", hex(x.dcid()), hex(x.scid())),
        Header::Handshake(x) => format!("HANDSHAKE {} {}", hex(x.dcid()), hex(x.scid())),
        Header::OneRtt(x) => format!("ONE_RTT {} {}", b01(x.spin() == SpinBit::One), hex(x.dcid())),
    }
}

fn gen_header(r: &mut Rng, kind: u64) -> Header {
    let b = LongHeaderBuilder::with_cid(cid(r), cid(r));
    match kind {
        0 => {
            let n = match r.below(4) { 0 => 0, 1 => 1, _ => r.below(6) };
            Header::VN(b.vn((0..n).map(|_| *r.pick(&[0u32, 1, 0xff00ff00, u32::MAX, 0x6b3343cf, 0x0a0a0a0a])).collect()))
        }
        1 => { let n = tok_len(r); let t = r.bytes(n); let mut i = [0u8; 16]; i.copy_from_slice(&r.bytes(16)); Header::Retry(b.retry(t, i)) }
        2 => { let n = tok_len(r); Header::Initial(b.initial(r.bytes(n))) }
        3 => Header::ZeroRtt(b.zero_rtt()),
        4 => Header::Handshake(b.handshake()),
        _ => Header::OneRtt(OneRttHeader::new(if r.chance(1, 2) { SpinBit::One } else { SpinBit::Zero }, cid(r))),
    }
}

fn put(h: &Header) -> (Vec<u8>, Option<usize>, usize) {
    let mut v: Vec<u8> = vec![];
    v.put_header(h);
    let (size, ts) = match h {
        Header::VN(x) => (None, x.get_type().encoding_size()),
        Header::Retry(x) => (None, x.get_type().encoding_size()),
        Header::Initial(x) => (Some(x.size()), x.get_type().encoding_size()),
        Header::ZeroRtt(x) => (Some(x.size()), x.get_type().encoding_size()),
        Header::Handshake(x) => (Some(x.size()), x.get_type().encoding_size()),
        Header::OneRtt(x) => (Some(x.size()), x.get_type().encoding_size()),
    };
    (v, size, ts)
}

fn nomk(k: nom::error::ErrorKind) -> &'static str {
    match k { nom::error::ErrorKind::Eof => "Eof", nom::error::ErrorKind::TooLarge => "TooLarge", nom::error::ErrorKind::Verify => "Verify", nom::error::ErrorKind::Alt => "Alt", _ => "Other" }
}

/// `be_packet_type` then `be_header`: (observation, decoded header + consumed)
fn hdec_obs(input: &[u8], dcid_len: usize) -> (String, Option<(usize, Header)>) {
    let inp = input.to_vec();
    let r = catch(move || {
        let (remain, ty): (&[u8], Type) = match be_packet_type(&inp) {
            Ok(x) => x,
            Err(nom::Err::Incomplete(_)) => return Err("err Incomplete".to_string()),
            Err(nom::Err::Error(e)) | Err(nom::Err::Failure(e)) => {
                return Err(match e { PE::UnsupportedVersion(v) => format!("err UnsupportedVersion:{}", v), PE::InvalidFixedBit => "err InvalidFixedBit".into(), _ => "err OtherType".into() })
            }
        };
        match be_header(ty, dcid_len, remain) {
            Ok((rest, h)) => Ok((inp.len() - rest.len(), h)),
            Err(nom::Err::Incomplete(_)) => Err("err Incomplete".to_string()),
            Err(nom::Err::Error(e)) | Err(nom::Err::Failure(e)) => Err(format!("err Nom:{}", nomk(e.code))),
        }
    });
    match r {
        Err(_) => ("PANIC".into(), None),
        Ok(Err(s)) => (s, None),
        Ok(Ok((used, h))) => (format!("ok used={} {}", used, show_header(&h)), Some((used, h))),
    }
}

fn henc_op(r: &mut Rng, sink: &mut Sink, kind: u64) -> Vec<u8> {
    let h = gen_header(r, kind);
    let name = show_header(&h);
    let k = name.split(' ').next().unwrap().to_string();
    sink.branch(&format!("hdr:{}", k));
    let delimited = !matches!(h, Header::VN(_) | Header::Retry(_));
    let tn = r.range(1, 9) as usize;
    let tail = if delimited && r.chance(1, 2) { r.bytes(tn) } else { vec![] };
    let own = match &h { Header::OneRtt(x) => x.dcid().len(), _ => 8 };
    // the receiver's configured dcid length: the written one (well-formed use) or, sometimes, another one
    let dl = if r.chance(5, 6) { own } else { r.below(24) as usize };
    let op = format!("henc {} {} {}", dl, hex(&tail), name);
    sink.pending(&op);
    let (bytes, size, ts) = put(&h);
    let mut input = bytes.clone();
    input.extend_from_slice(&tail);
    let (d, val) = hdec_obs(&input, dl);
    sink.line(&op, &format!("bytes={} size={} tsize={} {}", hex(&bytes), size.map_or("-".into(), |s| s.to_string()), ts, d));
    sink.nontrivial();
    // monitors (never consult the model)
    if let Some(s) = size { if s != bytes.len() { sink.monitor_fail(&format!("hsize:{}", k), &format!("{} header wrote {} bytes, size() says {}: {}", k, bytes.len(), s, name)); } }
    if !matches!(h, Header::OneRtt(_)) || dl == own {
        match val {
            Some((used, g)) => {
                if show_header(&g) != name { sink.monitor_fail(&format!("hroundtrip:{}", k), &format!("{} header decodes to a different value: {} -> {}", k, name, show_header(&g))); }
                else if used != bytes.len() { sink.monitor_fail(&format!("hconsumed:{}", k), &format!("{} header wrote {} bytes, decoder consumed {}", k, bytes.len(), used)); }
            }
            None => sink.monitor_fail(&format!("hroundtrip:{}", k), &format!("{} header does not decode ({}): {}", k, d, name)),
        }
    }
    bytes
}

pub fn run_hdr(o: &Opts) {
    let mut sink = Sink::new_with_stats(&o.out, &o.stats);
    for i in 0..o.cases {
        if let Some(k) = o.only_case { if k != i { continue; } }
        let mut rng = Rng::new(o.seed, i);
        sink.case(&format!("{}", i));
        let kind = if i < 60 { i % 6 } else { rng.below(6) };
        let mut base = vec![];
        for _ in 0..2 { base = henc_op(&mut rng, &mut sink, kind); }
        for _ in 0..3 {
            let mut b = base.clone();
            match rng.below(7) {
                0 => { let n = rng.below(b.len() as u64 + 1) as usize; b.truncate(n); sink.branch("hmut:truncate"); }
                1 => { let p = rng.below(b.len() as u64) as usize; b[p] = rng.next_u64() as u8; sink.branch("hmut:byte"); }
                2 => { let p = rng.below(b.len().min(7) as u64) as usize; b[p] ^= 1 << rng.below(8); sink.branch("hmut:bit-front"); }
                3 => { let n = rng.range(1, 12) as usize; let x = rng.bytes(n); b.extend(x); sink.branch("hmut:extend"); }
                4 => { b[0] = rng.next_u64() as u8; sink.branch("hmut:first-byte"); }
                5 => { let n = rng.below(30) as usize; b = rng.bytes(n); if !b.is_empty() && rng.chance(1, 2) { b[0] |= 0x80; if b.len() > 4 { b[1] = 0; b[2] = 0; b[3] = 0; b[4] = rng.below(3) as u8; } } sink.branch("hmut:random"); }
                _ => { sink.branch("hmut:none"); }
            }
            let dl = match rng.below(4) { 0 => rng.below(24) as usize, 1 => 0, _ => 8 };
            let op = format!("hdec {} {}", dl, hex(&b));
            sink.pending(&op);
            let (d, _) = hdec_obs(&b, dl);
            sink.branch(&format!("hdec:{}", if d.starts_with("ok") { "ok".to_string() } else { d.split(':').next().unwrap().replace(' ', "_") }));
            sink.line(&op, &d);
        }
    }
    let _ = Bytes::new();
    sink.finish(&o.stats, "C05hdr: headers of all six kinds (cid lengths 0..20 biased to 0/8/20, token lengths 0/63/64/16383/16384/small, VN lists 0..5) written by the real put_header, read back by be_packet_type + be_header with a random tail and the written or a different dcid length; plus the same decoders on truncations / mutations / random bytes; exact comparison of bytes, size(), Type::encoding_size(), decoded header, consumed, error variant; distinct by transcript hash");
}

// ------------------------------------------------------------------------------------------------
// C05tp: transport-parameter sets, put_parameters then parse_from_bytes
// ------------------------------------------------------------------------------------------------
use std::{net::{IpAddr, Ipv4Addr, Ipv6Addr, SocketAddr, SocketAddrV4, SocketAddrV6}, time::Duration};
#[allow(unused_imports)] use std::net as _net;

use qbase::{
    net::{Family, addr::{EndpointAddr, WriteEndpointAddr, be_endpoint_addr}, route::{Link, WriteLink, be_link}},
    frame::EncodeSize,
    param::{ClientParameters, ParameterId, ParameterValue, ParameterValueType, ServerParameters, core::Parameters,
        io::WriteParameters, preferred_address::{PreferredAddress, WirtePreferredAddress, be_preferred_address}},
    token::ResetToken,
    varint::VarInt,
};

const VMAX: u64 = (1 << 62) - 1;
/// (id, type tag, lo, hi, server-only, client-only): the generator's own knowledge of the table
const TP: &[(u64, char, u64, u64, bool, bool)] = &[
    (0, 'c', 0, 0, true, false), (1, 'd', 0, VMAX, false, false), (2, 'k', 0, 0, true, false), (3, 'v', 1200, 65527, false, false),
    (4, 'v', 0, VMAX, false, false), (5, 'v', 0, VMAX, false, false), (6, 'v', 0, VMAX, false, false), (7, 'v', 0, VMAX, false, false),
    (8, 'v', 0, (1 << 60) - 1, false, false), (9, 'v', 0, (1 << 60) - 1, false, false), (10, 'v', 0, 20, false, false),
    (11, 'd', 0, 16383, false, false), (12, 't', 0, 0, false, false), (13, 'p', 0, 0, true, false), (14, 'v', 2, VMAX, false, false),
    (15, 'c', 0, 0, false, false), (16, 'c', 0, 0, true, false), (32, 'v', 0, VMAX, false, false), (10930, 't', 0, 0, false, false),
    (65518, 'b', 0, 0, false, true),
];

fn pid(id: u64) -> ParameterId { ParameterId::try_from(VarInt::from_u64(id).unwrap()).unwrap() }

fn pref_raw(p: &PreferredAddress) -> Vec<u8> {
    let mut o = p.address_v4().ip().octets().to_vec(); o.extend(p.address_v4().port().to_be_bytes());
    o.extend(p.address_v6().ip().octets()); o.extend(p.address_v6().port().to_be_bytes());
    let c = p.connection_id(); o.push(c.len() as u8); o.extend_from_slice(&c); o.extend_from_slice(&p.stateless_reset_token()[..]);
    o
}

fn show_val(v: &ParameterValue) -> String {
    match v {
        ParameterValue::VarInt(n) => format!("v{}", n.into_u64()),
        ParameterValue::Duration(d) => format!("d{}", d.as_millis()),
        ParameterValue::True => "t".into(),
        ParameterValue::Bytes(b) => format!("b{}", hex(b)),
        ParameterValue::ConnectionId(c) => format!("c{}", hex(c)),
        ParameterValue::ResetToken(t) => format!("k{}", hex(&t[..])),
        ParameterValue::PreferredAddress(p) => format!("p{}", hex(&pref_raw(p))),
    }
}

fn gen_pref(r: &mut Rng) -> PreferredAddress {
    let c = cid(r);
    let tok = match r.below(4) { 0 => vec![0u8; 16], 1 => vec![0xffu8; 16], _ => r.bytes(16) };
    PreferredAddress::new(SocketAddrV4::new(Ipv4Addr::from(ip4_special(r)), port_special(r)),
        SocketAddrV6::new(Ipv6Addr::from(ip6_special(r).0), port_special(r), 0, 0),
        c, ResetToken::new(&tok))
}

fn gen_tp_value(r: &mut Rng, ty: char, lo: u64, hi: u64) -> ParameterValue {
    let num = |r: &mut Rng| match r.below(5) { 0 => lo, 1 => hi, 2 => lo + r.below((hi - lo).min(70000) + 1),
        3 => *r.pick(&[lo.max(63).min(hi), lo.max(64).min(hi), lo.max(16383).min(hi), lo.max(16384).min(hi), lo.max((1 << 30) - 1).min(hi), lo.max(1 << 30).min(hi)]), _ => r.range(lo, hi) };
    match ty {
        'v' => ParameterValue::VarInt(VarInt::from_u64(num(r)).unwrap()),
        'd' => ParameterValue::Duration(Duration::from_millis(num(r))),
        't' => ParameterValue::True,
        'b' => { let n = *r.pick(&[0usize, 1, 5, 63, 64, 300]); ParameterValue::Bytes(Bytes::from(r.bytes(n))) }
        'c' => ParameterValue::ConnectionId(cid(r)),
        'k' => ParameterValue::ResetToken(ResetToken::new(&r.bytes(16))),
        _ => ParameterValue::PreferredAddress(gen_pref(r)),
    }
}

const KNOWN: &[u64] = &[0, 1, 2, 3, 4, 5, 6, 7, 8, 9, 10, 11, 12, 13, 14, 15, 16, 32, 10930, 65518];

fn canon_params<R>(p: &Parameters<R>) -> String {
    let mut out = vec![];
    for &i in KNOWN {
        let id = pid(i);
        if !p.contains(id) { continue; }
        let v = match id.value_type() {
            ParameterValueType::VarInt => p.get::<VarInt>(id).map(ParameterValue::VarInt),
            ParameterValueType::Duration => p.get::<Duration>(id).map(ParameterValue::Duration),
            ParameterValueType::Boolean => p.get::<bool>(id).map(|_| ParameterValue::True),
            ParameterValueType::Bytes => p.get::<Bytes>(id).map(ParameterValue::Bytes),
            ParameterValueType::ConnectionId => p.get::<ConnectionId>(id).map(ParameterValue::ConnectionId),
            ParameterValueType::ResetToken => p.get::<ResetToken>(id).map(ParameterValue::ResetToken),
            ParameterValueType::PreferredAddress => p.get::<PreferredAddress>(id).map(ParameterValue::PreferredAddress),
        };
        out.push(format!("{}:{}", i, v.map(|v| show_val(&v)).unwrap_or_else(|| "?".into())));
    }
    if out.is_empty() { "-".into() } else { out.join(",") }
}

/// split `id len value` records and sort them by id (HashMap iteration order is unspecified)
fn sorted_chunks(mut b: &[u8]) -> Option<Vec<u8>> {
    let mut v: Vec<(u64, Vec<u8>)> = vec![];
    while !b.is_empty() {
        let (r1, id) = qbase::varint::be_varint(b).ok()?;
        let (r2, len) = qbase::varint::be_varint(r1).ok()?;
        let len = len.into_u64() as usize;
        if r2.len() < len { return None; }
        let total = b.len() - r2.len() + len;
        v.push((id.into_u64(), b[..total].to_vec()));
        b = &b[total..];
    }
    v.sort();
    Some(v.into_iter().flat_map(|x| x.1).collect())
}

fn tp_case(r: &mut Rng, sink: &mut Sink) {
    let server = r.chance(1, 2);
    let mut entries: Vec<(u64, ParameterValue)> = vec![];
    let mut typed = true;
    for &(id, ty, lo, hi, so, co) in TP {
        if (so && !server) || (co && server) { continue; }
        let mandatory = id == 15 || (server && id == 0);
        let drop_mandatory = mandatory && r.chance(1, 40);
        if (!mandatory && !r.chance(1, 2)) || drop_mandatory { continue; }
        // `set` checks the value type only for ids with a bound: occasionally store a mistyped value under an unbounded id
        let unbounded = matches!(id, 1 | 4 | 5 | 6 | 7 | 12 | 32 | 10930);
        let v = if unbounded && r.chance(1, 60) { typed = false; if ty == 't' { ParameterValue::VarInt(VarInt::from_u32(5)) } else { ParameterValue::True } } else { gen_tp_value(r, ty, lo, hi) };
        entries.push((id, v));
    }
    let complete = entries.iter().any(|e| e.0 == 15) && (!server || entries.iter().any(|e| e.0 == 0));
    let listed = if entries.is_empty() { "-".to_string() } else { entries.iter().map(|(i, v)| format!("{}:{}", i, show_val(v))).collect::<Vec<_>>().join(",") };
    let op = format!("tp {} {}", if server { "s" } else { "c" }, listed);
    sink.pending(&op);
    let ents = entries.clone();
    let res = catch(move || {
        let mut bytes: Vec<u8> = vec![];
        let parsed = if server {
            let mut p = ServerParameters::new();
            for (i, v) in &ents { p.set(pid(*i), v.clone()).map_err(|e| format!("set:{:?}", e))?; }
            bytes.put_parameters(&p);
            ServerParameters::parse_from_bytes(&bytes).map(|q| canon_params(&q)).map_err(|_| ())
        } else {
            let mut p = ClientParameters::new();
            for (i, v) in &ents { p.set(pid(*i), v.clone()).map_err(|e| format!("set:{:?}", e))?; }
            bytes.put_parameters(&p);
            ClientParameters::parse_from_bytes(&bytes).map(|q| canon_params(&q)).map_err(|_| ())
        };
        Ok::<_, String>((bytes, parsed))
    });
    match res {
        Err(m) => { sink.line(&op, "PANIC"); sink.monitor_fail("panic:tp", &format!("put_parameters / parse_from_bytes panicked: {}", m)); }
        Ok(Err(e)) => { sink.line(&op, &format!("SETERR {}", e)); sink.monitor_fail("tp:set-refused", &format!("Parameters::set refused a generated legal value: {} in {}", e, listed)); }
        Ok(Ok((bytes, parsed))) => {
            let chunks = sorted_chunks(&bytes);
            let ps = match &parsed { Ok(s) => s.clone(), Err(()) => "err".into() };
            sink.line(&op, &format!("chunks={} parsed={}", chunks.as_ref().map_or("UNSPLITTABLE".into(), |c| hex(c)), ps));
            sink.branch(&format!("tp:{}{}{}", if server { "s" } else { "c" }, if typed { "" } else { ":mistyped" }, if complete { "" } else { ":incomplete" }));
            if typed && complete {
                sink.nontrivial();
                // monitor: parse(put(ps)) == ps (order canonicalised), independent of the model
                if ps != listed { sink.monitor_fail("tp:roundtrip", &format!("parameter set does not round-trip: {} -> {}", listed, ps)); }
            }
        }
    }
}

pub fn run_tp(o: &Opts) {
    let mut sink = Sink::new_with_stats(&o.out, &o.stats);
    for i in 0..o.cases {
        if let Some(k) = o.only_case { if k != i { continue; } }
        let mut rng = Rng::new(o.seed, i);
        sink.case(&format!("{}", i));
        for _ in 0..3 { tp_case(&mut rng, &mut sink); }
    }
    sink.finish(&o.stats, "C05tp: random parameter assignments valid for the role (every id of the table, values at the bounds and at the varint-width thresholds, cid 0..20, all value types incl. PreferredAddress), stored with Parameters::set, written by put_parameters (HashMap order), read by parse_from_bytes; compared: the id-sorted records of the written bytes and the parsed set; a few sets are incomplete (mandatory id missing) or hold a mistyped value under an unbounded id; distinct by transcript hash");
}

// ------------------------------------------------------------------------------------------------
// C05addr: EndpointAddr, Link, PreferredAddress
// ------------------------------------------------------------------------------------------------
use crate::registry::c05::{ip4_special, ip6_special, port_special, show_sock, sock_c};
fn show_ep(e: &EndpointAddr) -> String {
    match e { EndpointAddr::Direct { addr } => format!("D {}", show_sock(addr)), EndpointAddr::Agent { agent, outer } => format!("A {} {}", show_sock(agent), show_sock(outer)) }
}
fn show_link(l: &Link) -> String { format!("{} {}", show_sock(&l.src), show_sock(&l.dst)) }
fn show_pa(p: &PreferredAddress) -> String {
    format!("{}:{} {}:{} {} {}", u32::from(*p.address_v4().ip()), p.address_v4().port(), u128::from(*p.address_v6().ip()), p.address_v6().port(), hex(&p.connection_id()), hex(&p.stateless_reset_token()[..]))
}
fn nom_obs<T>(input_len: usize, r: Result<nom::IResult<&[u8], T>, String>, sh: impl Fn(&T) -> String) -> (String, Option<(usize, T)>) {
    match r {
        Err(_) => ("PANIC".into(), None),
        Ok(Err(nom::Err::Incomplete(_))) => ("err Incomplete".into(), None),
        Ok(Err(nom::Err::Error(e))) | Ok(Err(nom::Err::Failure(e))) => (format!("err Nom:{}", nomk(e.code)), None),
        Ok(Ok((rest, v))) => { let used = input_len - rest.len(); (format!("ok used={} {}", used, sh(&v)), Some((used, v))) }
    }
}
fn mutate(r: &mut Rng, base: &[u8]) -> Vec<u8> {
    let mut b = base.to_vec();
    match r.below(5) {
        0 => { let n = r.below(b.len() as u64 + 1) as usize; b.truncate(n); }
        1 => { if !b.is_empty() { let p = r.below(b.len() as u64) as usize; b[p] = r.next_u64() as u8; } }
        2 => { let n = r.range(1, 8) as usize; let x = r.bytes(n); b.extend(x); }
        3 => { let n = r.below(50) as usize; b = r.bytes(n); }
        _ => { if !b.is_empty() { b[0] = *r.pick(&[0u8, 1, 2, 21, 255]); } }
    }
    b
}

fn addr_case(r: &mut Rng, sink: &mut Sink) {
    let tn = r.below(6) as usize;
    let tail = r.bytes(tn);
    match r.below(3) {
        0 => {
            let v6 = r.chance(1, 2);
            let mixed = r.chance(1, 12);
            let (a1, c1) = sock_c(r, v6); let (a2, c2) = sock_c(r, v6 != mixed); sink.branch(&format!("addr:{}", c1));
            let e = if r.chance(1, 2) { EndpointAddr::direct(a1) } else { sink.branch(&format!("addr:{}", c2)); EndpointAddr::with_agent(a1, a2) };
            let is_agent = matches!(e, EndpointAddr::Agent { .. });
            let wf = !(is_agent && mixed);
            let relay = if r.chance(7, 8) { is_agent as u8 } else { r.below(3) as u8 };
            let fam6 = if r.chance(7, 8) { v6 } else { !v6 };
            let op = format!("ep {} {} {} {}", relay, if fam6 { 6 } else { 4 }, hex(&tail), show_ep(&e));
            sink.pending(&op);
            let mut bytes: Vec<u8> = vec![];
            bytes.put_endpoint_addr(e);
            let size = catch(|| e.encoding_size());
            let mut input = bytes.clone(); input.extend_from_slice(&tail);
            let fam = if fam6 { Family::V6 } else { Family::V4 };
            let (d, val) = { let inp = input.clone(); let res = catch(|| be_endpoint_addr(&inp, relay, fam).map(|(r, v)| (r.len(), v))); 
                match res { Err(_) => ("PANIC".to_string(), None), Ok(Err(nom::Err::Incomplete(_))) => ("err Incomplete".to_string(), None),
                    Ok(Err(nom::Err::Error(e))) | Ok(Err(nom::Err::Failure(e))) => (format!("err Nom:{}", nomk(e.code)), None),
                    Ok(Ok((rl, v))) => (format!("ok used={} {}", input.len() - rl, show_ep(&v)), Some((input.len() - rl, v))) } };
            sink.line(&op, &format!("bytes={} size={} {}", hex(&bytes), size.as_ref().map_or("PANIC".into(), |s| s.to_string()), d));
            sink.branch(if wf { "ep:wf" } else { "ep:mixed" });
            if wf {
                sink.nontrivial();
                match size { Ok(s) if s == bytes.len() => {}, Ok(s) => sink.monitor_fail("asize:ENDPOINT", &format!("EndpointAddr wrote {} bytes, encoding_size {}: {}", bytes.len(), s, show_ep(&e))), Err(m) => sink.monitor_fail("panic:ENDPOINT", &format!("encoding_size panicked on a same-family endpoint: {}", m)) }
                if relay == is_agent as u8 && fam6 == v6 {
                    match val { Some((u, g)) if (g == e || show_ep(&g) == show_ep(&e)) && u == bytes.len() => {}, _ => sink.monitor_fail("aroundtrip:ENDPOINT", &format!("EndpointAddr does not round-trip: {} -> {}", show_ep(&e), d)) }
                }
            }
            let m = mutate(r, &bytes);
            let op = format!("epd {} {} {}", relay, if fam6 { 6 } else { 4 }, hex(&m));
            let (d, _) = nom_obs(m.len(), catch(|| be_endpoint_addr(&m, relay, fam)), show_ep);
            sink.line(&op, &d);
        }
        1 => {
            let v6 = r.chance(1, 2);
            let mixed = r.chance(1, 12);
            let (a1, c1) = sock_c(r, v6); let (a2, c2) = sock_c(r, v6 != mixed); sink.branch(&format!("addr:{}", c1)); sink.branch(&format!("addr:{}", c2));
            let l = Link::new(a1, a2);
            let op = format!("ln {} {}", hex(&tail), show_link(&l));
            sink.pending(&op);
            let mut bytes: Vec<u8> = vec![];
            bytes.put_link(&l);
            let (size, max) = (l.encoding_size(), l.max_encoding_size());
            let mut input = bytes.clone(); input.extend_from_slice(&tail);
            let (d, val) = nom_obs(input.len(), catch(|| be_link(&input)), show_link);
            sink.line(&op, &format!("bytes={} size={} max={} {}", hex(&bytes), size, max, d));
            sink.branch(if mixed { "ln:mixed" } else { "ln:wf" });
            if size != bytes.len() { sink.monitor_fail("asize:LINK", &format!("Link wrote {} bytes, encoding_size {}: {}", bytes.len(), size, show_link(&l))); }
            if size > max { sink.monitor_fail("amax:LINK", &format!("Link encoding_size {} > max {}", size, max)); }
            if !mixed {
                sink.nontrivial();
                match val { Some((u, g)) if (g == l || show_link(&g) == show_link(&l)) && u == bytes.len() => {}, _ => sink.monitor_fail("aroundtrip:LINK", &format!("Link does not round-trip: {} -> {}", show_link(&l), d)) }
            }
            let m = mutate(r, &bytes);
            let op = format!("lnd {}", hex(&m));
            let (d, _) = nom_obs(m.len(), catch(|| be_link(&m)), show_link);
            sink.line(&op, &d);
        }
        _ => {
            let p = gen_pref(r);
            let op = format!("pa {} {}", hex(&tail), show_pa(&p));
            sink.pending(&op);
            let mut bytes: Vec<u8> = vec![];
            bytes.put_preferred_address(&p);
            let size = p.encoding_size();
            let mut input = bytes.clone(); input.extend_from_slice(&tail);
            let (d, val) = nom_obs(input.len(), catch(|| be_preferred_address(&input)), show_pa);
            sink.line(&op, &format!("bytes={} size={} {}", hex(&bytes), size, d));
            sink.nontrivial();
            sink.branch("pa");
            if size != bytes.len() { sink.monitor_fail("asize:PREFADDR", &format!("PreferredAddress wrote {} bytes, encoding_size {}", bytes.len(), size)); }
            match val { Some((u, g)) if g == p && u == bytes.len() => {}, _ => sink.monitor_fail("aroundtrip:PREFADDR", &format!("PreferredAddress does not round-trip: {} -> {}", show_pa(&p), d)) }
            let m = mutate(r, &bytes);
            let op = format!("pad {}", hex(&m));
            let (d, _) = nom_obs(m.len(), catch(|| be_preferred_address(&m)), show_pa);
            sink.line(&op, &d);
        }
    }
}

pub fn run_addr(o: &Opts) {
    let mut sink = Sink::new_with_stats(&o.out, &o.stats);
    for i in 0..o.cases {
        if let Some(k) = o.only_case { if k != i { continue; } }
        let mut rng = Rng::new(o.seed, i);
        sink.case(&format!("{}", i));
        for _ in 0..3 { addr_case(&mut rng, &mut sink); }
    }
    sink.finish(&o.stats, "C05addr: EndpointAddr (direct / agent, v4 / v6, also mixed-family agents and wrong relay flag / family at the decoder), Link (also mixed families), PreferredAddress (cid 0..20): real put_* / encoding_size / be_* with a random tail, plus the decoders on truncated / mutated / random bytes; exact comparison; distinct by transcript hash");
}

// ------------------------------------------------------------------------------------------------
// C05cb: CONNECTION_CLOSE written into a bounded buffer (`&mut [u8]`)
// ------------------------------------------------------------------------------------------------
fn cb_case(r: &mut Rng, sink: &mut Sink) {
    use qbase::{error::{ErrorFrameType, ErrorKind}, frame::{ConnectionCloseFrame, FrameType, io::WriteFrame}};
    let n = match r.below(6) { 0 => 0, 1 => 62, 2 => 63, 3 => 64, 4 => 300, _ => r.below(20) as usize };
    let reason: String = (0..n).map(|_| (0x61 + r.below(26) as u8) as char).collect();
    let (f, desc, head) = if r.chance(1, 2) {
        let code = *r.pick(&[0u64, 7, 63, 64, 16384, VMAX]);
        (ConnectionCloseFrame::new_app(VarInt::from_u64(code).unwrap(), reason.clone()), format!("A {} {}", code, hex(reason.as_bytes())), 1 + VarInt::from_u64(code).unwrap().encoding_size())
    } else {
        let kc = *r.pick(&[0u64, 7, 0x0a, 0x10, 0x100, 0x1ff]);
        let fc = *r.pick(&[0u64, 6, 0x1c, 0x31, 0x40, 0x3d7e90, 1 << 30]);
        let k = ErrorKind::try_from(VarInt::from_u64(kc).unwrap()).unwrap();
        let t = match FrameType::try_from(VarInt::from_u64(fc).unwrap()) { Ok(t) => ErrorFrameType::V1(t), Err(_) => ErrorFrameType::Ext(VarInt::from_u64(fc).unwrap()) };
        (ConnectionCloseFrame::new_quic(k, t, reason.clone()), format!("Q {} {} {}", kc, fc, hex(reason.as_bytes())),
         1 + VarInt::from_u64(kc).unwrap().encoding_size() + VarInt::from_u64(fc).unwrap().encoding_size())
    };
    let size = f.encoding_size();
    // room: around the head, around head + reason, around the declared size, or plenty
    let rem = match r.below(6) { 0 => r.below(head as u64 + 2) as usize, 1 => head + n.saturating_sub(1) + r.below(4) as usize, 2 => size.saturating_sub(1) + r.below(3) as usize, 3 => head + r.below(n as u64 + 3) as usize, 4 => size, _ => size + 50 };
    let op = format!("cb {} {}", rem, desc);
    sink.pending(&op);
    let mut buf = vec![0u8; rem];
    let g = f.clone();
    let res = catch(move || { let mut sl = &mut buf[..]; sl.put_frame(&g); let left = sl.len(); buf.truncate(rem - left); buf });
    sink.branch(match (&res, rem >= size) { (Ok(_), true) => "cb:fits", (Ok(_), false) => "cb:truncated", (Err(_), true) => "cb:panic-though-fits", (Err(_), false) => "cb:panic" });
    match res {
        Ok(b) => {
            sink.line(&op, &format!("ok bytes={}", hex(&b)));
            if rem >= size {
                sink.nontrivial();
                let mut full: Vec<u8> = vec![]; full.put_frame(&f);
                if b != full { sink.monitor_fail("cb:admitted-differs", &format!("CONNECTION_CLOSE admitted by size (rem {} >= size {}) but the bounded writer wrote different bytes", rem, size)); }
            }
            else {
                // truncated: what was written must be type+codes, a length k and the first k bytes of the reason
                use qbase::varint::WriteVarInt;
                let mut full: Vec<u8> = vec![]; full.put_frame(&f);
                let ok = (0..=n).any(|k| { let mut e = full[..head].to_vec(); e.put_varint(&VarInt::from_u32(k as u32)); e.extend_from_slice(&reason.as_bytes()[..k]); e == b });
                if !ok { sink.monitor_fail("cb:truncated-malformed", &format!("CONNECTION_CLOSE truncated into {} bytes is not type+codes, length k, first k bytes of the reason: {}", rem, hex(&b))); }
            }
        }
        Err(m) => {
            sink.line(&op, "PANIC");
            if rem >= size { sink.monitor_fail("cb:admitted-panics", &format!("CONNECTION_CLOSE admitted by size (rem {} >= size {}) but put_frame panicked: {}", rem, size, m)); }
            // rem == head: not even the 1-byte Reason Phrase Length fits; put_frame returns () and can only panic
            // (theorem close_bounded_needs_length_byte) -- not a truncation failure
            else if rem == head { sink.branch("cb:panic-no-room-for-length"); }
            else if rem > head { sink.monitor_fail("cb:truncation-panics", &format!("put_frame(ConnectionCloseFrame) panics instead of truncating the reason: room {} after {} bytes of type+codes, reason {} bytes ({})", rem - head, head, n, m)); }
        }
    }
}

pub fn run_cb(o: &Opts) {
    let mut sink = Sink::new_with_stats(&o.out, &o.stats);
    for i in 0..o.cases {
        if let Some(k) = o.only_case { if k != i { continue; } }
        let mut rng = Rng::new(o.seed, i);
        sink.case(&format!("{}", i));
        for _ in 0..4 { cb_case(&mut rng, &mut sink); }
    }
    sink.finish(&o.stats, "C05cb: both CONNECTION_CLOSE layers with reasons of 0..300 bytes written by the real put_frame into a `&mut [u8]` whose length is chosen around the head, head+reason and the declared size; compared: bytes written or PANIC; non-trivial = admitted by size (monitor: bytes identical to the unbounded writer)");
}

pub const RUNS: &[(&str, fn(&Opts))] = &[("C05hdr", run_hdr), ("C05tp", run_tp), ("C05addr", run_addr), ("C05cb", run_cb)];
