//! C05 (second part): packet-type byte + packet headers, transport-parameter sets, endpoint
//! addresses / links / preferred address.
//!
//!  * `C05hdr`  `henc`: build a real header (VN / Retry / Initial / 0-RTT / Handshake / 1-RTT, cid
//!              lengths 0..20, token lengths around the varint thresholds), `put_header` into a Vec,
//!              `EncodeHeader::size()` / `Type::encoding_size()`, then `be_packet_type` + `be_header`
//!              on bytes ++ tail; `hdec`: the same decoder pair on truncated / mutated / random bytes.
//!              Monitors: decoded header == original (field by field), consumed == written,
//!              declared size == written.
use bytes::Bytes;
use qbase::{
    cid::ConnectionId,
    packet::{
        error::Error as PE,
        header::{EncodeHeader, GetDcid, GetScid, GetType, Header, OneRttHeader, io::{WriteHeader, be_header}, long::io::LongHeaderBuilder},
        r#type::{Type, io::be_packet_type},
        SpinBit,
    },
};

use crate::common::{Opts, Rng, Sink, catch, hex};

fn b01(b: bool) -> u8 { b as u8 }

fn cid(r: &mut Rng) -> ConnectionId {
    let n = match r.below(5) { 0 => 0, 1 => 20, 2 => 8, _ => r.below(21) } as usize;
    ConnectionId::from_slice(&r.bytes(n))
}

fn tok_len(r: &mut Rng) -> usize {
    match r.below(8) { 0 => 0, 1 => 63, 2 => 64, 3 => 16383, 4 => 16384, _ => r.below(40) as usize }
}

fn show_header(h: &Header) -> String {
    match h {
        Header::VN(v) => {
            let vs: Vec<String> = v.versions().iter().map(|x| x.to_string()).collect();
            format!("VN {} {} {}", hex(v.dcid()), hex(v.scid()), if vs.is_empty() { "-".into() } else { vs.join(",") })
        }
        Header::Retry(x) => format!("RETRY {} {} {} {}", hex(x.dcid()), hex(x.scid()), hex(x.token()), hex(x.integrity())),
        Header::Initial(x) => format!("INITIAL {} {} {}", hex(x.dcid()), hex(x.scid()), hex(x.token())),
        Header::ZeroRtt(x) => format!("ZERO_RTT {} {}", hex(x.dcid()), hex(x.scid())),
        Header::Handshake(x) => format!("HANDSHAKE {} {}", hex(x.dcid()), hex(x.scid())),
        Header::OneRtt(x) => format!("ONE_RTT {} {}", b01(x.spin() == SpinBit::One), hex(x.dcid())),
    }
}

fn gen_header(r: &mut Rng, kind: u64) -> Header {
    let b = LongHeaderBuilder::with_cid(cid(r), cid(r));
    match kind {
        0 => {
            let n = match r.below(4) { 0 => 0, 1 => 1, _ => r.below(6) };
            Header::VN(b.vn((0..n).map(|_| *r.pick(&[0u32, 1, 0xff00ff00, u32::MAX, 0x6b3343cf, 0x0a0a0a0a])).collect()))
        }
        1 => { let n = tok_len(r); let t = r.bytes(n); let mut i = [0u8; 16]; i.copy_from_slice(&r.bytes(16)); Header::Retry(b.retry(t, i)) }
        2 => { let n = tok_len(r); Header::Initial(b.initial(r.bytes(n))) }
        3 => Header::ZeroRtt(b.zero_rtt()),
        4 => Header::Handshake(b.handshake()),
        _ => Header::OneRtt(OneRttHeader::new(if r.chance(1, 2) { SpinBit::One } else { SpinBit::Zero }, cid(r))),
    }
}

fn put(h: &Header) -> (Vec<u8>, Option<usize>, usize) {
    let mut v: Vec<u8> = vec![];
    v.put_header(h);
    let (size, ts) = match h {
        Header::VN(x) => (None, x.get_type().encoding_size()),
        Header::Retry(x) => (None, x.get_type().encoding_size()),
        Header::Initial(x) => (Some(x.size()), x.get_type().encoding_size()),
        Header::ZeroRtt(x) => (Some(x.size()), x.get_type().encoding_size()),
        Header::Handshake(x) => (Some(x.size()), x.get_type().encoding_size()),
        Header::OneRtt(x) => (Some(x.size()), x.get_type().encoding_size()),
    };
    (v, size, ts)
}

fn nomk(k: nom::error::ErrorKind) -> &'static str {
    match k { nom::error::ErrorKind::Eof => "Eof", nom::error::ErrorKind::TooLarge => "TooLarge", nom::error::ErrorKind::Verify => "Verify", nom::error::ErrorKind::Alt => "Alt", _ => "Other" }
}

/// `be_packet_type` then `be_header`: (observation, decoded header + consumed)
fn hdec_obs(input: &[u8], dcid_len: usize) -> (String, Option<(usize, Header)>) {
    let inp = input.to_vec();
    let r = catch(move || {
        let (remain, ty): (&[u8], Type) = match be_packet_type(&inp) {
            Ok(x) => x,
            Err(nom::Err::Incomplete(_)) => return Err("err Incomplete".to_string()),
            Err(nom::Err::Error(e)) | Err(nom::Err::Failure(e)) => {
                return Err(match e { PE::UnsupportedVersion(v) => format!("err UnsupportedVersion:{}", v), PE::InvalidFixedBit => "err InvalidFixedBit".into(), _ => "err OtherType".into() })
            }
        };
        match be_header(ty, dcid_len, remain) {
            Ok((rest, h)) => Ok((inp.len() - rest.len(), h)),
            Err(nom::Err::Incomplete(_)) => Err("err Incomplete".to_string()),
            Err(nom::Err::Error(e)) | Err(nom::Err::Failure(e)) => Err(format!("err Nom:{}", nomk(e.code))),
        }
    });
    match r {
        Err(_) => ("PANIC".into(), None),
        Ok(Err(s)) => (s, None),
        Ok(Ok((used, h))) => (format!("ok used={} {}", used, show_header(&h)), Some((used, h))),
    }
}

fn henc_op(r: &mut Rng, sink: &mut Sink, kind: u64) -> Vec<u8> {
    let h = gen_header(r, kind);
    let name = show_header(&h);
    let k = name.split(' ').next().unwrap().to_string();
    sink.branch(&format!("hdr:{}", k));
    let delimited = !matches!(h, Header::VN(_) | Header::Retry(_));
    let tn = r.range(1, 9) as usize;
    let tail = if delimited && r.chance(1, 2) { r.bytes(tn) } else { vec![] };
    let own = match &h { Header::OneRtt(x) => x.dcid().len(), _ => 8 };
    // the receiver's configured dcid length: the written one (well-formed use) or, sometimes, another one
    let dl = if r.chance(5, 6) { own } else { r.below(24) as usize };
    let op = format!("henc {} {} {}", dl, hex(&tail), name);
    sink.pending(&op);
    let (bytes, size, ts) = put(&h);
    let mut input = bytes.clone();
    input.extend_from_slice(&tail);
    let (d, val) = hdec_obs(&input, dl);
    sink.line(&op, &format!("bytes={} size={} tsize={} {}", hex(&bytes), size.map_or("-".into(), |s| s.to_string()), ts, d));
    sink.nontrivial();
    // monitors (never consult the model)
    if let Some(s) = size { if s != bytes.len() { sink.monitor_fail(&format!("hsize:{}", k), &format!("{} header wrote {} bytes, size() says {}: {}", k, bytes.len(), s, name)); } }
    if !matches!(h, Header::OneRtt(_)) || dl == own {
        match val {
            Some((used, g)) => {
                if show_header(&g) != name { sink.monitor_fail(&format!("hroundtrip:{}", k), &format!("{} header decodes to a different value: {} -> {}", k, name, show_header(&g))); }
                else if used != bytes.len() { sink.monitor_fail(&format!("hconsumed:{}", k), &format!("{} header wrote {} bytes, decoder consumed {}", k, bytes.len(), used)); }
            }
            None => sink.monitor_fail(&format!("hroundtrip:{}", k), &format!("{} header does not decode ({}): {}", k, d, name)),
        }
    }
    bytes
}

pub fn run_hdr(o: &Opts) {
    let mut sink = Sink::new_with_stats(&o.out, &o.stats);
    for i in 0..o.cases {
        if let Some(k) = o.only_case { if k != i { continue; } }
        let mut rng = Rng::new(o.seed, i);
        sink.case(&format!("{}", i));
        let kind = if i < 60 { i % 6 } else { rng.below(6) };
        let mut base = vec![];
        for _ in 0..2 { base = henc_op(&mut rng, &mut sink, kind); }
        for _ in 0..3 {
            let mut b = base.clone();
            match rng.below(7) {
                0 => { let n = rng.below(b.len() as u64 + 1) as usize; b.truncate(n); sink.branch("hmut:truncate"); }
                1 => { let p = rng.below(b.len() as u64) as usize; b[p] = rng.next_u64() as u8; sink.branch("hmut:byte"); }
                2 => { let p = rng.below(b.len().min(7) as u64) as usize; b[p] ^= 1 << rng.below(8); sink.branch("hmut:bit-front"); }
                3 => { let n = rng.range(1, 12) as usize; let x = rng.bytes(n); b.extend(x); sink.branch("hmut:extend"); }
                4 => { b[0] = rng.next_u64() as u8; sink.branch("hmut:first-byte"); }
                5 => { let n = rng.below(30) as usize; b = rng.bytes(n); if !b.is_empty() && rng.chance(1, 2) { b[0] |= 0x80; if b.len() > 4 { b[1] = 0; b[2] = 0; b[3] = 0; b[4] = rng.below(3) as u8; } } sink.branch("hmut:random"); }
                _ => { sink.branch("hmut:none"); }
            }
            let dl = match rng.below(4) { 0 => rng.below(24) as usize, 1 => 0, _ => 8 };
            let op = format!("hdec {} {}", dl, hex(&b));
            sink.pending(&op);
            let (d, _) = hdec_obs(&b, dl);
            sink.branch(&format!("hdec:{}", if d.starts_with("ok") { "ok".to_string() } else { d.split(':').next().unwrap().replace(' ', "_") }));
            sink.line(&op, &d);
        }
    }
    let _ = Bytes::new();
    sink.finish(&o.stats, "C05hdr: headers of all six kinds (cid lengths 0..20 biased to 0/8/20, token lengths 0/63/64/16383/16384/small, VN lists 0..5) written by the real put_header, read back by be_packet_type + be_header with a random tail and the written or a different dcid length; plus the same decoders on truncations / mutations / random bytes; exact comparison of bytes, size(), Type::encoding_size(), decoded header, consumed, error variant; distinct by transcript hash");
}

pub const RUNS: &[(&str, fn(&Opts))] = &[("C05hdr", run_hdr)];
