//! C16 (see c16.rs for the runner): `CidCell::borrow_cid` + the path's `ArcSendWaker` on a real `ArcRemoteCids`.
//! Whole methods run back to back; each is the model's critical sections in program order (Model/WakeCid.lean).
use std::{
    future::Future,
    sync::{Arc, Mutex},
    task::Context,
};

use qbase::{
    cid::{ArcCidCell, ArcRemoteCids, ConnectionId},
    frame::{io::{ReceiveFrame, SendFrame}, NewConnectionIdFrame, RetireConnectionIdFrame},
    net::tx::ArcSendWaker,
    varint::VarInt,
};

use super::c16::{poll_tok, run_inst, Inst, Wakers, NWAKERS};
use crate::common::{Opts, Rng};

#[derive(Clone, Default, Debug)]
struct RRec(Arc<Mutex<Vec<u64>>>);
impl SendFrame<RetireConnectionIdFrame> for RRec {
    fn send_frame<I: IntoIterator<Item = RetireConnectionIdFrame>>(&self, iter: I) {
        let mut g = self.0.lock().unwrap();
        for f in iter {
            g.push(f.sequence());
        }
    }
}

struct CidI {
    remote: ArcRemoteCids<RRec>,
    _cell0: ArcCidCell<RRec>,
    cell: ArcCidCell<RRec>,
    sw: ArcSendWaker,
    seq: u64,
}
impl Inst for CidI {
    const NAME: &'static str = "CidCell";
    const MULTI: bool = false;
    const CLOSE: &'static str = "retire";
    fn new(_: &mut Rng) -> Self {
        let remote = ArcRemoteCids::new(8, RRec::default());
        let cell0 = remote.apply_dcid();
        remote.apply_initial_dcid(ConnectionId::from_slice(&[9u8; 8]), &cell0);
        let cell = remote.apply_dcid();
        CidI { remote, _cell0: cell0, cell, sw: ArcSendWaker::new(), seq: 1 }
    }
    fn gen_op(&self, rng: &mut Rng, _single: bool) -> String {
        match rng.below(10) {
            0..=1 => "borrow".into(),
            2..=5 => format!("poll 0 {}", if rng.chance(3, 4) { 0 } else { rng.below(NWAKERS as u64) }),
            6..=7 => "newcid".into(),
            8 => "retire".into(),
            _ => "dropfut 0".into(),
        }
    }
    fn alphabet() -> Vec<String> {
        ["borrow", "poll 0 0", "poll 0 1", "newcid", "retire"].iter().map(|s| s.to_string()).collect()
    }
    fn apply(&mut self, op: &[&str], wk: &Wakers) -> String {
        match op[0] {
            "borrow" => match self.cell.borrow_cid(self.sw.clone()) {
                Ok(Some(_)) => "ready:1".into(),
                Ok(None) => "done".into(),
                Err(_) => "blocked".into(),
            },
            "poll" => {
                let w: usize = op[2].parse().unwrap();
                match self.cell.borrow_cid(self.sw.clone()) {
                    Ok(Some(_)) => "ready:1".into(),
                    Ok(None) => "done".into(),
                    Err(sig) => {
                        let mut f = Box::pin(self.sw.wait_for(sig));
                        poll_tok(f.as_mut().poll(&mut Context::from_waker(&wk.w[w])), |_| "ready:0".into())
                    }
                }
            }
            "newcid" => {
                if self.seq < 6 {
                    let cid = ConnectionId::from_slice(&[self.seq as u8; 8]);
                    let f = NewConnectionIdFrame::new(cid, VarInt::from_u64(self.seq).unwrap(), VarInt::from_u32(0));
                    self.seq += 1;
                    match self.remote.recv_frame(f) {
                        Ok(_) => "-".into(),
                        Err(_) => "err".into(),
                    }
                } else {
                    "-".into()
                }
            }
            "retire" => {
                self.cell.retire();
                "-".into()
            }
            _ => "-".into(),
        }
    }
}

pub const RUNS: &[(&str, fn(&Opts))] = &[("C16cid", run_inst::<CidI>)];
