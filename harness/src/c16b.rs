//! C16, further instances (see c16.rs for the runner, the line grammar and the monitors):
//! `ArcParameters::remote_ready`, `ArcKeys::get_remote_keys`, `ArcOneRttKeys::get_remote_keys`,
//! `DatagramReader::poll_recv`, `AntiAmplifier::balance` + `ArcSendWaker::wait_for`.
use std::{
    future::Future,
    pin::Pin,
    sync::Arc,
    task::Context,
};

use bytes::Bytes;
use qbase::{
    cid::ConnectionId,
    frame::DatagramFrame,
    net::tx::{ArcSendWaker, Signals},
    packet::keys::{ArcKeys, ArcOneRttKeys},
    param::{ArcParameters, ClientParameters, ParameterId, Parameters, ServerParameters},
    varint::VarInt,
};
use qconnection::path::AntiAmplifier;
use qdatagram::{DatagramIncoming, DatagramReader};

use super::c11::conn_error;
use super::c16::{poll_tok, run_inst, Inst, Wakers, NWAKERS};
use crate::common::{Opts, Rng};

fn poll_line(rng: &mut Rng, single: bool, tasks: u64) -> String {
    let t = if single { 0 } else { rng.below(tasks) };
    format!("poll {} {}", t, if rng.chance(2, 3) { t } else { rng.below(NWAKERS as u64) })
}

// ------------------------------------------------------------------------------------------------
// 6. Parameters
struct ParamsI {
    p: ArcParameters,
    sp: ServerParameters,
    sscid: ConnectionId,
}
impl Inst for ParamsI {
    const NAME: &'static str = "Parameters";
    const MULTI: bool = true;
    const CLOSE: &'static str = "conn_error";
    fn new(_: &mut Rng) -> Self {
        let odcid = ConnectionId::from_slice(&[7u8; 8]);
        let cscid = ConnectionId::from_slice(&[1u8; 8]);
        let sscid = ConnectionId::from_slice(&[2u8; 8]);
        let mut cp = ClientParameters::default();
        let mut sp = ServerParameters::default();
        cp.set(ParameterId::InitialSourceConnectionId, cscid).unwrap();
        sp.set(ParameterId::InitialSourceConnectionId, sscid).unwrap();
        sp.set(ParameterId::OriginalDestinationConnectionId, odcid).unwrap();
        let ps = Parameters::new_client(cp, None, odcid);
        ParamsI { p: ps.into(), sp, sscid }
    }
    fn gen_op(&self, rng: &mut Rng, _single: bool) -> String {
        match rng.below(10) {
            0..=4 => poll_line(rng, false, 3),
            5 => "recv_params".into(),
            6 => "scid".into(),
            7 => "conn_error".into(),
            8 => if rng.chance(1, 2) { "recv_params".into() } else { "scid".into() },
            _ => format!("dropfut {}", rng.below(3)),
        }
    }
    fn alphabet() -> Vec<String> {
        ["poll 0 0", "poll 1 1", "poll 0 2", "recv_params", "scid", "conn_error"].iter().map(|s| s.to_string()).collect()
    }
    fn apply(&mut self, op: &[&str], wk: &Wakers) -> String {
        match op[0] {
            "poll" => {
                let w: usize = op[2].parse().unwrap();
                let mut f = Box::pin(self.p.remote_ready());
                poll_tok(f.as_mut().poll(&mut Context::from_waker(&wk.w[w])), |v| match v {
                    Ok(_) => "ready:0".into(),
                    Err(_) => "err".into(),
                })
            }
            "recv_params" => match self.p.lock_guard() {
                Ok(mut g) => match g.recv_remote_params(self.sp.clone()) {
                    Ok(()) => "-".into(),
                    Err(_) => "qerr".into(),
                },
                Err(_) => "err".into(),
            },
            "scid" => match self.p.lock_guard() {
                Ok(mut g) => match g.initial_scid_from_peer_need_equal(self.sscid) {
                    Ok(()) => "-".into(),
                    Err(_) => "qerr".into(),
                },
                Err(_) => "err".into(),
            },
            "conn_error" => {
                self.p.on_conn_error(&conn_error());
                "-".into()
            }
            _ => "-".into(),
        }
    }
}

// ------------------------------------------------------------------------------------------------
// 7. Keys (long-packet keys and 1-RTT keys: the same state machine; `set_keys` of the 1-RTT keys needs
// `rustls::quic::Secrets`, which only a TLS handshake can produce, so that op is exercised on ArcKeys only)
fn rustls_keys() -> rustls::quic::Keys {
    let provider = rustls::crypto::ring::default_provider();
    provider
        .cipher_suites
        .iter()
        .find_map(|cs| match (cs.suite(), cs.tls13()) {
            (rustls::CipherSuite::TLS13_AES_128_GCM_SHA256, Some(suite)) => Some(suite.quic_suite()),
            _ => None,
        })
        .flatten()
        .expect("suite")
        .keys(&[7u8; 8], rustls::Side::Client, rustls::quic::Version::V1)
}

fn keys_gen(rng: &mut Rng, single: bool, with_set: bool) -> String {
    match rng.below(10) {
        6 if !with_set => "invalid".into(),
        0..=5 => format!("poll {} {}", if single { 0 } else { rng.below(2) }, if rng.chance(5, 6) { 0 } else { rng.below(NWAKERS as u64) }),
        6 => "set".into(),
        7..=8 => "invalid".into(),
        _ => format!("dropfut {}", rng.below(2)),
    }
}
fn keys_alphabet(with_set: bool) -> Vec<String> {
    let mut v: Vec<String> = ["poll 0 0", "poll 0 1", "poll 1 1", "dropfut 0", "invalid"].iter().map(|s| s.to_string()).collect();
    if with_set {
        v.push("set".into());
    }
    v
}

struct KeysI {
    k: ArcKeys,
}
impl Inst for KeysI {
    const NAME: &'static str = "Keys";
    const MULTI: bool = false;
    const CLOSE: &'static str = "invalid";
    fn new(_: &mut Rng) -> Self {
        KeysI { k: ArcKeys::new_pending() }
    }
    fn gen_op(&self, rng: &mut Rng, single: bool) -> String {
        keys_gen(rng, single, true)
    }
    fn alphabet() -> Vec<String> {
        keys_alphabet(true)
    }
    fn apply(&mut self, op: &[&str], wk: &Wakers) -> String {
        match op[0] {
            "poll" => {
                let w: usize = op[2].parse().unwrap();
                let mut f = self.k.get_remote_keys();
                poll_tok(Pin::new(&mut f).poll(&mut Context::from_waker(&wk.w[w])), |v| match v {
                    Some(_) => "ready:0".into(),
                    None => "done".into(),
                })
            }
            "set" => {
                self.k.set_keys(rustls_keys().into());
                "-".into()
            }
            "invalid" => {
                let _ = self.k.invalid();
                "-".into()
            }
            _ => "-".into(),
        }
    }
}

struct Keys1I {
    k: ArcOneRttKeys,
}
impl Inst for Keys1I {
    const NAME: &'static str = "OneRttKeys";
    const MULTI: bool = false;
    const CLOSE: &'static str = "invalid";
    fn new(_: &mut Rng) -> Self {
        Keys1I { k: ArcOneRttKeys::new_pending() }
    }
    fn gen_op(&self, rng: &mut Rng, single: bool) -> String {
        keys_gen(rng, single, false)
    }
    fn alphabet() -> Vec<String> {
        keys_alphabet(false)
    }
    fn apply(&mut self, op: &[&str], wk: &Wakers) -> String {
        match op[0] {
            "poll" => {
                let w: usize = op[2].parse().unwrap();
                let mut f = self.k.get_remote_keys();
                poll_tok(Pin::new(&mut f).poll(&mut Context::from_waker(&wk.w[w])), |v| match v {
                    Some(_) => "ready:0".into(),
                    None => "done".into(),
                })
            }
            "invalid" => {
                let _ = self.k.invalid();
                "-".into()
            }
            _ => "-".into(),
        }
    }
}

// ------------------------------------------------------------------------------------------------
// 8. DatagramReader
struct DgramI {
    inc: DatagramIncoming,
    readers: Vec<DatagramReader>,
}
impl Inst for DgramI {
    const NAME: &'static str = "DatagramReader";
    const MULTI: bool = false;
    const CLOSE: &'static str = "conn_error";
    fn new(_: &mut Rng) -> Self {
        let inc = DatagramIncoming::new(1200);
        let readers = vec![inc.new_reader().unwrap(), inc.new_reader().unwrap()];
        DgramI { inc, readers }
    }
    fn gen_op(&self, rng: &mut Rng, single: bool) -> String {
        match rng.below(10) {
            0..=4 => poll_line(rng, single, 2),
            5..=7 => format!("recv {}", rng.below(200)),
            8 => "conn_error".into(),
            _ => format!("dropfut {}", rng.below(2)),
        }
    }
    fn alphabet() -> Vec<String> {
        ["poll 0 0", "poll 0 1", "poll 1 1", "recv 5", "recv 6", "conn_error"].iter().map(|s| s.to_string()).collect()
    }
    fn apply(&mut self, op: &[&str], wk: &Wakers) -> String {
        match op[0] {
            "poll" => {
                let t: usize = op[1].parse().unwrap();
                let w: usize = op[2].parse().unwrap();
                poll_tok(self.readers[t].poll_recv(&mut Context::from_waker(&wk.w[w])), |v| match v {
                    Ok(b) => format!("ready:{}", b[0]),
                    Err(_) => "err".into(),
                })
            }
            "recv" => {
                let v: u8 = op[1].parse().unwrap();
                let data = Bytes::from(vec![v]);
                match self.inc.recv_datagram(DatagramFrame::new(true, VarInt::from_u32(1)), data) {
                    Ok(()) => "-".into(),
                    Err(_) => "err".into(),
                }
            }
            "conn_error" => {
                self.inc.on_conn_error(&conn_error());
                "-".into()
            }
            _ => "-".into(),
        }
    }
}

// ------------------------------------------------------------------------------------------------
// 5. AntiAmplifier + SendWaker, whole methods run back to back (each = the model's atomic steps in program order)
struct AaI {
    aa: Arc<AntiAmplifier>,
    sw: ArcSendWaker,
}
impl Inst for AaI {
    const NAME: &'static str = "AntiAmplifier";
    const MULTI: bool = false;
    const CLOSE: &'static str = "abort";
    fn new(_: &mut Rng) -> Self {
        let sw = ArcSendWaker::new();
        AaI { aa: Arc::new(AntiAmplifier::new(sw.clone())), sw }
    }
    fn gen_op(&self, rng: &mut Rng, _single: bool) -> String {
        match rng.below(12) {
            0..=2 => "balance".into(),
            3..=5 => format!("poll 0 {}", if rng.chance(3, 4) { 0 } else { rng.below(NWAKERS as u64) }),
            6..=7 => format!("on_rcvd {}", rng.below(3)),
            8..=9 => format!("on_sent {}", rng.below(4)),
            10 => "grant".into(),
            _ => "abort".into(),
        }
    }
    fn alphabet() -> Vec<String> {
        ["balance", "poll 0 0", "on_rcvd 1", "on_rcvd 0", "on_sent 3", "grant", "abort"].iter().map(|s| s.to_string()).collect()
    }
    fn apply(&mut self, op: &[&str], wk: &Wakers) -> String {
        match op[0] {
            // the burst task: `balance()`; when it answers Err(CREDIT) the task then awaits `wait_for(CREDIT)` = `poll`
            "balance" => match self.aa.balance() {
                Ok(Some(n)) => if n == usize::MAX { "ready:max".into() } else { format!("ready:{}", n) },
                Ok(None) => "done".into(),
                Err(_) => "blocked".into(),
            },
            "poll" => {
                let w: usize = op[2].parse().unwrap();
                // balance() first (the condition check), then wait_for(CREDIT) only if it is blocked — the real
                // burst loop; the line reports the wait's result
                match self.aa.balance() {
                    Err(sig) => {
                        let mut f = Box::pin(self.sw.wait_for(sig));
                        poll_tok(f.as_mut().poll(&mut Context::from_waker(&wk.w[w])), |_| "ready:0".into())
                    }
                    Ok(Some(_)) => "ready:1".into(),
                    Ok(None) => "done".into(),
                }
            }
            "on_rcvd" => {
                self.aa.on_rcvd(op[1].parse().unwrap());
                "-".into()
            }
            "on_sent" => {
                // never more than the balance (C15's concern, not this property's)
                let k: usize = op[1].parse().unwrap();
                if let Ok(Some(n)) = self.aa.balance() {
                    if n != usize::MAX {
                        self.aa.on_sent(k.min(n));
                    }
                }
                "-".into()
            }
            "grant" => {
                self.aa.grant();
                "-".into()
            }
            "abort" => {
                self.aa.abort();
                "-".into()
            }
            _ => "-".into(),
        }
    }
}

pub const RUNS: &[(&str, fn(&Opts))] = &[
    ("C16par", run_inst::<ParamsI>),
    ("C16keys", run_inst::<KeysI>),
    ("C16keys1", run_inst::<Keys1I>),
    ("C16dg", run_inst::<DgramI>),
    ("C16aa", run_inst::<AaI>),
];
