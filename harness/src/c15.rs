//! C15: an unvalidated address never receives more than 3x what it sent.
//!
//! * `C15`  — the REAL `qconnection::path::AntiAmplifier<3>` (credit / state read from the derived
//!   `Debug`, the CREDIT bit of the real `ArcSendWaker` likewise) and the REAL `Constraints`, driven
//!   through their public API with generated op lists; exact comparison with the model; independent
//!   monitors on the running totals.
//! * `C15p` — the burst rule.  A source-level probe recognises which variant of `Burst::burst` /
//!   `load_spaces` / `Termination::try_send` the tree contains (as found / fixed); the control flow
//!   of that variant is then replayed *on the real AntiAmplifier and the real Constraints* (every
//!   `balance`, `constrain`, `commit`, `on_sent` is the repo's), with fixed witness histories first and
//!   random ones after; monitors evaluate `sent <= 3 * rcvd` and "credit never above 3 * rcvd".
use std::{future::Future, pin::pin, task::{Context, Poll}};

use qbase::net::tx::{ArcSendWaker, Signals};
use qconnection::path::{AntiAmplifier, Constraints, DEFAULT_ANTI_FACTOR};

use crate::common::{catch, Opts, Rng, Sink};

type AA = AntiAmplifier; // the default factor (DEFAULT_ANTI_FACTOR), as Path uses it

fn dbg_after(d: &str, from: usize, name: &str) -> Option<u128> {
    let key = format!("{}: ", name);
    let p = from + d[from..].find(&key)? + key.len();
    let rest = &d[p..];
    let e = rest.find(|c: char| !c.is_ascii_digit()).unwrap_or(rest.len());
    rest[..e].parse().ok()
}

/// (credit, state, CREDIT bit pending in the waker) of the real object.
fn peek(aa: &AA) -> (u128, u8, bool) {
    let d = format!("{:?}", aa);
    let credit = dbg_after(&d, 0, "credit").expect("credit field");
    let wpos = d.find("SendWaker").expect("SendWaker in Debug");
    let wstate = dbg_after(&d, wpos, "state").expect("waker state");
    let last = d.rfind("state: ").expect("state field");
    let st = dbg_after(&d, last, "state").expect("state value") as u8;
    (credit, st, (wstate as u64 & Signals::CREDIT.bits() as u64) != 0)
}

fn tail(aa: &AA) -> String {
    let (c, s, g) = peek(aa);
    format!("credit={} st={} sig={}", c, s, g as u8)
}

fn bal_str(r: Result<Option<usize>, Signals>, st: u8) -> String {
    match r {
        // a NORMAL-state credit of exactly usize::MAX (only reachable by wrapping) is not the GRANTED answer
        Ok(Some(usize::MAX)) if st == 1 => "unlimited".into(),
        Ok(Some(c)) => format!("some:{}", c),
        Ok(None) => "none".into(),
        Err(s) if s == Signals::CREDIT => "wait".into(),
        Err(s) => format!("err:{:?}", s),
    }
}

/// One poll of `tx_waker.wait_for(CREDIT)` with a no-op waker.
fn poll_wait(w: &ArcSendWaker) -> bool {
    let waker = futures::task::noop_waker();
    let mut cx = Context::from_waker(&waker);
    let fut = pin!(w.wait_for(Signals::CREDIT));
    matches!(fut.poll(&mut cx), Poll::Ready(()))
}

const SIZES: [u64; 14] = [0, 1, 2, 399, 400, 401, 1199, 1200, 1201, 1500, 3600, 65535, 40, 133];

fn pick_size(rng: &mut Rng) -> u64 {
    match rng.below(10) {
        0..=4 => *rng.pick(&SIZES),
        5..=7 => rng.range(1, 1500),
        8 => rng.range(1, 20),
        _ => rng.range(1, 70_000),
    }
}

fn near_wrap(rng: &mut Rng) -> u64 {
    match rng.below(8) {
        0 => u64::MAX,
        1 => u64::MAX - 1,
        2 => u64::MAX / 3,
        3 => u64::MAX / 3 + 1,
        4 => u64::MAX / 3 - rng.below(3),
        5 => u64::MAX / 2 + rng.below(5),
        6 => (1u64 << 63) - rng.below(3),
        _ => u64::MAX - rng.below(4000),
    }
}

fn cons_fields(c: &Constraints) -> (u128, u128) {
    let d = format!("{:?}", c);
    (dbg_after(&d, 0, "credit_limit").unwrap(), dbg_after(&d, 0, "send_quota").unwrap())
}

fn one_case(rng: &mut Rng, sink: &mut Sink, script: Option<&[(u8, u64)]>) {
    let waker = ArcSendWaker::new();
    let aa = AA::new(waker.clone());
    sink.line("factor", &format!("{}", DEFAULT_ANTI_FACTOR));
    if DEFAULT_ANTI_FACTOR != 3 {
        sink.monitor_fail("factor", &format!("DEFAULT_ANTI_FACTOR = {} (RFC 9000 8.1: three)", DEFAULT_ANTI_FACTOR));
    }
    // a disciplined sender (what `Burst` is supposed to be): sends at most the last balance, once
    let wild = script.is_none() && rng.chance(3, 10);
    sink.branch(if wild { "case:wild" } else { "case:disciplined" });
    let mut rcvd_total: u128 = 0;
    let mut sent_total: u128 = 0;
    let mut granted = false; // grant() took effect
    let mut aborted = false;
    let mut held: Option<u64> = None; // last balance, not yet used
    let mut undisciplined = false;
    let mut overflowed = false;
    let mut saw_wait = false;
    let mut saw_resume = false;
    let mut cons = Constraints::new(0, 0);
    let nops = script.map(|s| s.len() as u64).unwrap_or_else(|| rng.range(4, 40));
    for i in 0..nops {
        let (before, st_before, _) = peek(&aa);
        let (kind, arg) = match script {
            Some(s) => s[i as usize],
            None => {
                let k = rng.below(100);
                if k < 28 { (0, if wild && rng.chance(1, 12) { near_wrap(rng) } else { pick_size(rng) }) }
                else if k < 50 { (1, 0) }
                else if k < 72 { (2, 0) }
                else if k < 76 { (3, 0) }
                else if k < 79 { (4, 0) }
                else if k < 88 { (5, 0) }
                else if k < 92 { (6, 0) }
                else if k < 96 { (7, 0) }
                else { (8, 0) }
            }
        };
        match kind {
            0 => {
                let n = arg;
                let op = format!("rcvd {}", n);
                let r = catch(|| aa.on_rcvd(n as usize));
                match r {
                    Ok(()) => {
                        if st_before == 0 { rcvd_total += n as u128; }
                        sink.branch(if st_before == 0 { "rcvd:normal" } else { "rcvd:ignored" });
                        sink.line(&op, &format!("ok {}", tail(&aa)));
                        let (after, _, sig) = peek(&aa);
                        if st_before == 0 && n > 0 && before + 3 * (n as u128) < (1u128 << 64) {
                            // resumes_on_rcvd: credit available and the sender is signalled
                            if after == 0 || !sig { sink.monitor_fail("stuck_after_rcvd", &format!("on_rcvd({}) left credit={} sig={}", n, after, sig)); }
                            if saw_wait { saw_resume = true; }
                        }
                        if before + 3 * (n as u128) >= (1u128 << 64) { overflowed = true; }
                        if st_before != 0 && after != before { sink.monitor_fail("credit_changed_after_grant_or_abort", "on_rcvd changed the credit in a final state"); }
                    }
                    Err(_) => {
                        sink.branch("rcvd:panic");
                        sink.line(&op, &format!("PANIC {}", tail(&aa)));
                        if (n as u128) * 3 < (1u128 << 64) || st_before != 0 { sink.monitor_fail("panic:on_rcvd", &format!("on_rcvd({}) panicked", n)); }
                    }
                }
            }
            1 => {
                let r = aa.balance();
                let s = bal_str(r, peek(&aa).1);
                sink.branch(&format!("bal:{}", s.split(':').next().unwrap()));
                sink.line("bal", &format!("{} {}", s, tail(&aa)));
                held = match r { Ok(Some(c)) => Some(c as u64), _ => None };
                if r == Err(Signals::CREDIT) { saw_wait = true; }
                if granted && r != Ok(Some(usize::MAX)) { sink.monitor_fail("granted_not_unlimited", &format!("balance after grant = {}", s)); }
                if aborted && r != Ok(None) { sink.monitor_fail("aborted_not_stopped", &format!("balance after abort = {}", s)); }
                if !granted && !aborted && !undisciplined && !overflowed {
                    if let Ok(Some(c)) = r {
                        if c as u128 + sent_total > 3 * rcvd_total { sink.monitor_fail("allowance_above_3x", &format!("balance {} with sent={} rcvd={}", c, sent_total, rcvd_total)); }
                    }
                    if r == Err(Signals::CREDIT) && sent_total < 3 * rcvd_total { sink.monitor_fail("stuck_with_credit", &format!("Err(CREDIT) with sent={} rcvd={}", sent_total, rcvd_total)); }
                }
            }
            2 => {
                // sent
                let n = if wild {
                    match rng.below(6) { 0 => (before.min(u64::MAX as u128) as u64).saturating_add(1 + rng.below(3)), 1 => near_wrap(rng), 2 => before.min(u64::MAX as u128) as u64, _ => pick_size(rng) }
                } else if script.is_some() { arg } else {
                    match held { Some(c) => match rng.below(5) { 0 => c, 1 => c.min(1200), 2 => c / 2, _ => rng.below(c.min(4000) + 1) }, None => continue }
                };
                if held.map(|c| n > c).unwrap_or(true) { undisciplined = true; }
                held = None;
                let op = format!("sent {}", n);
                let r = catch(|| aa.on_sent(n as usize));
                sent_total += n as u128;
                match r {
                    Ok(()) => { sink.branch(if (n as u128) > before && st_before == 0 { "sent:wrap" } else { "sent:ok" }); sink.line(&op, &format!("ok {}", tail(&aa))); }
                    Err(_) => { sink.line(&op, &format!("PANIC {}", tail(&aa))); sink.monitor_fail("panic:on_sent", "on_sent panicked"); }
                }
            }
            3 => {
                aa.grant();
                if st_before == 0 { granted = true; }
                sink.branch("grant");
                sink.line("grant", &format!("ok {}", tail(&aa)));
                let (_, st, sig) = peek(&aa);
                if st_before == 0 && (st != 1 || !sig) { sink.monitor_fail("grant_no_effect", &format!("state {} sig {}", st, sig)); }
                if st_before == 0 && saw_wait { saw_resume = true; }
            }
            4 => {
                aa.abort();
                if st_before == 0 { aborted = true; }
                sink.branch("abort");
                sink.line("abort", &format!("ok {}", tail(&aa)));
                let (_, st, sig) = peek(&aa);
                if st_before == 0 && (st != 2 || !sig) { sink.monitor_fail("abort_no_effect", &format!("state {} sig {}", st, sig)); }
            }
            5 => {
                let ready = poll_wait(&waker);
                sink.branch(if ready { "wait:ready" } else { "wait:pending" });
                sink.line("wait", &format!("{} {}", if ready { "ready" } else { "pending" }, tail(&aa)));
            }
            6 => {
                let c = match rng.below(6) { 0 => 0, 1 => u64::MAX, 2 => rng.range(1, 100), _ => pick_size(rng) };
                let q = match rng.below(6) { 0 => 0, 1 => u64::MAX, 2 => rng.range(1, 100), _ => rng.range(1, 14_000) };
                cons = Constraints::new(c as usize, q as usize);
                sink.line(&format!("cons {} {}", c, q), "ok");
            }
            7 => {
                let b = match rng.below(4) { 0 => 0, 1 => 1200, 2 => 1500, _ => rng.range(0, 1600) } as usize;
                let mut buf = vec![0u8; b];
                let n = cons.constrain(&mut buf[..]).len();
                let (c, q) = cons_fields(&cons);
                if (n as u128) > c || (n as u128) > q || n > b { sink.monitor_fail("constrain_exceeds", &format!("constrain({}) = {} with credit {} quota {}", b, n, c, q)); }
                if n != cons.available().min(b) { sink.monitor_fail("constrain_vs_available", "constrain and available disagree"); }
                sink.branch("constrain");
                sink.line(&format!("constrain {}", b), &format!("{}", n));
            }
            _ => {
                let (c0, _) = cons_fields(&cons);
                let l = match rng.below(4) { 0 => 0, 1 => c0.min(u64::MAX as u128) as u64, 2 => c0.min(u64::MAX as u128 - 5) as u64 + rng.below(5), _ => rng.range(0, 1500) };
                let fl = rng.chance(1, 2);
                cons.commit(l as usize, fl);
                let (c, q) = cons_fields(&cons);
                if c > c0 { sink.monitor_fail("commit_increased_credit", "Constraints::commit increased the credit limit"); }
                if c != c0.saturating_sub(l as u128) { sink.monitor_fail("commit_credit_not_consumed", &format!("Constraints::commit({}, {}) left credit {} -> {}: every written byte counts against the anti-amplification credit", l, fl, c0, c)); }
                sink.branch("commit");
                sink.line(&format!("commit {} {}", l, fl as u8), &format!("credit={} quota={} avail={}", c, q, cons.is_available() as u8));
            }
        }
        // ---- monitors independent of the model, after every step --------------------------------
        let (after, st_after, _) = peek(&aa);
        if !undisciplined && !overflowed {
            if !granted && sent_total > 3 * rcvd_total {
                sink.monitor_fail("three_x", &format!("sent={} rcvd={} before grant", sent_total, rcvd_total));
            }
            if st_after == 0 && after > 3 * rcvd_total {
                sink.monitor_fail("credit_above_3x_rcvd", &format!("credit={} rcvd={}", after, rcvd_total));
            }
            if st_after == 0 && after + sent_total != 3 * rcvd_total {
                sink.monitor_fail("credit_accounting", &format!("credit={} sent={} rcvd={}", after, sent_total, rcvd_total));
            }
        }
        if kind != 0 && after > before && !undisciplined && !overflowed {
            sink.monitor_fail("credit_increase_without_rcvd", &format!("credit {} -> {} by op kind {}", before, after, kind));
        }
    }
    if saw_wait && saw_resume && sent_total > 0 { sink.nontrivial(); }
}

/// exhaustive small op lists over boundary sizes (thorough tier; a slice of it in the quick tier)
fn exhaustive(sink: &mut Sink, depth: usize, max_cases: u64) {
    let alphabet: Vec<(u8, u64)> = vec![(0, 0), (0, 1), (0, 400), (0, 1200), (1, 0), (2, 0), (2, 1), (2, 3), (2, 1200), (2, 3600), (3, 0), (4, 0), (5, 0)];
    let mut idx = vec![0usize; depth];
    let mut n = 0u64;
    let mut rng = Rng::new(0, 0);
    loop {
        let script: Vec<(u8, u64)> = idx.iter().map(|&i| alphabet[i]).collect();
        sink.case(&format!("x{}", n));
        one_case(&mut rng, sink, Some(&script));
        n += 1;
        if n >= max_cases { break; }
        let mut k = 0;
        while k < depth { idx[k] += 1; if idx[k] < alphabet.len() { break; } idx[k] = 0; k += 1; }
        if k == depth { break; }
    }
}

pub fn run(o: &Opts) {
    let mut sink = Sink::new_with_stats(&o.out, &o.stats);
    for i in 0..o.cases {
        if let Some(k) = o.only_case { if k != i { continue; } }
        let mut rng = Rng::new(o.seed, i);
        sink.case(&format!("{}", i));
        one_case(&mut rng, &mut sink, None);
    }
    if o.only_case.is_none() {
        // scripted sends are arbitrary amounts: they exercise the wrap and the exact tie, the 3x monitors
        // switch themselves off as soon as a send exceeds the last balance
        if o.thorough() { exhaustive(&mut sink, 5, 400_000); } else { exhaustive(&mut sink, 4, 30_000); }
    }
    sink.finish(&o.stats, "random op lists (rcvd of boundary sizes 0,1,399,400,1199,1200,1201 and near usize wrap / balance / on_sent within the last balance (disciplined, 70%) or arbitrary (wild, 30%) / grant / abort / one poll of wait_for(CREDIT) / Constraints new, constrain, commit) on a real AntiAmplifier<3> + exhaustive op lists of length 4 (quick) or 5 (thorough) over a 13-letter alphabet; non-trivial = balance returned Err(CREDIT) at least once, sending resumed after on_rcvd/grant, and something was sent");
}

// ------------------------------------------------------------------------------------------------
// C15p: the burst rule
// ------------------------------------------------------------------------------------------------

fn repo_root() -> String {
    std::env::var("GMQ_REPO").unwrap_or_else(|_| option_env!("GMQ_HARNESS_REPO").unwrap_or("/repo").to_string())
}

fn fn_body<'a>(src: &'a str, name: &str) -> Option<&'a str> {
    let at = src.find(&format!("fn {}", name))?;
    // the body is the first `{` at parenthesis depth 0 (skips destructuring patterns in the parameter list)
    let mut par = 0i32;
    let mut open = None;
    for (i, c) in src[at..].char_indices() {
        match c {
            '(' => par += 1,
            ')' => par -= 1,
            '{' if par == 0 => { open = Some(at + i); break; }
            _ => {}
        }
    }
    let open = open?;
    let mut depth = 0;
    for (i, c) in src[open..].char_indices() {
        match c {
            '{' => depth += 1,
            '}' => { depth -= 1; if depth == 0 { return Some(&src[open..open + i + 1]); } }
            _ => {}
        }
    }
    None
}

fn strip_comments(s: &str) -> String {
    s.lines().map(|l| match l.find("//") { Some(p) => &l[..p], None => l }).collect::<Vec<_>>().join("\n")
}

fn squash(s: &str) -> String { s.chars().filter(|c| !c.is_whitespace()).collect() }

#[derive(Clone, Copy, Debug)]
struct Rule { cap_pad: bool, carry: bool, guard_close: bool }

/// Recognise the variant of the burst code in the tree under check.  Returns `None` for a shape
/// that is neither the tree as found nor the fixed one.
fn probe_rule(sink: &mut Sink) -> Option<Rule> {
    let root = repo_root();
    let burst = strip_comments(&std::fs::read_to_string(format!("{}/qconnection/src/path/burst.rs", root)).unwrap_or_default());
    let term = strip_comments(&std::fs::read_to_string(format!("{}/qconnection/src/termination.rs", root)).unwrap_or_default());
    let path = strip_comments(&std::fs::read_to_string(format!("{}/qconnection/src/path.rs", root)).unwrap_or_default());
    let ls = squash(fn_body(&burst, "load_spaces").unwrap_or(""));
    let bb = squash(fn_body(&burst, "burst<").or_else(|| fn_body(&burst, "burst(")).unwrap_or(""));
    let newa = squash(fn_body(&burst, "new(").unwrap_or(""));
    let sp = squash(fn_body(&path, "send_packets").unwrap_or(""));
    let ts = squash(fn_body(&term, "try_send<").unwrap_or(""));
    let tso = squash(fn_body(&term, "try_send_on").unwrap_or(""));
    let found = !ls.is_empty() && !bb.is_empty() && !newa.is_empty() && !sp.is_empty() && !ts.is_empty() && !tso.is_empty();
    // as found: `if loaded_initial { ...; buffer.put_bytes(0, buffer.remaining_mut()); return Ok((origin, packet_content)); }`
    let pad_full = ls.contains("ifloaded_initial{") && ls.contains("buffer.put_bytes(0,buffer.remaining_mut());returnOk((origin,packet_content));");
    // fixed: padding target is `origin.min(credit_limit)`
    let pad_capped = ls.contains("ifloaded_initial{") && ls.contains("origin.min(credit_limit)") && !ls.contains("returnOk((origin,packet_content))");
    // as found: every segment builds its assembler from a fresh `balance()` and nothing else
    let stale = newa.contains("anti_amplifier.balance()?") && !newa.contains("saturating_sub(reserved)");
    let carried = newa.contains("anti_amplifier.balance()?") && newa.contains("saturating_sub(reserved)") && bb.contains("spent.set(");
    let close_open = !ts.contains("can_send") && !tso.contains("can_send");
    let close_guarded = ts.contains("can_send") && tso.contains("can_send");
    let on_sent_sum = sp.contains("on_sent(bufs.iter().map(|s|s.len()).sum())");
    let rule = if found && on_sent_sum && (pad_full ^ pad_capped) && (stale ^ carried) && (close_open ^ close_guarded) {
        Some(Rule { cap_pad: pad_capped, carry: carried, guard_close: close_guarded })
    } else { None };
    sink.line("probe", &format!("found={} capPad={} carry={} guardClose={} onSentSum={}", found as u8, pad_capped as u8, carried as u8, close_guarded as u8, on_sent_sum as u8));
    if rule.is_none() {
        sink.monitor_fail("burst_rule:unrecognised", &format!("qconnection/src/path/burst.rs / termination.rs / path.rs left the shapes the C15 model covers (pad_full={} pad_capped={} stale={} carried={} close_open={} close_guarded={} on_sent_sum={}): re-read the code and update Model/AntiAmp.lean", pad_full, pad_capped, stale, carried, close_open, close_guarded, on_sent_sum));
    }
    rule
}

#[derive(Clone, Debug)]
struct Seg { buf: u64, rev: u64, quota: u64, fallback: u64, pkts: Vec<(u64, bool)> }

impl Seg {
    fn tok(&self) -> String {
        let mut s = format!("{},{},{},{}", self.buf, self.rev, self.quota, self.fallback);
        for (w, f) in &self.pkts { s.push_str(&format!(",{}:{}", w, *f as u8)); }
        s
    }
}

/// One segment, the way `load_spaces` (then `load_ping` / `load_heartbeat`) computes its length, with
/// the repo's own `balance`, `Constraints::{new, constrain, commit}`.  Returns `None` for `Err`.
fn load_segment(rule: Rule, aa: &AA, spent: u64, s: &Seg) -> Option<u64> {
    let assembler = |aa: &AA| -> Option<(Constraints, usize)> {
        let c = aa.balance().ok()??;
        let limit = if rule.carry { c.saturating_sub((spent + s.rev) as usize) } else { c };
        if rule.carry && limit == 0 { return None; }
        Some((Constraints::new(limit, s.quota as usize), limit))
    };
    let (mut cons, limit) = assembler(aa)?;
    let mut backing = vec![0u8; s.buf as usize];
    let origin = backing.len();
    let mut off = 0usize;
    let mut loaded_initial = false;
    for (i, (want, fl)) in s.pkts.iter().enumerate() {
        let room = cons.constrain(&mut backing[off..]).len();
        let sz = (*want as usize).min(room);
        if sz > 0 {
            cons.commit(sz, *fl);
            off += sz;
            if i == 0 { loaded_initial = true; }
        }
    }
    if loaded_initial {
        return Some(s.rev + if rule.cap_pad { origin.min(limit).max(off) as u64 } else { origin as u64 });
    }
    if off > 0 { return Some(s.rev + off as u64); }
    // load_ping / load_heartbeat: a fresh assembler, one packet
    let (cons, _) = assembler(aa)?;
    let room = cons.constrain(&mut backing[..]).len();
    let sz = (s.fallback as usize).min(room);
    if sz > 0 { Some(s.rev + sz as u64) } else { None }
}

#[derive(Clone, Debug)]
enum POp { Rcvd(u64), Burst(Vec<Seg>), Close(u64), Grant, Abort, Poll }

fn full_seg(initial: u64, rest: u64) -> Seg {
    Seg { buf: 1200, rev: 0, quota: 12_000, fallback: 0, pkts: vec![(initial, true), (rest, true)] }
}

/// Fixed witnesses (DESIGN §7 item 15): each is a complete history on a fresh path.
fn witnesses() -> Vec<(&'static str, Vec<POp>)> {
    vec![
        // client Initial of 1200 bytes -> credit 3600; the server's first flight (ServerHello in an Initial,
        // then 6 KB of Handshake CRYPTO: certificate chain) leaves in ONE burst of six full datagrams,
        // each loaded against the same balance of 3600
        ("multi_segment", vec![POp::Rcvd(1200), POp::Burst(vec![full_seg(150, 1050), full_seg(0, 1200), full_seg(0, 1200), full_seg(0, 1200), full_seg(0, 1200), full_seg(0, 1200)]), POp::Poll, POp::Burst(vec![full_seg(0, 1200)])]),
        // a 40-byte packet is all that was received (credit 120); an Initial-bearing datagram is padded to the
        // full 1200-byte buffer
        ("initial_padding", vec![POp::Rcvd(40), POp::Burst(vec![full_seg(90, 0)]), POp::Poll, POp::Burst(vec![full_seg(0, 1200)])]),
        // credit exactly used up, then an ACK-only Initial answer after 1 more small packet
        ("initial_padding", vec![POp::Rcvd(1200), POp::Burst(vec![full_seg(150, 1050)]), POp::Burst(vec![full_seg(0, 1200)]), POp::Burst(vec![full_seg(0, 1200)]), POp::Poll, POp::Rcvd(45), POp::Burst(vec![Seg { pkts: vec![(50, false)], ..full_seg(0, 0) }])]),
        // relay pathway: 40 bytes of forward header in front of every datagram are not under the credit
        ("forward_header", vec![POp::Rcvd(400), POp::Burst(vec![Seg { rev: 40, buf: 1160, ..full_seg(0, 1200) }]), POp::Burst(vec![Seg { rev: 40, buf: 1160, ..full_seg(0, 1200) }])]),
        // credit exhausted, then the connection enters the closing state: CONNECTION_CLOSE is sent regardless
        ("close", vec![POp::Rcvd(1200), POp::Burst(vec![full_seg(150, 1050)]), POp::Burst(vec![full_seg(0, 1200)]), POp::Burst(vec![full_seg(0, 1200)]), POp::Poll, POp::Close(60)]),
    ]
}

fn gen_seg(rng: &mut Rng) -> Seg {
    let rev = if rng.chance(1, 6) { rng.range(10, 60) } else { 0 };
    let buf = match rng.below(4) { 0 => 1200, 1 => 1500, _ => rng.range(100, 1500) }.saturating_sub(rev).max(1);
    let quota = match rng.below(5) { 0 => 0, 1 => rng.range(1, 1500), _ => rng.range(1200, 14_000) };
    let initial = if rng.chance(1, 3) { rng.range(20, 1300) } else { 0 };
    let n = rng.below(4);
    let mut pkts = vec![(initial, rng.chance(3, 4))];
    for _ in 0..n { pkts.push((if rng.chance(1, 4) { 0 } else { rng.range(20, 1500) }, rng.chance(3, 4))); }
    Seg { buf, rev, quota, fallback: if rng.chance(1, 3) { rng.range(20, 1300) } else { 0 }, pkts }
}

fn gen_history(rng: &mut Rng) -> Vec<POp> {
    let n = rng.range(3, 24);
    let mut v = vec![];
    for _ in 0..n {
        let k = rng.below(100);
        v.push(if k < 30 { POp::Rcvd(pick_size(rng)) }
        else if k < 78 {
            let m = match rng.below(4) { 0 | 1 => 1, 2 => rng.range(2, 4), _ => rng.range(2, 8) };
            let first = gen_seg(rng);
            let mut segs = vec![first.clone()];
            for _ in 1..m { segs.push(if rng.chance(2, 3) { Seg { pkts: vec![(0, true), (rng.range(600, 1500), true)], ..first.clone() } } else { gen_seg(rng) }); }
            POp::Burst(segs)
        }
        else if k < 84 { POp::Close(rng.range(0, 120)) }
        else if k < 88 { POp::Grant }
        else if k < 90 { POp::Abort }
        else { POp::Poll });
    }
    v
}

fn run_history(rule: Rule, hist: &[POp], expect_cause: Option<&str>, sink: &mut Sink) {
    let waker = ArcSendWaker::new();
    let aa = AA::new(waker.clone());
    sink.line(&format!("rule {} {} {}", rule.cap_pad as u8, rule.carry as u8, rule.guard_close as u8), "ok");
    let mut rcvd_total: u128 = 0;
    let mut sent_total: u128 = 0;
    let mut granted = false;
    let mut waiting = false;
    let mut flagged = false;
    let mut saw_limit = false;
    let mut uf = false; // sticky: some on_sent asked for more than the credit held in NORMAL state
    let sent = |aa: &AA, n: u64, uf: &mut bool| {
        let (cb, stb, _) = peek(aa);
        if stb == 0 && (n as u128) > cb { *uf = true; }
        aa.on_sent(n as usize);
        let _ = aa.balance();
    };
    for op in hist {
        let (_, st_before, _) = peek(&aa);
        let mut cause = "";
        let opstr = match op {
            POp::Rcvd(n) => {
                rcvd_total += *n as u128;
                aa.on_rcvd(*n as usize);
                format!("rcvd {}", n)
            }
            POp::Burst(segs) => {
                let mut lens: Vec<u64> = vec![];
                let first = aa.balance();
                waiting = first == Err(Signals::CREDIT);
                if let Ok(Some(c)) = first {
                    let mut spent = 0u64;
                    for s in segs {
                        match load_segment(rule, &aa, spent, s) {
                            None => break,
                            Some(l) => {
                                let shorter = l < lens.last().copied().unwrap_or(0);
                                if (l as u128) > (c as u128).saturating_sub(spent as u128) {
                                    cause = if lens.is_empty() { if s.rev > 0 && l - s.rev <= c as u64 { "forward_header" } else { "initial_padding" } } else { "multi_segment" };
                                }
                                if (l as usize) < s.buf as usize + s.rev as usize { saw_limit = true; }
                                lens.push(l);
                                spent += l;
                                if shorter { break; }
                            }
                        }
                    }
                    let total: u64 = lens.iter().sum();
                    if total > 0 {
                        // Path::send_packets
                        sent(&aa, total, &mut uf);
                        sent_total += total as u128;
                    }
                }
                sink.branch(&format!("burst:segments={}", lens.len().min(4)));
                format!("burst {}", segs.iter().map(|s| s.tok()).collect::<Vec<_>>().join(" "))
            }
            POp::Close(n) => {
                let ok = if rule.guard_close { matches!(aa.balance(), Ok(Some(c)) if c >= *n as usize) } else { true };
                if ok && *n > 0 {
                    sent(&aa, *n, &mut uf);
                    sent_total += *n as u128;
                    cause = "close";
                }
                format!("close {}", n)
            }
            POp::Grant => { aa.grant(); if st_before == 0 { granted = true; } "grant".to_string() }
            POp::Abort => { aa.abort(); "abort".to_string() }
            POp::Poll => { waiting = aa.balance() == Err(Signals::CREDIT); "poll".to_string() }
        };
        let (credit, st, _) = peek(&aa);
        let wrapped = st == 0 && credit > 3 * rcvd_total;
        sink.line(&opstr, &format!("sent={} rcvd={} uf={} w={} {}", sent_total, rcvd_total, uf as u8, waiting as u8, tail(&aa)));
        // ---- monitors ------------------------------------------------------------------------
        if !granted && !flagged {
            let over = sent_total > 3 * rcvd_total;
            if over || wrapped || uf {
                flagged = true;
                let c = if cause.is_empty() { "unknown" } else { cause };
                sink.monitor_fail(&format!("amplification:{}", c), &format!("before validation: sent={} > 3 x rcvd={} (credit now {}{}) after `{}`", sent_total, rcvd_total, credit, if wrapped { ": wrapped below zero, effectively unlimited" } else { "" }, opstr.chars().take(160).collect::<String>()));
            }
        }
    }
    if let Some(c) = expect_cause {
        sink.note(&format!("witness:{}", c), serde_json::json!({"sent": sent_total.to_string(), "rcvd": rcvd_total.to_string(), "flagged": flagged}));
    }
    if saw_limit && sent_total > 0 { sink.nontrivial(); }
}

pub fn run_p(o: &Opts) {
    let mut sink = Sink::new_with_stats(&o.out, &o.stats);
    sink.case("probe");
    let rule = probe_rule(&mut sink);
    let Some(rule) = rule else {
        sink.finish(&o.stats, "source probe failed");
        return;
    };
    sink.note("rule", serde_json::json!(format!("{:?}", rule)));
    let ws = witnesses();
    for (i, (cause, h)) in ws.iter().enumerate() {
        if let Some(k) = o.only_case { if k != i as u64 { continue; } }
        sink.case(&format!("{}", i));
        run_history(rule, h, Some(cause), &mut sink);
    }
    for i in ws.len() as u64..o.cases {
        if let Some(k) = o.only_case { if k != i { continue; } }
        let mut rng = Rng::new(o.seed, i);
        sink.case(&format!("{}", i));
        let h = gen_history(&mut rng);
        run_history(rule, &h, None, &mut sink);
    }
    sink.finish(&o.stats, "source probe of Burst::burst / load_spaces / PacketsAssembler::new / Termination::try_send; then 5 fixed witness histories and random histories (rcvd / bursts of 1..8 segments with Initial, further packets, fallback packet, forward header, quota / close / grant / abort / poll) replayed with the recognised control flow on a real AntiAmplifier + real Constraints; non-trivial = some segment was cut short by the credit or quota and something was sent");
}

pub const RUNS: &[(&str, fn(&Opts))] = &[("C15", run), ("C15p", run_p)];
