//! C06: packet protection — a packet that was modified on the wire is never accepted, and (the
//! property under test) a packet that fails authentication is dropped silently instead of producing
//! a connection error.
//!
//! * `C06toy`  — the real `PacketWriter::{new_long,new_short}` + `encrypt_and_protect_packet`, the real
//!   `be_packet`, `CipherPacket::{decrypt_long_packet,decrypt_short_packet}` and, for 1-RTT, a real
//!   `ArcOneRttKeys` (key-update state machine) driven with a *toy* AEAD / header-protection cipher
//!   whose arithmetic the Lean model replays bit for bit.  Every single-bit flip of every generated
//!   packet is received, plus a handful of other mutations.
//! * `C06ring` — the same loop on Initial packets with the real AES-128-GCM initial keys (no model
//!   lines, monitors only).
//!
//! 1-RTT keys ("plan A"): `ArcOneRttPacketKeys` needs a `rustls::quic::Secrets`, which only a TLS
//! handshake can produce.  One in-memory rustls QUIC handshake is run per process with a crypto
//! provider whose single cipher suite is TLS13_AES_128_GCM_SHA256 with `quic: Some(&ToyAlg)`; the
//! server side's `Secrets` is cloned for every receive operation.  The toy key values of the key
//! generations 1..4 are therefore different in every process; they are printed in each line
//! (`next=`), so a transcript is self-contained.
//!
//! Monitors never consult the model.
use std::sync::{Arc, Mutex, OnceLock};

use bytes::{BufMut, BytesMut};
use qbase::{
    cid::ConnectionId,
    packet::{
        AssemblePacket, DataHeader, EncodeHeader, GetType, KeyPhaseBit, LongHeaderBuilder, OneRttHeader, Packet,
        PacketNumber, PacketWriter, SpinBit,
        encrypt::{encrypt_packet, protect_header},
        header::{LongHeader, io::WriteHeader, long},
        io::{be_packet, Package, PadTo20},
        keys::{ArcOneRttKeys, DirectionalKeys},
    },
};
use qinterface::component::route::CipherPacket;
use rustls::quic::{HeaderProtectionKey, PacketKey};

use crate::common::{catch, hex, Opts, Rng, Sink};

// ---------------------------------------------------------------------------------------------
// toy cipher (bit-identical to the Lean instance)
// ---------------------------------------------------------------------------------------------

const TAG_LEN: usize = 16;
const SAMPLE_LEN: usize = 16;

fn fnv(start: u64, bytes: &[u8]) -> u64 {
    let mut h = start;
    for b in bytes {
        h = (h ^ *b as u64).wrapping_mul(0x100000001b3);
    }
    h
}

fn ks(k: u64, pn: u64, i: usize) -> u8 {
    ((k.wrapping_add(pn.wrapping_mul(31)).wrapping_add((i as u64).wrapping_mul(7)).wrapping_add(1))
        .wrapping_mul(0x9E3779B97F4A7C15)
        >> 56) as u8
}

fn toy_tag(k: u64, pn: u64, aad: &[u8], plain: &[u8]) -> [u8; 16] {
    let mut m = Vec::with_capacity(24 + aad.len() + plain.len());
    m.extend_from_slice(&k.to_be_bytes());
    m.extend_from_slice(&pn.to_be_bytes());
    m.extend_from_slice(&(aad.len() as u64).to_be_bytes());
    m.extend_from_slice(aad);
    m.extend_from_slice(plain);
    let mut t = [0u8; 16];
    t[..8].copy_from_slice(&fnv(0xcbf29ce484222325, &m).to_be_bytes());
    t[8..].copy_from_slice(&fnv(0x84222325cbf29ce4, &m).to_be_bytes());
    t
}

fn toy_mask(h: u64, sample: &[u8]) -> [u8; 5] {
    let mut m = Vec::with_capacity(8 + sample.len());
    m.extend_from_slice(&h.to_be_bytes());
    m.extend_from_slice(sample);
    let x = fnv(0xcbf29ce484222325, &m).to_be_bytes();
    [x[0], x[1], x[2], x[3], x[4]]
}

#[derive(Clone, Copy)]
struct ToyPk(u64);
#[derive(Clone, Copy)]
struct ToyHp(u64);

impl PacketKey for ToyPk {
    fn encrypt_in_place(&self, pn: u64, header: &[u8], payload: &mut [u8]) -> Result<rustls::quic::Tag, rustls::Error> {
        let tag = toy_tag(self.0, pn, header, payload);
        for (i, b) in payload.iter_mut().enumerate() {
            *b ^= ks(self.0, pn, i);
        }
        Ok(rustls::quic::Tag::from(&tag[..]))
    }

    fn decrypt_in_place<'a>(&self, pn: u64, header: &[u8], payload: &'a mut [u8]) -> Result<&'a [u8], rustls::Error> {
        if payload.len() < TAG_LEN {
            return Err(rustls::Error::DecryptError);
        }
        let n = payload.len() - TAG_LEN;
        let (body, tag) = payload.split_at_mut(n);
        for (i, b) in body.iter_mut().enumerate() {
            *b ^= ks(self.0, pn, i);
        }
        if toy_tag(self.0, pn, header, body)[..] != tag[..] {
            return Err(rustls::Error::DecryptError);
        }
        Ok(&payload[..n])
    }

    fn tag_len(&self) -> usize {
        TAG_LEN
    }
    fn confidentiality_limit(&self) -> u64 {
        u64::MAX
    }
    fn integrity_limit(&self) -> u64 {
        u64::MAX
    }
}

impl ToyHp {
    /// Same logic as rustls' ring `HeaderProtectionKey::xor_in_place`.
    fn xor_in_place(&self, sample: &[u8], first: &mut u8, packet_number: &mut [u8], masked: bool) -> Result<(), rustls::Error> {
        if sample.len() != SAMPLE_LEN {
            return Err(rustls::Error::General("sample of invalid length".into()));
        }
        let mask = toy_mask(self.0, sample);
        let (first_mask, pn_mask) = mask.split_first().unwrap();
        if packet_number.len() > pn_mask.len() {
            return Err(rustls::Error::General("packet number too long".into()));
        }
        let bits = if *first & 0x80 == 0x80 { 0x0f } else { 0x1f };
        let first_plain = if masked { *first ^ (first_mask & bits) } else { *first };
        let pn_len = (first_plain & 0x03) as usize + 1;
        *first ^= first_mask & bits;
        for (dst, m) in packet_number.iter_mut().zip(pn_mask).take(pn_len) {
            *dst ^= m;
        }
        Ok(())
    }
}

impl HeaderProtectionKey for ToyHp {
    fn encrypt_in_place(&self, sample: &[u8], first: &mut u8, packet_number: &mut [u8]) -> Result<(), rustls::Error> {
        self.xor_in_place(sample, first, packet_number, false)
    }
    fn decrypt_in_place(&self, sample: &[u8], first: &mut u8, packet_number: &mut [u8]) -> Result<(), rustls::Error> {
        self.xor_in_place(sample, first, packet_number, true)
    }
    fn sample_len(&self) -> usize {
        SAMPLE_LEN
    }
}

fn toy_dir(k: u64, h: u64) -> DirectionalKeys {
    DirectionalKeys { packet: Arc::new(ToyPk(k)), header: Arc::new(ToyHp(h)) }
}

// ---------------------------------------------------------------------------------------------
// plan A: Secrets from a real (in-memory) rustls QUIC handshake with the toy algorithm
// ---------------------------------------------------------------------------------------------

struct ToyAlg;

fn key_u64(key: &rustls::crypto::cipher::AeadKey) -> u64 {
    let b: &[u8] = key.as_ref();
    let mut x = [0u8; 8];
    x.copy_from_slice(&b[..8]);
    u64::from_be_bytes(x)
}

static KEY_LOG: Mutex<Vec<u64>> = Mutex::new(Vec::new());

impl rustls::quic::Algorithm for ToyAlg {
    fn packet_key(&self, key: rustls::crypto::cipher::AeadKey, _iv: rustls::crypto::cipher::Iv) -> Box<dyn PacketKey> {
        let k = key_u64(&key);
        KEY_LOG.lock().unwrap_or_else(|e| e.into_inner()).push(k);
        Box::new(ToyPk(k))
    }
    fn header_protection_key(&self, key: rustls::crypto::cipher::AeadKey) -> Box<dyn HeaderProtectionKey> {
        Box::new(ToyHp(key_u64(&key)))
    }
    fn aead_key_len(&self) -> usize {
        16
    }
    fn fips(&self) -> bool {
        false
    }
}

#[derive(Debug)]
struct AcceptAll(Vec<rustls::SignatureScheme>);

impl rustls::client::danger::ServerCertVerifier for AcceptAll {
    fn verify_server_cert(
        &self,
        _end_entity: &rustls::pki_types::CertificateDer<'_>,
        _intermediates: &[rustls::pki_types::CertificateDer<'_>],
        _server_name: &rustls::pki_types::ServerName<'_>,
        _ocsp_response: &[u8],
        _now: rustls::pki_types::UnixTime,
    ) -> Result<rustls::client::danger::ServerCertVerified, rustls::Error> {
        Ok(rustls::client::danger::ServerCertVerified::assertion())
    }
    fn verify_tls12_signature(
        &self,
        _message: &[u8],
        _cert: &rustls::pki_types::CertificateDer<'_>,
        _dss: &rustls::DigitallySignedStruct,
    ) -> Result<rustls::client::danger::HandshakeSignatureValid, rustls::Error> {
        Ok(rustls::client::danger::HandshakeSignatureValid::assertion())
    }
    fn verify_tls13_signature(
        &self,
        _message: &[u8],
        _cert: &rustls::pki_types::CertificateDer<'_>,
        _dss: &rustls::DigitallySignedStruct,
    ) -> Result<rustls::client::danger::HandshakeSignatureValid, rustls::Error> {
        Ok(rustls::client::danger::HandshakeSignatureValid::assertion())
    }
    fn supported_verify_schemes(&self) -> Vec<rustls::SignatureScheme> {
        self.0.clone()
    }
}

struct OneRttCtx {
    /// server-side secrets, positioned so that the next `next_packet_keys()` yields generation 1
    secrets: rustls::quic::Secrets,
    /// toy value of the server's REMOTE packet key of generations 1..=8
    next_remote: [u64; 8],
}

fn keychain_dir() -> String {
    let repo = std::env::var("GMQ_REPO").unwrap_or_else(|_| {
        // harness/Cargo.toml is generated with the repo path; fall back to /repo
        "/repo".to_string()
    });
    format!("{}/tests/keychain/localhost", repo)
}

fn toy_handshake() -> Result<OneRttCtx, String> {
    use rustls::pki_types::{CertificateDer, PrivateKeyDer, pem::PemObject};
    let ring = rustls::crypto::ring::default_provider();
    let orig = rustls::crypto::ring::cipher_suite::TLS13_AES_128_GCM_SHA256
        .tls13()
        .ok_or("no tls13 suite")?;
    let toy_suite: &'static rustls::Tls13CipherSuite = Box::leak(Box::new(rustls::Tls13CipherSuite {
        common: rustls::crypto::CipherSuiteCommon {
            suite: orig.common.suite,
            hash_provider: orig.common.hash_provider,
            confidentiality_limit: orig.common.confidentiality_limit,
        },
        hkdf_provider: orig.hkdf_provider,
        aead_alg: orig.aead_alg,
        quic: Some(&ToyAlg),
    }));
    let provider = Arc::new(rustls::crypto::CryptoProvider {
        cipher_suites: vec![rustls::SupportedCipherSuite::Tls13(toy_suite)],
        ..ring
    });

    let dir = keychain_dir();
    let cert_pem = std::fs::read(format!("{}/server.cert", dir)).map_err(|e| format!("server.cert: {e}"))?;
    let key_pem = std::fs::read(format!("{}/server.key", dir)).map_err(|e| format!("server.key: {e}"))?;
    let certs: Vec<CertificateDer<'static>> = CertificateDer::pem_slice_iter(&cert_pem)
        .collect::<Result<_, _>>()
        .map_err(|e| format!("cert pem: {e:?}"))?;
    let key = PrivateKeyDer::from_pem_slice(&key_pem).map_err(|e| format!("key pem: {e:?}"))?;

    let scfg = rustls::ServerConfig::builder_with_provider(provider.clone())
        .with_protocol_versions(&[&rustls::version::TLS13])
        .map_err(|e| format!("server versions: {e}"))?
        .with_no_client_auth()
        .with_single_cert(certs, key)
        .map_err(|e| format!("server cert: {e}"))?;
    let schemes = provider.signature_verification_algorithms.supported_schemes();
    let ccfg = rustls::ClientConfig::builder_with_provider(provider.clone())
        .with_protocol_versions(&[&rustls::version::TLS13])
        .map_err(|e| format!("client versions: {e}"))?
        .dangerous()
        .with_custom_certificate_verifier(Arc::new(AcceptAll(schemes)))
        .with_no_client_auth();

    let name = rustls::pki_types::ServerName::try_from("localhost").map_err(|e| format!("{e}"))?;
    let mut client = rustls::quic::ClientConnection::new(Arc::new(ccfg), rustls::quic::Version::V1, name, vec![1, 2, 3])
        .map_err(|e| format!("client conn: {e}"))?;
    let mut server = rustls::quic::ServerConnection::new(Arc::new(scfg), rustls::quic::Version::V1, vec![4, 5, 6])
        .map_err(|e| format!("server conn: {e}"))?;

    let mut server_next: Option<rustls::quic::Secrets> = None;
    for _round in 0..16 {
        let mut progressed = false;
        // client -> server
        loop {
            let mut buf = Vec::new();
            let kc = client.write_hs(&mut buf);
            if !buf.is_empty() {
                server.read_hs(&buf).map_err(|e| format!("server read_hs: {e}"))?;
                progressed = true;
            }
            if kc.is_some() {
                progressed = true;
            } else if buf.is_empty() {
                break;
            }
        }
        // server -> client
        loop {
            let mut buf = Vec::new();
            let kc = server.write_hs(&mut buf);
            if !buf.is_empty() {
                client.read_hs(&buf).map_err(|e| format!("client read_hs: {e}"))?;
                progressed = true;
            }
            match kc {
                Some(rustls::quic::KeyChange::OneRtt { next, .. }) => {
                    server_next = Some(next);
                    progressed = true;
                }
                Some(_) => progressed = true,
                None => {
                    if buf.is_empty() {
                        break;
                    }
                }
            }
        }
        if !progressed {
            break;
        }
    }
    let secrets = server_next.ok_or("handshake finished without 1-RTT secrets on the server side")?;

    // learn the remote key values of generations 1..=4
    let mut probe = secrets.clone();
    let mut next_remote = [0u64; 8];
    for slot in next_remote.iter_mut() {
        let before = KEY_LOG.lock().unwrap_or_else(|e| e.into_inner()).len();
        let set = probe.next_packet_keys();
        let cands: Vec<u64> = KEY_LOG.lock().unwrap_or_else(|e| e.into_inner())[before..].to_vec();
        let mut d = [0x5au8; 4];
        let want = set.remote.encrypt_in_place(3, b"aad", &mut d).map_err(|e| format!("{e}"))?;
        let mut found = None;
        for c in cands {
            let mut d2 = [0x5au8; 4];
            let t = ToyPk(c).encrypt_in_place(3, b"aad", &mut d2).unwrap();
            if t.as_ref() == want.as_ref() && d2 == d {
                found = Some(c);
            }
        }
        *slot = found.ok_or("cannot identify the remote key of a generation")?;
    }
    Ok(OneRttCtx { secrets, next_remote })
}

static ONE_RTT: OnceLock<Result<OneRttCtx, String>> = OnceLock::new();

fn one_rtt_ctx() -> &'static OneRttCtx {
    match ONE_RTT.get_or_init(|| catch(toy_handshake).unwrap_or_else(|m| Err(format!("panic: {m}")))) {
        Ok(c) => c,
        Err(e) => {
            eprintln!("C06: the in-memory TLS handshake with the toy QUIC algorithm failed: {e}");
            std::process::exit(4);
        }
    }
}

/// A fresh receiver: generation 0, key phase 0, remote keys (k, h).
fn fresh_one_rtt(k: u64, h: u64) -> ArcOneRttKeys {
    let ctx = one_rtt_ctx();
    let keys = rustls::quic::Keys {
        local: rustls::quic::DirectionalKeys { header: Box::new(ToyHp(h ^ 0x5555)), packet: Box::new(ToyPk(k ^ 0x5555)) },
        remote: rustls::quic::DirectionalKeys { header: Box::new(ToyHp(h)), packet: Box::new(ToyPk(k)) },
    };
    let arc = ArcOneRttKeys::new_pending();
    arc.set_keys(keys, ctx.secrets.clone());
    arc
}

// ---------------------------------------------------------------------------------------------
// send / receive on the real code
// ---------------------------------------------------------------------------------------------

#[derive(Clone, Copy, PartialEq, Eq, Debug)]
enum Ty {
    Initial,
    ZeroRtt,
    Handshake,
    OneRtt,
}

impl Ty {
    fn s(self) -> &'static str {
        match self {
            Ty::Initial => "initial",
            Ty::ZeroRtt => "zerortt",
            Ty::Handshake => "handshake",
            Ty::OneRtt => "onertt",
        }
    }
}

struct Sent {
    hdr: Vec<u8>,
    pkt: Vec<u8>,
    off: usize,
    /// the body as handed to the writer (before `PadTo20`), possibly extended to fill the buffer
    body: Vec<u8>,
    /// `PadTo20` was run on the writer
    pad: bool,
}

/// How the body is put into the writer.
#[derive(Clone, Copy)]
struct BodyPlan {
    buf_len: usize,
    /// extend the body to exactly fill the buffer (maximum-size packet)
    fill: bool,
    /// run the real `PadTo20` package after the body (bodies below the sampling minimum)
    pad: bool,
}

/// The assembler wrapper the real `PadTo20` wants (`AsRef<PacketWriter>` + `BufMut`), as qconnection's assemblers are.
struct W<'b>(PacketWriter<'b>);
impl<'b> AsRef<PacketWriter<'b>> for W<'b> {
    fn as_ref(&self) -> &PacketWriter<'b> { &self.0 }
}
unsafe impl BufMut for W<'_> {
    fn remaining_mut(&self) -> usize { self.0.remaining_mut() }
    unsafe fn advance_mut(&mut self, cnt: usize) { unsafe { self.0.advance_mut(cnt) } }
    fn chunk_mut(&mut self) -> &mut bytes::buf::UninitSlice { self.0.chunk_mut() }
}

fn put_body(w: PacketWriter<'_>, body: &[u8], plan: BodyPlan, fillb: u8) -> (usize, Vec<u8>) {
    let mut w = W(w);
    let mut body = body.to_vec();
    if plan.fill {
        let rem = w.remaining_mut();
        if rem > body.len() { body.resize(rem, fillb); }
    }
    w.put_slice(&body);
    if plan.pad {
        let _ = PadTo20.dump(&mut w);
    }
    let (size, _info) = w.0.encrypt_and_protect_packet();
    (size, body)
}

fn write_long<S>(header: &LongHeader<S>, pn: u64, enc: PacketNumber, keys: DirectionalKeys, body: &[u8], plan: BodyPlan) -> Result<Sent, String>
where
    S: EncodeHeader,
    LongHeader<S>: GetType + EncodeHeader,
    for<'a> &'a mut [u8]: WriteHeader<LongHeader<S>>,
{
    let mut buffer = vec![0u8; plan.buf_len];
    let hdr_len = header.size();
    let w = PacketWriter::new_long(header, &mut buffer, (pn, enc), keys).map_err(|s| format!("signals:{s:?}"))?;
    let hdr = w.buffer()[..hdr_len].to_vec();
    let (size, body) = put_body(w, body, plan, 0xa5);
    Ok(Sent { hdr, pkt: buffer[..size].to_vec(), off: hdr_len + 2, body, pad: plan.pad })
}

fn write_short(header: &OneRttHeader, pn: u64, enc: PacketNumber, keys: DirectionalKeys, kp: KeyPhaseBit, body: &[u8], plan: BodyPlan) -> Result<Sent, String> {
    let mut buffer = vec![0u8; plan.buf_len];
    let hdr_len = header.size();
    let w = PacketWriter::new_short(header, &mut buffer, (pn, enc), keys, kp).map_err(|s| format!("signals:{s:?}"))?;
    let hdr = w.buffer()[..hdr_len].to_vec();
    let (size, body) = put_body(w, body, plan, 0xa5);
    Ok(Sent { hdr, pkt: buffer[..size].to_vec(), off: hdr_len, body, pad: plan.pad })
}

#[derive(Clone, PartialEq, Eq, Debug)]
enum Out {
    Acc { pn: u64, kp: u8, body: Vec<u8> },
    Drop,
    ConnErr,
}

/// What the parser made of a datagram.
struct Parsed {
    ty: Ty,
    off: usize,
    bytes: Vec<u8>,
    header: DataHeader,
}

fn parse(datagram: &[u8], dcid_len: usize) -> Result<Option<Parsed>, String> {
    catch(|| {
        let mut dg = BytesMut::from(datagram);
        match be_packet(&mut dg, dcid_len) {
            Ok(Packet::Data(dp)) => {
                let ty = match &dp.header {
                    DataHeader::Long(long::DataHeader::Initial(_)) => Ty::Initial,
                    DataHeader::Long(long::DataHeader::ZeroRtt(_)) => Ty::ZeroRtt,
                    DataHeader::Long(long::DataHeader::Handshake(_)) => Ty::Handshake,
                    DataHeader::Short(_) => Ty::OneRtt,
                };
                Some(Parsed { ty, off: dp.offset, bytes: dp.bytes.to_vec(), header: dp.header.clone() })
            }
            _ => None,
        }
    })
}

fn plain_out<H>(r: Option<Result<qinterface::component::route::PlainPacket<H>, qbase::error::QuicError>>, kp: u8) -> Out {
    match r {
        None => Out::Drop,
        Some(Err(_)) => Out::ConnErr,
        Some(Ok(p)) => Out::Acc { pn: p.pn(), kp, body: p.body().to_vec() },
    }
}

/// Receive with explicit long-header keys (toy or real).  Returns (outcome, cur).
fn rx_long(p: &Parsed, hpk: &dyn HeaderProtectionKey, pk: &dyn PacketKey, exp: u64) -> Result<Out, String> {
    let bytes = BytesMut::from(&p.bytes[..]);
    let off = p.off;
    catch(|| match p.header.clone() {
        DataHeader::Long(long::DataHeader::Initial(h)) => plain_out(CipherPacket::new(h, bytes, off).decrypt_long_packet(hpk, pk, |e| Ok(e.decode(exp))), 0),
        DataHeader::Long(long::DataHeader::ZeroRtt(h)) => plain_out(CipherPacket::new(h, bytes, off).decrypt_long_packet(hpk, pk, |e| Ok(e.decode(exp))), 0),
        DataHeader::Long(long::DataHeader::Handshake(h)) => plain_out(CipherPacket::new(h, bytes, off).decrypt_long_packet(hpk, pk, |e| Ok(e.decode(exp))), 0),
        DataHeader::Short(_) => unreachable!("rx_long on a short header"),
    })
}

/// Receive a short-header packet on a FRESH `ArcOneRttKeys` (generation 0, phase 0).  Returns (outcome, cur).
fn rx_short(p: &Parsed, k: u64, h: u64, exp: u64) -> Result<(Out, u8), String> {
    let bytes = BytesMut::from(&p.bytes[..]);
    let off = p.off;
    let DataHeader::Short(hdr) = p.header.clone() else { unreachable!("rx_short on a long header") };
    catch(|| {
        let arc = fresh_one_rtt(k, h);
        let (hpk, pks) = arc.remote_keys().expect("keys were just set");
        let r = CipherPacket::new(hdr, bytes, off).decrypt_short_packet(hpk.as_ref(), &pks, |e| Ok(e.decode(exp)));
        let cur: u8 = if bool::from(pks.lock_guard().get_local().0) { 1 } else { 0 };
        let out = match r {
            None => Out::Drop,
            Some(Err(_)) => Out::ConnErr,
            Some(Ok(pl)) => {
                // the key phase of an accepted packet: bit 0x04 of the unprotected first byte
                let unmasked = p.bytes[0] ^ (toy_mask(h, &p.bytes[off + 4..off + 4 + SAMPLE_LEN])[0] & 0x1f);
                let first = plain_first_byte(&pl, unmasked);
                Out::Acc { pn: pl.pn(), kp: if first & 0x04 != 0 { 1 } else { 0 }, body: pl.body().to_vec() }
            }
        };
        (out, cur)
    })
}

/// The unprotected first byte of an accepted packet.  `PlainPacket` only exposes `body()`, a slice of the
/// packet's contiguous plain buffer that starts `size() - tag - body_len` bytes after the first byte.
fn plain_first_byte<H>(p: &qinterface::component::route::PlainPacket<H>, fallback: u8) -> u8 {
    let body = p.body();
    if body.is_empty() {
        // an empty `Bytes::slice` does not point into the buffer
        return fallback;
    }
    let start = p.size() - TAG_LEN - body.len();
    // SAFETY: `body` is `plain.slice(start..start + body_len)` of one contiguous `Bytes` of `size()` bytes.
    unsafe { *body.as_ptr().sub(start) }
}

fn obs(out: &Result<Out, String>, cur: u8) -> String {
    match out {
        Err(_) => "PANIC".to_string(),
        Ok(Out::Acc { pn, kp, body }) => format!("acc pn={} kp={} body={} cur={}", pn, kp, hex(body), cur),
        Ok(Out::Drop) => format!("drop cur={}", cur),
        Ok(Out::ConnErr) => format!("connerr cur={}", cur),
    }
}

// ---------------------------------------------------------------------------------------------
// generators
// ---------------------------------------------------------------------------------------------

/// Token length classes around the varint width boundaries of the token-length field (1 -> 2 -> 4 bytes).
const TOKEN_CLASSES: [usize; 7] = [0, 1, 63, 64, 65, 16383, 16384];

fn token_class(n: usize) -> &'static str {
    match n { 0 => "0", 1..=63 => "1-63", 64..=16383 => "64-16383", _ => "16384+" }
}

/// The first 14 cases of a run walk through the token classes (twice) with cid lengths 0..20; later cases are random.
fn gen_token_len(rng: &mut Rng, case: u64) -> usize {
    if case < 14 { return TOKEN_CLASSES[(case % 7) as usize]; }
    match rng.below(16) {
        0..=4 => 0,
        5 => 1,
        6 => 63,
        7 => 64,
        8 => 65,
        9 => 66 + rng.below(500) as usize,
        10 => if rng.chance(1, 4) { *rng.pick(&[16383usize, 16384]) } else { 64 + rng.below(200) as usize },
        11 | 12 => rng.below(9) as usize,
        _ => rng.below(64) as usize,
    }
}

/// (dcid, scid, token) of a parsed data header
fn header_fields(h: &DataHeader) -> (Vec<u8>, Vec<u8>, Vec<u8>) {
    use qbase::packet::header::{GetDcid, GetScid};
    match h {
        DataHeader::Long(long::DataHeader::Initial(h)) => (h.dcid().to_vec(), h.scid().to_vec(), h.token().clone()),
        DataHeader::Long(long::DataHeader::ZeroRtt(h)) => (h.dcid().to_vec(), h.scid().to_vec(), vec![]),
        DataHeader::Long(long::DataHeader::Handshake(h)) => (h.dcid().to_vec(), h.scid().to_vec(), vec![]),
        DataHeader::Short(h) => (h.dcid().to_vec(), vec![], vec![]),
    }
}

/// An explicitly chosen wire width of the packet number (`PacketNumber::encode` never picks one byte).
fn explicit_enc(pn: u64, w: u64) -> (PacketNumber, String) {
    match w {
        1 => (PacketNumber::U8(pn as u8), format!("u8:{}", pn as u8)),
        2 => (PacketNumber::U16(pn as u16), format!("u16:{}", pn as u16)),
        3 => (PacketNumber::U24(pn as u32 & 0xff_ffff), format!("u24:{}", pn as u32 & 0xff_ffff)),
        _ => (PacketNumber::U32(pn as u32), format!("u32:{}", pn as u32)),
    }
}

fn gen_cid_len(rng: &mut Rng) -> usize {
    match rng.below(8) {
        0 | 1 => 0,
        2 | 3 | 4 => 8,
        5 => 20,
        _ => rng.below(21) as usize,
    }
}

fn cid_class(n: usize) -> &'static str {
    match n {
        0 => "0",
        1..=7 => "1-7",
        8 => "8",
        9..=19 => "9-19",
        _ => "20",
    }
}

/// (pn, la): la < pn or both 0, pn - la < 2^31, pn < 2^40, biased small and to the encoding thresholds.
fn gen_pn(rng: &mut Rng) -> (u64, u64) {
    if rng.chance(1, 10) {
        return (0, 0);
    }
    let gap = match rng.below(8) {
        0 => 1,
        1 => 1 + rng.below(3),
        2 => (1u64 << *rng.pick(&[7u32, 15, 23])) - rng.below(2),
        3 => (1u64 << *rng.pick(&[7u32, 15, 23])) + 1 + rng.below(2),
        4 => 1 + rng.below(1 << 15),
        5 => 1 + rng.below(1 << 23),
        6 => (1u64 << 31) - 1 - rng.below(3),
        _ => 1 + rng.below(200),
    };
    let base = match rng.below(5) {
        0 => 0,
        1 => rng.below(300),
        2 => rng.below(1 << 20),
        3 => (1u64 << *rng.pick(&[8u32, 16, 24, 32])) - 1 + rng.below(3),
        _ => rng.below(1 << 40),
    };
    let pn = (base + gap).min((1u64 << 40) - 1).max(gap);
    (pn, pn - gap)
}

fn gen_body(rng: &mut Rng, pn_len: usize, max: usize) -> Vec<u8> {
    let min = 3usize.max(4usize.saturating_sub(pn_len));
    let n = match rng.below(6) {
        0 | 1 => min,
        2 => min + 1,
        3 => min + rng.below(4) as usize,
        4 => min + rng.below(24) as usize,
        _ => min + rng.below((max - min) as u64 + 1) as usize,
    };
    rng.bytes(n.min(max))
}

fn flip(buf: &[u8], bit: usize) -> Vec<u8> {
    let mut v = buf.to_vec();
    v[bit / 8] ^= 0x80 >> (bit % 8);
    v
}

struct Mutation {
    kind: &'static str,
    buf: Vec<u8>,
    exp: u64,
    dk: u64,
    dh: u64,
}

fn mutations(rng: &mut Rng, pkt: &[u8], off: usize, exp: u64, pn: u64) -> Vec<Mutation> {
    let mut ms = Vec::new();
    let m = |kind, buf: Vec<u8>| Mutation { kind, buf, exp, dk: 0, dh: 0 };
    if pkt.len() <= 400 {
        for bit in 0..pkt.len() * 8 {
            ms.push(m("flip", flip(pkt, bit)));
        }
    } else {
        // large packet (long token / maximum-size payload): every bit of the first 48 and the last 40 bytes,
        // every bit of the 40 bytes around the payload offset, and 256 random bits
        let n = pkt.len();
        let mut bits: Vec<usize> = (0..48 * 8).chain((n - 40) * 8..n * 8).collect();
        let lo = off.saturating_sub(8).min(n - 40);
        bits.extend(lo * 8..(lo + 40) * 8);
        for _ in 0..256 { bits.push(rng.below(n as u64 * 8) as usize); }
        for bit in bits { ms.push(m("flip", flip(pkt, bit))); }
    }
    ms.push(m("trunc1", pkt[..pkt.len() - 1].to_vec()));
    let mut app = pkt.to_vec();
    app.push(rng.next_u64() as u8);
    ms.push(m("append1", app));
    for _ in 0..2 {
        let mut v = pkt.to_vec();
        let i = rng.below(v.len() as u64) as usize;
        v[i] ^= 1 + rng.below(255) as u8;
        ms.push(m("randbyte", v));
    }
    for _ in 0..2 {
        let a = rng.below(pkt.len() as u64 * 8) as usize;
        let mut b = rng.below(pkt.len() as u64 * 8) as usize;
        if b == a {
            b = (a + 1) % (pkt.len() * 8);
        }
        ms.push(m("flip2", flip(&flip(pkt, a), b)));
    }
    let mut z = pkt.to_vec();
    let n = z.len();
    for b in &mut z[n - TAG_LEN..] {
        *b = 0;
    }
    if z != pkt {
        ms.push(m("zerotag", z));
    }
    // wrong expected packet number on the unmodified packet
    let e1 = pn.wrapping_add(1u64 << *rng.pick(&[8u32, 16, 24, 32])) & ((1 << 62) - 1);
    ms.push(Mutation { kind: "wrongexp", buf: pkt.to_vec(), exp: e1, dk: 0, dh: 0 });
    ms.push(Mutation { kind: "wrongexp", buf: pkt.to_vec(), exp: rng.below(1 << 40), dk: 0, dh: 0 });
    ms.push(Mutation { kind: "wrongkey", buf: pkt.to_vec(), exp, dk: 1, dh: 0 });
    ms.push(Mutation { kind: "wronghk", buf: pkt.to_vec(), exp, dk: 0, dh: 1 });
    ms
}

// ---------------------------------------------------------------------------------------------
// C06toy
// ---------------------------------------------------------------------------------------------

/// Which check comes first in the tree: reserved bits (connection error) or authentication (silent drop)?
fn probe_order() -> String {
    let r = catch(|| {
        let (k, h) = (0x1122334455667788u64, 0x99aabbccddeeff00u64);
        let header = LongHeaderBuilder::with_cid(ConnectionId::from_slice(&[1u8; 8]), ConnectionId::from_slice(&[2u8; 8])).handshake();
        let hdr_len = header.size();
        let mut buffer = vec![0u8; 256];
        let pn = 0u64;
        let enc = PacketNumber::encode(0, 0);
        let pn_len = enc.size();
        let w = PacketWriter::new_long(&header, &mut buffer, (pn, enc), toy_dir(k, h)).expect("buffer is large enough");
        drop(w);
        let body_len = 20usize;
        let payload_off = hdr_len + 2;
        let body_off = payload_off + pn_len;
        for i in 0..body_len {
            buffer[body_off + i] = i as u8;
        }
        let size = body_off + body_len + TAG_LEN;
        let plen = (pn_len + body_len + TAG_LEN) as u16;
        buffer[hdr_len] = 0x40 | (plen >> 8) as u8;
        buffer[hdr_len + 1] = plen as u8;
        buffer[0] |= (pn_len - 1) as u8;
        buffer[0] |= 0x08; // a reserved bit, set by the "peer" before protection
        encrypt_packet(&ToyPk(k), pn, &mut buffer[..size], body_off);
        buffer[size - 1] ^= 1; // and the tag does not verify
        protect_header(&ToyHp(h), &mut buffer[..size], payload_off, pn_len);
        let p = parse(&buffer[..size], 8).ok().flatten().expect("probe packet parses");
        rx_long(&p, &ToyHp(h), &ToyPk(k), 0)
    });
    match r {
        Ok(Ok(Out::ConnErr)) => "order=before".into(),
        Ok(Ok(Out::Drop)) => "order=after".into(),
        Ok(Ok(Out::Acc { .. })) => "order=accepted".into(),
        _ => "order=panic".into(),
    }
}

struct Tally {
    flips: u64,
    flip_drop: u64,
    flip_connerr: u64,
    flip_acc: u64,
    flip_nodata: u64,
    flip_panic: u64,
    other_connerr: u64,
}

fn run_toy(o: &Opts) {
    let mut sink = Sink::new_with_stats(&o.out, &o.stats);
    sink.set_hang_secs(30);
    let ctx = one_rtt_ctx();
    let next = ctx.next_remote;
    let next_s = next.iter().map(|v| v.to_string()).collect::<Vec<_>>().join(",");
    let mut tally = Tally { flips: 0, flip_drop: 0, flip_connerr: 0, flip_acc: 0, flip_nodata: 0, flip_panic: 0, other_connerr: 0 };
    let mut order_seen = String::new();
    let range: Vec<u64> = match o.only_case { Some(c) => vec![c], None => (0..o.cases).collect() };
    for case in range {
        let mut rng = Rng::new(o.seed, case);
        sink.case(&case.to_string());
        sink.pending("cfg");
        let order = probe_order();
        sink.line("cfg", &order);
        sink.branch(&format!("cfg:{}", order));
        order_seen = order;

        // ---- choose the packet
        let ty = *rng.pick(&[Ty::Initial, Ty::ZeroRtt, Ty::Handshake, Ty::OneRtt, Ty::OneRtt]);
        let ty = if case < 14 { Ty::Initial } else { ty };
        let dcid_len = if case < 21 { case as usize } else { gen_cid_len(&mut rng) };
        let scid_len = if case < 21 { 20 - case as usize } else { gen_cid_len(&mut rng) };
        let dcid = ConnectionId::from_slice(&rng.bytes(dcid_len));
        let scid = ConnectionId::from_slice(&rng.bytes(scid_len));
        let (pn, la) = gen_pn(&mut rng);
        let k = rng.next_u64();
        let hk = rng.next_u64();
        let spin = rng.chance(1, 2);
        let token_len = gen_token_len(&mut rng, case);
        let token = rng.bytes(token_len);
        // 1-RTT: key generation used by the sender and the key-phase bit it writes
        let (generation, kp) = if ty == Ty::OneRtt {
            match rng.below(10) {
                0..=4 => (0usize, 0u8),
                5..=7 => (1, 1),
                _ => (rng.below(4) as usize, rng.below(2) as u8),
            }
        } else {
            (0, 0)
        };
        let k_tx = if generation == 0 { k } else { next[generation - 1] };
        let enc = match catch(|| PacketNumber::encode(pn, la)) {
            Ok(e) => e,
            Err(_) => {
                sink.line(&format!("tx ty={} k={} hk={} hdr=- pn={} la={} kp={} body=- gen={}", ty.s(), k_tx, hk, pn, la, kp, generation), "PANIC");
                sink.monitor_fail("panic:encode", &format!("PacketNumber::encode({}, {}) panicked", pn, la));
                continue;
            }
        };
        // one case in four: an explicitly chosen pn width (1..4 bytes), expected pn = pn
        let explicit = rng.chance(1, 4);
        let (enc, enc_s) = if explicit { let (e, s) = explicit_enc(pn, 1 + rng.below(4)); (e, format!(" enc={}", s)) } else { (enc, String::new()) };
        let pn_len = enc.size();
        // bodies below the sampling minimum go through the real `PadTo20`; one case in ten fills the buffer
        let need_pad_max = 4usize.saturating_sub(pn_len); // body lengths 1..need_pad_max need padding
        let pad = need_pad_max >= 2 && rng.chance(1, 3) || (pn_len >= 3 && rng.chance(1, 8));
        let body = if pad && need_pad_max >= 2 { let n = 1 + rng.below(need_pad_max as u64 - 1) as usize; rng.bytes(n) } else { gen_body(&mut rng, pn_len, 120) };
        let fill = !pad && rng.chance(1, 10);
        let plan = BodyPlan { buf_len: if token_len > 800 { token_len + 400 } else { 1200 }, fill, pad };
        let exp = if explicit { pn } else if rng.chance(1, 8) { pn + 1 } else if pn == 0 { 0 } else { la + 1 + rng.below(pn - la) };
        if ty == Ty::Initial { sink.branch(&format!("token:{}", token_class(token_len))); }
        if pad { sink.branch("tx:padto20"); }
        if fill { sink.branch("tx:fill"); }
        if explicit { sink.branch("tx:explicit-pn-width"); }
        sink.branch(&format!("ty:{}", ty.s()));
        sink.branch(&format!("pn_len:{}", pn_len));
        sink.branch(&format!("dcid:{}", cid_class(dcid_len)));
        if ty == Ty::OneRtt {
            sink.branch(&format!("onertt:gen{}:kp{}", generation, kp));
        }

        // ---- send
        let keys = toy_dir(k_tx, hk);
        sink.pending("tx");
        let sent = catch(|| match ty {
            Ty::Initial => write_long(&LongHeaderBuilder::with_cid(dcid, scid).initial(token.clone()), pn, enc, keys, &body, plan),
            Ty::ZeroRtt => write_long(&LongHeaderBuilder::with_cid(dcid, scid).zero_rtt(), pn, enc, keys, &body, plan),
            Ty::Handshake => write_long(&LongHeaderBuilder::with_cid(dcid, scid).handshake(), pn, enc, keys, &body, plan),
            Ty::OneRtt => write_short(&OneRttHeader::new(SpinBit::from(spin), dcid), pn, enc, keys, KeyPhaseBit::from(kp == 1), &body, plan),
        });
        let tx_op2 = |hdr: &[u8], body: &[u8]| {
            format!("tx ty={} k={} hk={} hdr={} pn={} la={} kp={} body={} gen={} pad={}{}", ty.s(), k_tx, hk, hex(hdr), pn, la, kp, hex(body), generation, pad as u8, enc_s)
        };
        let tx_op = |hdr: &[u8]| tx_op2(hdr, &body);
        let sent = match sent {
            Ok(Ok(s)) => s,
            Ok(Err(e)) => {
                sink.line(&tx_op(&[]), &format!("ERR {}", e));
                sink.branch("tx:err");
                continue;
            }
            Err(m) => {
                sink.line(&tx_op(&[]), "PANIC");
                // a long-header packet whose payload + tag does not fit the 2-byte Length field (>= 2^14): the writer offers the
                // whole buffer and then asserts in `encode_varint(.., EncodeBytes::Two)` — a latent defect with its own signature
                let key = if m.contains("value.0_<_1u64_<<_14") { "panic:tx:long-length-field-overflow" } else { "panic:tx" };
                sink.monitor_fail(key, &format!("PacketWriter panicked: {}", m));
                continue;
            }
        };
        sink.line(&tx_op2(&sent.hdr, &sent.body), &format!("pkt={} off={}", hex(&sent.pkt), sent.off));
        sink.branch("tx:ok");
        // what the receiver must deliver: the body incl. the zero padding `PadTo20` appended
        let body: Vec<u8> = {
            let mut b = sent.body.clone();
            if sent.pad && !b.is_empty() && pn_len + b.len() + TAG_LEN < 20 { b.resize(20 - pn_len - TAG_LEN, 0); }
            b
        };
        let sent_fields = (dcid.to_vec(), if ty == Ty::OneRtt { vec![] } else { scid.to_vec() }, if ty == Ty::Initial { token.clone() } else { vec![] });

        // ---- receive the genuine packet and every mutation
        let honest = ty != Ty::OneRtt || (generation == 0 && kp == 0) || (generation == 1 && kp == 1);
        let mut stream = vec![Mutation { kind: "genuine", buf: sent.pkt.clone(), exp, dk: 0, dh: 0 }];
        stream.extend(mutations(&mut rng, &sent.pkt, sent.off, exp, pn));
        let mut genuine_ok = false;
        for mu in &stream {
            let is_flip = mu.kind == "flip";
            if is_flip {
                tally.flips += 1;
            }
            let parsed = match parse(&mu.buf, dcid_len) {
                Ok(Some(p)) => p,
                Ok(None) => {
                    sink.line(&format!("rxparse buf={}", hex(&mu.buf)), "nodata");
                    sink.branch(&format!("rx:{}:nodata", mu.kind));
                    if is_flip {
                        tally.flip_nodata += 1;
                    }
                    if mu.kind == "genuine" {
                        sink.monitor_fail(&format!("roundtrip:{}", ty.s()), "the genuine packet was not parsed as a data packet by be_packet");
                    }
                    continue;
                }
                Err(m) => {
                    sink.line(&format!("rxparse buf={}", hex(&mu.buf)), "PANIC");
                    sink.monitor_fail(if m.contains("unreachable") { "panic:be_packet:unreachable" } else { "panic:be_packet:other" }, &format!("be_packet panicked on a {} packet: {}", mu.kind, m));
                    continue;
                }
            };
            // keys of the packet-number space the parser put the packet in
            let (k_rx, hk_rx) = if parsed.ty == ty { (k.wrapping_add(mu.dk), hk.wrapping_add(mu.dh)) } else { (k.wrapping_add(7).wrapping_add(mu.dk), hk.wrapping_add(7).wrapping_add(mu.dh)) };
            // for long types the sender's key is `k` itself; for 1-RTT `k` is the receiver's generation-0 key
            let mut op = format!("rx ty={} k={} hk={} off={} exp={} buf={}", parsed.ty.s(), k_rx, hk_rx, parsed.off, mu.exp, hex(&parsed.bytes));
            if parsed.ty == Ty::OneRtt {
                op.push_str(&format!(" next={}", next_s));
            }
            sink.pending(&op);
            let (out, cur) = if parsed.ty == Ty::OneRtt {
                match rx_short(&parsed, k_rx, hk_rx, mu.exp) {
                    Ok((o, c)) => (Ok(o), c),
                    Err(m) => (Err(m), 0),
                }
            } else {
                (rx_long(&parsed, &ToyHp(hk_rx), &ToyPk(k_rx), mu.exp), 0)
            };
            sink.line(&op, &obs(&out, cur));
            let modified = parsed.bytes != sent.pkt;
            let kind = match &out { Err(_) => "panic", Ok(Out::Acc { .. }) => "acc", Ok(Out::Drop) => "drop", Ok(Out::ConnErr) => "connerr" };
            sink.branch(&format!("rx:{}:{}", mu.kind, kind));
            if parsed.ty != ty {
                sink.branch(&format!("rx:retyped:{}->{}", ty.s(), parsed.ty.s()));
            }
            if cur == 1 {
                sink.branch("rx:keyupdate");
            }
            if is_flip {
                match kind { "acc" => tally.flip_acc += 1, "drop" => tally.flip_drop += 1, "connerr" => tally.flip_connerr += 1, _ => tally.flip_panic += 1 }
            }
            match &out {
                Err(m) => sink.monitor_fail("panic:rx", &format!("decrypt_{}_packet panicked on a {} packet: {}", if parsed.ty == Ty::OneRtt { "short" } else { "long" }, mu.kind, m)),
                Ok(Out::Acc { pn: pn2, body: body2, kp: kp2 }) => {
                    if mu.kind == "genuine" {
                        if header_fields(&parsed.header) != sent_fields || parsed.off != sent.off {
                            sink.monitor_fail(&format!("roundtrip:{}:header", ty.s()), &format!("genuine packet: header fields / payload offset not recovered (token {} bytes, dcid {}, scid {}; off {} vs {})", token_len, dcid_len, scid_len, parsed.off, sent.off));
                        } else if *pn2 == pn && *body2 == body && *kp2 == kp {
                            genuine_ok = true;
                        } else {
                            sink.monitor_fail(&format!("roundtrip:{}", ty.s()), &format!("genuine packet accepted as pn={} kp={} body={} but pn={} kp={} body={} was sent", pn2, kp2, hex(body2), pn, kp, hex(&body)));
                        }
                    } else if modified {
                        sink.monitor_fail(&format!("accepted-modified:{}", ty.s()), &format!("a packet that differs from the one sent ({}) was accepted: pn={} body={}", mu.kind, pn2, hex(body2)));
                    } else if mu.dk != 0 && !(ty == Ty::OneRtt && generation >= 1 && *kp2 == 1) {
                        // (a 1-RTT packet of generation >= 1 with key phase 1 is decrypted with a key derived
                        // from the receiver's Secrets, the generation-0 key does not matter for it)
                        sink.monitor_fail(&format!("accepted-wrong-key:{}", ty.s()), "the unmodified packet was accepted under a different packet key");
                    } else if *pn2 != pn || *body2 != body {
                        sink.monitor_fail(&format!("accepted-wrong-pn:{}", ty.s()), &format!("the unmodified packet was accepted as pn={} body={} (sent pn={})", pn2, hex(body2), pn));
                    }
                }
                Ok(Out::Drop) => {
                    if mu.kind == "genuine" && honest {
                        sink.monitor_fail(&format!("roundtrip:{}", ty.s()), &format!("the genuine packet (pn={} la={} exp={}) was dropped", pn, la, mu.exp));
                    }
                }
                Ok(Out::ConnErr) => {
                    if mu.kind == "genuine" {
                        sink.monitor_fail(&format!("roundtrip:{}", ty.s()), &format!("the genuine packet (pn={} la={} exp={}) produced a connection error", pn, la, mu.exp));
                    } else {
                        if !is_flip {
                            tally.other_connerr += 1;
                        }
                        sink.monitor_fail("connerr-on-modified:reserved-bits", &format!("a {} packet ({}) that does not authenticate produced a connection error instead of being dropped", parsed.ty.s(), mu.kind));
                    }
                }
            }
        }
        if genuine_ok {
            sink.nontrivial();
        }
    }
    sink.note("order", serde_json::json!(order_seen));
    sink.note("connerr_flips", serde_json::json!({
        "flips": tally.flips, "drop": tally.flip_drop, "connerr": tally.flip_connerr, "acc": tally.flip_acc,
        "nodata": tally.flip_nodata, "panic": tally.flip_panic, "connerr_other_mutations": tally.other_connerr,
    }));
    sink.note("onertt_plan", serde_json::json!("A: real ArcOneRttKeys with Secrets from an in-memory rustls handshake over the toy algorithm"));
    sink.finish(&o.stats, "genuine packet accepted; all single-bit flips received");
}

// ---------------------------------------------------------------------------------------------
// C06ring
// ---------------------------------------------------------------------------------------------

fn ring_initial_keys(dcid: &ConnectionId, side: rustls::Side) -> rustls::quic::Keys {
    rustls::crypto::ring::cipher_suite::TLS13_AES_128_GCM_SHA256
        .tls13()
        .and_then(|s| s.quic_suite())
        .expect("ring provides TLS13_AES_128_GCM_SHA256 with QUIC support")
        .keys(dcid, side, rustls::quic::Version::V1)
}

fn run_ring(o: &Opts) {
    let mut sink = Sink::new_with_stats(&o.out, &o.stats);
    sink.set_hang_secs(30);
    let mut tally = Tally { flips: 0, flip_drop: 0, flip_connerr: 0, flip_acc: 0, flip_nodata: 0, flip_panic: 0, other_connerr: 0 };
    let range: Vec<u64> = match o.only_case { Some(c) => vec![c], None => (0..o.cases).collect() };
    for case in range {
        let mut rng = Rng::new(o.seed, case);
        sink.case(&case.to_string());
        // (clients pick initial dcids of >= 8 bytes, but the derivation and the layout work for any length)
        let dcid_len = if case < 21 { case as usize } else { match rng.below(4) { 0 => 8, 1 => 20, _ => rng.below(21) as usize } };
        let scid_len = if case < 21 { 20 - case as usize } else { gen_cid_len(&mut rng) };
        let dcid = ConnectionId::from_slice(&rng.bytes(dcid_len));
        let scid = ConnectionId::from_slice(&rng.bytes(scid_len));
        let (pn, la) = gen_pn(&mut rng);
        let token_len = gen_token_len(&mut rng, case);
        let token = rng.bytes(token_len);
        sink.branch(&format!("token:{}", token_class(token_len)));
        let Ok(enc) = catch(|| PacketNumber::encode(pn, la)) else {
            sink.monitor_fail("ring:panic:encode", &format!("PacketNumber::encode({}, {}) panicked", pn, la));
            continue;
        };
        let explicit = rng.chance(1, 4);
        let enc = if explicit { explicit_enc(pn, 1 + rng.below(4)).0 } else { enc };
        let body = gen_body(&mut rng, enc.size(), 60);
        let exp = if explicit || pn == 0 { pn } else { la + 1 + rng.below(pn - la) };
        let plan = BodyPlan { buf_len: if token_len > 800 { token_len + 400 } else { 1200 }, fill: rng.chance(1, 12), pad: false };
        sink.branch(&format!("pn_len:{}", enc.size()));
        sink.branch(&format!("dcid:{}", cid_class(dcid_len)));
        let op = format!("ring pn={}", pn);
        sink.pending(&op);
        let tx_keys: DirectionalKeys = ring_initial_keys(&dcid, rustls::Side::Client).local.into();
        let rx_keys = ring_initial_keys(&dcid, rustls::Side::Server).remote;
        let sent = match catch(|| write_long(&LongHeaderBuilder::with_cid(dcid, scid).initial(token.clone()), pn, enc, tx_keys, &body, plan)) {
            Ok(Ok(s)) => s,
            Ok(Err(e)) => {
                sink.line(&op, &format!("ERR {}", e));
                continue;
            }
            Err(m) => {
                sink.line(&op, "PANIC");
                let key = if m.contains("value.0_<_1u64_<<_14") { "ring:panic:tx:long-length-field-overflow" } else { "ring:panic:tx" };
                sink.monitor_fail(key, &format!("PacketWriter panicked: {}", m));
                continue;
            }
        };
        let op = format!("ring pn={} len={}", pn, sent.pkt.len());
        let mut stream = vec![Mutation { kind: "genuine", buf: sent.pkt.clone(), exp, dk: 0, dh: 0 }];
        let body = sent.body.clone();
        let sent_fields = (dcid.to_vec(), scid.to_vec(), token.clone());
        stream.extend(mutations(&mut rng, &sent.pkt, sent.off, exp, pn).into_iter().filter(|m| m.dk == 0 && m.dh == 0));
        let (mut n_flips, mut n_drop, mut n_connerr, mut n_acc) = (0u64, 0u64, 0u64, 0u64);
        let mut genuine_ok = false;
        for mu in &stream {
            let is_flip = mu.kind == "flip";
            if is_flip {
                n_flips += 1;
                tally.flips += 1;
            }
            sink.pending(&format!("{} {} buf={}", op, mu.kind, hex(&mu.buf)));
            let parsed = match parse(&mu.buf, dcid_len) {
                Ok(Some(p)) if p.ty != Ty::OneRtt => p,
                Ok(_) => {
                    // not a long data packet any more (or a short header, for which there are no keys here)
                    sink.branch(&format!("rx:{}:nodata", mu.kind));
                    if is_flip {
                        tally.flip_nodata += 1;
                    }
                    if mu.kind == "genuine" {
                        sink.monitor_fail("ring:roundtrip:initial", "the genuine packet was not parsed as a data packet by be_packet");
                    }
                    continue;
                }
                Err(m) => {
                    sink.monitor_fail(if m.contains("unreachable") { "ring:panic:be_packet:unreachable" } else { "ring:panic:be_packet:other" }, &format!("be_packet panicked on {}: {}", hex(&mu.buf), m));
                    continue;
                }
            };
            // a retyped packet (Initial -> 0-RTT/Handshake) would meet other keys; the Initial keys of the
            // other direction are "other keys" of the right shape
            let other;
            let (hpk, pk): (&dyn HeaderProtectionKey, &dyn PacketKey) = if parsed.ty == Ty::Initial {
                (rx_keys.header.as_ref(), rx_keys.packet.as_ref())
            } else {
                other = ring_initial_keys(&dcid, rustls::Side::Server).local;
                (other.header.as_ref(), other.packet.as_ref())
            };
            let out = rx_long(&parsed, hpk, pk, mu.exp);
            let modified = parsed.bytes != sent.pkt;
            let kind = match &out { Err(_) => "panic", Ok(Out::Acc { .. }) => "acc", Ok(Out::Drop) => "drop", Ok(Out::ConnErr) => "connerr" };
            sink.branch(&format!("rx:{}:{}", mu.kind, kind));
            if is_flip {
                match kind {
                    "acc" => { n_acc += 1; tally.flip_acc += 1 }
                    "drop" => { n_drop += 1; tally.flip_drop += 1 }
                    "connerr" => { n_connerr += 1; tally.flip_connerr += 1 }
                    _ => tally.flip_panic += 1,
                }
            }
            match &out {
                Err(m) => sink.monitor_fail("ring:panic:rx", &format!("decrypt_long_packet panicked on a {} packet {}: {}", mu.kind, hex(&mu.buf), m)),
                Ok(Out::Acc { pn: pn2, body: body2, .. }) => {
                    if mu.kind == "genuine" {
                        if header_fields(&parsed.header) != sent_fields || parsed.off != sent.off {
                            sink.monitor_fail("ring:roundtrip:initial:header", &format!("genuine packet: header fields / payload offset not recovered (token {} bytes, dcid {}, scid {})", token_len, dcid_len, scid_len));
                        } else if *pn2 == pn && *body2 == body {
                            genuine_ok = true;
                        } else {
                            sink.monitor_fail("ring:roundtrip:initial", &format!("genuine packet accepted as pn={} body={} but pn={} body={} was sent", pn2, hex(body2), pn, hex(&body)));
                        }
                    } else if modified {
                        sink.monitor_fail("ring:accepted-modified:initial", &format!("a packet that differs from the one sent ({}: {}) was accepted: pn={} body={}", mu.kind, hex(&mu.buf), pn2, hex(body2)));
                    } else if *pn2 != pn || *body2 != body {
                        sink.monitor_fail("ring:accepted-wrong-pn:initial", &format!("the unmodified packet was accepted as pn={} (sent pn={}, exp={})", pn2, pn, mu.exp));
                    }
                }
                Ok(Out::Drop) => {
                    if mu.kind == "genuine" {
                        sink.monitor_fail("ring:roundtrip:initial", &format!("the genuine packet (pn={} la={} exp={}) was dropped", pn, la, mu.exp));
                    }
                }
                Ok(Out::ConnErr) => {
                    if mu.kind == "genuine" {
                        sink.monitor_fail("ring:roundtrip:initial", &format!("the genuine packet (pn={} la={} exp={}) produced a connection error", pn, la, mu.exp));
                    } else {
                        if !is_flip {
                            tally.other_connerr += 1;
                        }
                        sink.monitor_fail("ring:connerr-on-modified:reserved-bits", &format!("an initial packet ({}: {}) that does not authenticate produced a connection error instead of being dropped", mu.kind, hex(&mu.buf)));
                    }
                }
            }
        }
        sink.line(&op, &format!("flips={} drop={} connerr={} acc={}", n_flips, n_drop, n_connerr, n_acc));
        if genuine_ok {
            sink.nontrivial();
        }
    }
    sink.note("connerr_flips", serde_json::json!({
        "flips": tally.flips, "drop": tally.flip_drop, "connerr": tally.flip_connerr, "acc": tally.flip_acc,
        "nodata": tally.flip_nodata, "panic": tally.flip_panic, "connerr_other_mutations": tally.other_connerr,
    }));
    sink.finish(&o.stats, "genuine packet accepted; all single-bit flips received");
}

// ---------------------------------------------------------------------------------------------
// C06keys: the receiver's key-phase state machine (the REAL `OneRttPacketKeys`) across several key updates with
// reordered, duplicated, late and forged packets
// ---------------------------------------------------------------------------------------------

struct Flight {
    pn: u64,
    generation: usize,
    kp: u8,
    honest: bool,
    pkt: Vec<u8>,
    body: Vec<u8>,
}

fn run_keys(o: &Opts) {
    let mut sink = Sink::new_with_stats(&o.out, &o.stats);
    sink.set_hang_secs(30);
    let ctx = one_rtt_ctx();
    let next = ctx.next_remote;
    let next_s = next.iter().map(|v| v.to_string()).collect::<Vec<_>>().join(",");
    let range: Vec<u64> = match o.only_case { Some(c) => vec![c], None => (0..o.cases).collect() };
    for case in range {
        let mut rng = Rng::new(o.seed, case);
        sink.case(&case.to_string());
        sink.pending("cfg");
        let order = probe_order();
        sink.line("cfg", &order);
        let k0 = rng.next_u64();
        let hk = rng.next_u64();
        let dcid_len = gen_cid_len(&mut rng);
        let dcid = ConnectionId::from_slice(&rng.bytes(dcid_len));
        let arc = fresh_one_rtt(k0, hk);
        let (hpk, pks) = arc.remote_keys().expect("keys were just set");
        sink.line(&format!("kinit k={} hk={} next={}", k0, hk, next_s), "ok");
        let key_of = |g: usize| if g == 0 { k0 } else { next[g - 1] };
        // the monitor's own bookkeeping of the receiver (never the model): number of updates so far and whether
        // the previous generation's key is still retained
        let (mut r_gen, mut r_prev) = (0usize, false);
        let mut s_gen = 0usize; // sender's generation
        let mut pn = rng.below(1000);
        let mut largest: Option<u64> = None;
        let mut pool: Vec<Flight> = Vec::new();
        let steps = 12 + rng.below(30);
        let mut accepted_any = false;
        for _ in 0..steps {
            match rng.below(20) {
                // ---- the sender protects a packet under its current generation (sometimes a forged phase / key)
                0..=6 => {
                    pn += 1 + rng.below(3);
                    let forged = rng.chance(1, 8);
                    // one packet in 16 is sealed two generations ahead (same phase bit as now): genuine, but outside
                    // the window until the receiver has followed two updates
                    let ahead = !forged && s_gen + 2 <= 7 && rng.chance(1, 16);
                    let (generation, kp, key) = if forged {
                        match rng.below(2) {
                            0 => (s_gen, 1 - (s_gen % 2) as u8, key_of(s_gen)),       // right key, wrong phase bit
                            _ => (s_gen, (s_gen % 2) as u8, rng.next_u64()),           // unknown key, right phase bit
                        }
                    } else if ahead {
                        (s_gen + 2, (s_gen % 2) as u8, key_of(s_gen + 2))
                    } else {
                        (s_gen, (s_gen % 2) as u8, key_of(s_gen))
                    };
                    let body = gen_body(&mut rng, 2, 24);
                    let enc = PacketNumber::encode(pn, pn.saturating_sub(1 + rng.below(50)).min(pn));
                    let plan = BodyPlan { buf_len: 1200, fill: false, pad: false };
                    let hdr = OneRttHeader::new(SpinBit::from(rng.chance(1, 2)), dcid);
                    match catch(|| write_short(&hdr, pn, enc, toy_dir(key, hk), KeyPhaseBit::from(kp == 1), &body, plan)) {
                        Ok(Ok(sent)) => pool.push(Flight { pn, generation, kp, honest: !forged, pkt: sent.pkt, body }),
                        _ => sink.monitor_fail("keys:panic:tx", "PacketWriter failed on a 1-RTT packet"),
                    }
                    sink.branch(if forged { "k:send-forged" } else { "k:send" });
                }
                // ---- the sender initiates a key update
                7 | 8 => {
                    if s_gen < 7 { s_gen += 1; sink.branch("k:sender-update"); }
                }
                // ---- the receiver discards the previous generation's key
                9 | 10 => {
                    sink.pending("kphaseout");
                    pks.lock_guard().phase_out();
                    r_prev = false;
                    let cur = bool::from(pks.lock_guard().get_local().0) as u8;
                    sink.line("kphaseout", &format!("cur={}", cur));
                    sink.branch("k:phaseout");
                }
                // ---- the receiver updates proactively (rare)
                11 => {
                    if r_gen < 7 && r_gen <= s_gen {
                        sink.pending("kupdate");
                        pks.lock_guard().update();
                        r_gen += 1;
                        r_prev = true;
                        let cur = bool::from(pks.lock_guard().get_local().0) as u8;
                        sink.line("kupdate", &format!("cur={}", cur));
                        sink.branch("k:local-update");
                        // the peer follows at once (it sees the new phase): its next packets use the new generation
                        if s_gen < r_gen { s_gen = r_gen; }
                    }
                }
                // ---- the network delivers some packet in flight: any order, maybe again later
                _ => {
                    if pool.is_empty() { continue; }
                    let i = if rng.chance(1, 3) { 0 } else { rng.below(pool.len() as u64) as usize };
                    let keep = rng.chance(1, 5);
                    let f = if keep { let f = &pool[i]; Flight { pn: f.pn, generation: f.generation, kp: f.kp, honest: f.honest, pkt: f.pkt.clone(), body: f.body.clone() } } else { pool.remove(i) };
                    let Ok(Some(parsed)) = parse(&f.pkt, dcid_len) else {
                        sink.monitor_fail("keys:parse", "a 1-RTT packet produced by PacketWriter was not parsed as a data packet");
                        continue;
                    };
                    let exp = largest.map_or(f.pn.saturating_sub(rng.below(3)), |l| l + 1);
                    // keep the expected pn within decode range of this packet
                    let exp = if exp > f.pn + 20000 || f.pn > exp + 20000 { f.pn } else { exp };
                    let op = format!("krx off={} exp={} buf={} sgen={} honest={}", parsed.off, exp, hex(&parsed.bytes), f.generation, f.honest as u8);
                    sink.pending(&op);
                    let DataHeader::Short(h) = parsed.header.clone() else { continue };
                    let bytes = BytesMut::from(&parsed.bytes[..]);
                    let off = parsed.off;
                    let r = catch(|| {
                        let r = CipherPacket::new(h, bytes, off).decrypt_short_packet(hpk.as_ref(), &pks, |e| Ok(e.decode(exp)));
                        let cur = bool::from(pks.lock_guard().get_local().0) as u8;
                        let out = match r {
                            None => Out::Drop,
                            Some(Err(_)) => Out::ConnErr,
                            Some(Ok(pl)) => {
                                let unmasked = parsed.bytes[0] ^ (toy_mask(hk, &parsed.bytes[off + 4..off + 4 + SAMPLE_LEN])[0] & 0x1f);
                                let first = plain_first_byte(&pl, unmasked);
                                Out::Acc { pn: pl.pn(), kp: (first & 0x04 != 0) as u8, body: pl.body().to_vec() }
                            }
                        };
                        (out, cur)
                    });
                    let (out, cur) = match r { Ok((o, c)) => (Ok(o), c), Err(m) => (Err(m), 0) };
                    sink.line(&op, &obs(&out, cur));
                    // ---- monitor: the property clause, from the monitor's own bookkeeping
                    let cur_phase = (r_gen % 2) as u8;
                    let expect_accept = f.honest && (f.generation == r_gen || (f.generation + 1 == r_gen && r_prev) || (f.generation == r_gen + 1 && !r_prev));
                    // bookkeeping of the receiver's own rule: a phase bit != current with an empty slot is a key update
                    if f.kp != cur_phase && !r_prev {
                        r_gen += 1;
                        r_prev = true;
                    }
                    let what = format!("gen {} kp {} pn {} (receiver at generation {}, previous key {})", f.generation, f.kp, f.pn, r_gen, if r_prev { "retained" } else { "discarded" });
                    match &out {
                        Err(m) => sink.monitor_fail("keys:panic:rx", &format!("decrypt_short_packet panicked: {}", m)),
                        Ok(Out::Acc { pn: pn2, kp: kp2, body: b2 }) => {
                            accepted_any = true;
                            largest = Some(largest.map_or(*pn2, |l| l.max(*pn2)));
                            if !f.honest {
                                sink.monitor_fail("keys:accepted-forged", &format!("a packet with a wrong phase bit / unknown key was accepted: {}", what));
                            } else if !expect_accept {
                                sink.monitor_fail("keys:accepted-outside-window", &format!("accepted a packet of a generation whose key the receiver should not hold: {}", what));
                            } else if *pn2 != f.pn || *kp2 != f.kp || *b2 != f.body {
                                sink.monitor_fail("keys:roundtrip", &format!("recovered pn={} kp={} body={} differs from what was sent: {}", pn2, kp2, hex(b2), what));
                            }
                            sink.branch(&format!("k:rx:acc:{}", if f.generation == r_gen { "current" } else { "previous" }));
                        }
                        Ok(Out::Drop) => {
                            if expect_accept {
                                sink.monitor_fail("keys:dropped-in-window", &format!("a genuine packet under a phase whose key the receiver has/retains was discarded: {}", what));
                            }
                            sink.branch(if f.honest { "k:rx:drop:outside-window" } else { "k:rx:drop:forged" });
                        }
                        Ok(Out::ConnErr) => sink.monitor_fail("keys:connerr", &format!("a 1-RTT packet produced a connection error: {}", what)),
                    }
                    if cur != (r_gen % 2) as u8 {
                        sink.monitor_fail("keys:phase-drift", &format!("the receiver's current phase is {} after {} key updates: {}", cur, r_gen, what));
                        // resynchronise the bookkeeping so that one defect is reported once per case
                        r_gen += 1;
                    }
                }
            }
        }
        if accepted_any { sink.nontrivial(); }
    }
    sink.finish(&o.stats, "at least one packet accepted on the persistent key state");
}

pub const RUNS: &[(&str, fn(&Opts))] = &[("C06toy", run_toy), ("C06keys", run_keys), ("C06ring", run_ring)];
