#![allow(dead_code)]
//! Shared plumbing for all correspondence harnesses: PRNG, transcript writer, statistics.
//!
//! Every random choice of a case comes from one `Rng` seeded from (global seed, case index), so a
//! disagreement replays exactly with `--only-case <idx>`.

use std::{
    collections::{BTreeMap, HashSet},
    fs::File,
    hash::{Hash, Hasher},
    io::{BufWriter, Write},
};

#[derive(Clone)]
pub struct Rng(u64);

impl Rng {
    pub fn new(seed: u64, case: u64) -> Self {
        // splitmix64 of the pair
        let mut z = seed
            .wrapping_mul(0x9E37_79B9_7F4A_7C15)
            .wrapping_add(case.wrapping_mul(0xBF58_476D_1CE4_E5B9))
            .wrapping_add(0x94D0_49BB_1331_11EB);
        z = (z ^ (z >> 30)).wrapping_mul(0xBF58_476D_1CE4_E5B9);
        z = (z ^ (z >> 27)).wrapping_mul(0x94D0_49BB_1331_11EB);
        z ^= z >> 31;
        Rng(z | 1)
    }
    pub fn next_u64(&mut self) -> u64 {
        let mut x = self.0;
        x ^= x >> 12;
        x ^= x << 25;
        x ^= x >> 27;
        self.0 = x;
        x.wrapping_mul(0x2545_F491_4F6C_DD1D)
    }
    /// uniform in [0, n)
    pub fn below(&mut self, n: u64) -> u64 {
        if n == 0 { 0 } else { self.next_u64() % n }
    }
    /// uniform in [lo, hi]
    pub fn range(&mut self, lo: u64, hi: u64) -> u64 {
        lo + self.below(hi - lo + 1)
    }
    pub fn chance(&mut self, num: u64, den: u64) -> bool {
        self.below(den) < num
    }
    pub fn pick<'a, T>(&mut self, xs: &'a [T]) -> &'a T {
        &xs[self.below(xs.len() as u64) as usize]
    }
    pub fn bytes(&mut self, n: usize) -> Vec<u8> {
        (0..n).map(|_| self.next_u64() as u8).collect()
    }
    /// A 62-bit value biased towards the varint boundaries named in the properties.
    pub fn varint62(&mut self) -> u64 {
        const B: [u64; 14] = [
            0,
            1,
            63,
            64,
            16383,
            16384,
            (1 << 30) - 1,
            1 << 30,
            (1 << 62) - 1,
            (1 << 31) - 1,
            1 << 31,
            (1 << 32) - 1,
            1 << 32,
            (1 << 61),
        ];
        match self.below(4) {
            0 => *self.pick(&B),
            1 => self.below(300),
            2 => self.below(1 << 20),
            _ => self.next_u64() & ((1 << 62) - 1),
        }
    }
}

pub fn hex(bs: &[u8]) -> String {
    if bs.is_empty() {
        return "-".into();
    }
    let mut s = String::with_capacity(bs.len() * 2);
    for b in bs {
        s.push_str(&format!("{:02x}", b));
    }
    s
}

pub fn unhex(s: &str) -> Option<Vec<u8>> {
    if s == "-" {
        return Some(vec![]);
    }
    if s.len() % 2 != 0 {
        return None;
    }
    (0..s.len() / 2)
        .map(|i| u8::from_str_radix(&s[2 * i..2 * i + 2], 16).ok())
        .collect()
}

pub struct Opts {
    pub prop: String,
    pub seed: u64,
    pub cases: u64,
    pub tier: String,
    pub out: String,
    pub stats: String,
    pub only_case: Option<u64>,
    pub extra: Vec<String>,
}

impl Opts {
    pub fn thorough(&self) -> bool {
        self.tier == "thorough"
    }
}

/// State shared with the watchdog thread (hang detection: a mutation that makes the real code
/// spin must become a reported failing input, not a stuck check).
pub struct Watch {
    pub case_id: String,
    pub lines: Vec<String>,
    pub pending: String,
    pub ticks: u64,
    pub cases: u64,
    pub hang_secs: u64,
    pub stats_path: String,
    pub done: bool,
}

pub static WATCH: std::sync::OnceLock<std::sync::Arc<std::sync::Mutex<Watch>>> = std::sync::OnceLock::new();

fn watch() -> std::sync::Arc<std::sync::Mutex<Watch>> {
    WATCH
        .get_or_init(|| {
            let w = std::sync::Arc::new(std::sync::Mutex::new(Watch {
                case_id: String::new(),
                lines: vec![],
                pending: String::new(),
                ticks: 0,
                cases: 0,
                hang_secs: 10,
                stats_path: String::new(),
                done: false,
            }));
            let w2 = w.clone();
            std::thread::spawn(move || {
                let mut last = u64::MAX;
                let mut stalled = 0u64;
                loop {
                    std::thread::sleep(std::time::Duration::from_secs(1));
                    let g = w2.lock().unwrap_or_else(|e| e.into_inner());
                    if g.done {
                        return;
                    }
                    if g.ticks == last {
                        stalled += 1;
                    } else {
                        stalled = 0;
                        last = g.ticks;
                    }
                    if stalled >= g.hang_secs && !g.stats_path.is_empty() {
                        let j = serde_json::json!({
                            "cases": g.cases, "lines": g.ticks, "distinct_nontrivial": 0,
                            "rule": "aborted by the watchdog", "ops": {}, "branches": {}, "samples": [], "notes": {},
                            "monitor_failures": [{
                                "key": "hang", "case": g.case_id,
                                "what": format!("the real code did not return within {} s (pending op: {})", g.hang_secs, g.pending),
                                "trace": g.lines.iter().rev().take(60).rev().cloned().chain(std::iter::once(format!("{} => <never returned>", g.pending))).collect::<Vec<_>>(),
                            }],
                        });
                        let _ = std::fs::write(&g.stats_path, serde_json::to_string_pretty(&j).unwrap());
                        std::process::exit(3);
                    }
                }
            });
            w
        })
        .clone()
}

/// Transcript + statistics sink.
pub struct Sink {
    w: BufWriter<File>,
    pub cases: u64,
    pub lines: u64,
    pub nontrivial: u64,
    distinct: HashSet<u64>,
    pub ops: BTreeMap<String, u64>,
    pub branches: BTreeMap<String, u64>,
    pub samples: Vec<Vec<String>>,
    pub monitor_failures: Vec<serde_json::Value>,
    pub notes: BTreeMap<String, serde_json::Value>,
    cur: Vec<String>,
    cur_id: String,
    cur_nontrivial: bool,
    max_samples: usize,
}

impl Sink {
    /// Tell the watchdog which operation is about to run on the real code.
    pub fn pending(&mut self, op: &str) {
        // `GMQ_TRACE_PENDING=<file>`: the operation about to run is written out first, so that after an ABORT of the
        // real code (allocation failure, stack overflow — not catchable by `catch_unwind`) `check` can name the input
        static TRACE: std::sync::OnceLock<Option<String>> = std::sync::OnceLock::new();
        if let Some(p) = TRACE.get_or_init(|| std::env::var("GMQ_TRACE_PENDING").ok()) {
            let _ = std::fs::write(p, op);
        }
        let w = watch();
        let mut g = w.lock().unwrap_or_else(|e| e.into_inner());
        g.pending = op.to_string();
        g.ticks += 1;
    }
    pub fn set_hang_secs(&mut self, secs: u64) {
        watch().lock().unwrap().hang_secs = secs;
    }
    pub fn new_with_stats(path: &str, stats: &str) -> Self {
        watch().lock().unwrap().stats_path = stats.to_string();
        Self::new(path)
    }
    pub fn new(path: &str) -> Self {
        let f = File::create(path).expect("create transcript");
        Sink {
            w: BufWriter::with_capacity(1 << 20, f),
            cases: 0,
            lines: 0,
            nontrivial: 0,
            distinct: HashSet::new(),
            ops: BTreeMap::new(),
            branches: BTreeMap::new(),
            samples: vec![],
            monitor_failures: vec![],
            notes: BTreeMap::new(),
            cur: vec![],
            cur_id: String::new(),
            cur_nontrivial: false,
            max_samples: 3,
        }
    }
    fn finish_case(&mut self) {
        if self.cur_id.is_empty() {
            return;
        }
        if self.cur_nontrivial {
            let mut h = std::collections::hash_map::DefaultHasher::new();
            self.cur.hash(&mut h);
            if self.distinct.insert(h.finish()) {
                self.nontrivial += 1;
            }
            if self.samples.len() < self.max_samples {
                let mut s: Vec<String> = self.cur.iter().take(14).map(|l| if l.len() > 220 { format!("{}…", &l[..220]) } else { l.clone() }).collect();
                if self.cur.len() > 14 { s.push(format!("… ({} more lines)", self.cur.len() - 14)); }
                self.samples.push(s);
            }
        }
        self.cur.clear();
        self.cur_id.clear();
        self.cur_nontrivial = false;
    }
    pub fn case(&mut self, id: &str) {
        self.finish_case();
        self.cases += 1;
        self.cur_id = id.to_string();
        {
            let w = watch();
            let mut g = w.lock().unwrap_or_else(|e| e.into_inner());
            g.case_id = id.to_string();
            g.lines.clear();
            g.pending.clear();
            g.cases = self.cases;
            g.ticks += 1;
        }
        writeln!(self.w, "case {}", id).unwrap();
    }
    /// Mark the current case as non-trivial by the property's stated rule.
    pub fn nontrivial(&mut self) {
        self.cur_nontrivial = true;
    }
    pub fn line(&mut self, op: &str, obs: &str) {
        self.lines += 1;
        let name = op.split(' ').next().unwrap_or("").to_string();
        *self.ops.entry(name).or_insert(0) += 1;
        let l = format!("{} => {}", op, obs);
        writeln!(self.w, "{}", l).unwrap();
        {
            let w = watch();
            let mut g = w.lock().unwrap_or_else(|e| e.into_inner());
            g.ticks += 1;
            g.pending.clear();
            if g.lines.len() < 4096 {
                g.lines.push(l.clone());
            }
        }
        self.cur.push(l);
    }
    pub fn branch(&mut self, name: &str) {
        *self.branches.entry(name.to_string()).or_insert(0) += 1;
    }
    /// An independent property monitor fired on the REAL code's trace.
    pub fn monitor_fail(&mut self, key: &str, what: &str) {
        writeln!(self.w, "# MONITOR {} case={} {}", key, self.cur_id, what).unwrap();
        if self.monitor_failures.len() < 50 {
            self.monitor_failures.push(serde_json::json!({
                "key": key, "case": self.cur_id, "what": what, "trace": self.cur.clone(),
            }));
        } else {
            self.monitor_failures.push(serde_json::json!({"key": key, "case": self.cur_id, "what": what}));
        }
    }
    pub fn note(&mut self, k: &str, v: serde_json::Value) {
        self.notes.insert(k.to_string(), v);
    }
    pub fn finish(mut self, stats_path: &str, rule: &str) {
        self.finish_case();
        self.w.flush().unwrap();
        watch().lock().unwrap().done = true;
        let j = serde_json::json!({
            "cases": self.cases,
            "lines": self.lines,
            "distinct_nontrivial": self.nontrivial,
            "rule": rule,
            "ops": self.ops,
            "branches": self.branches,
            "samples": self.samples,
            "monitor_failures": self.monitor_failures,
            "notes": self.notes,
        });
        std::fs::write(stats_path, serde_json::to_string_pretty(&j).unwrap()).unwrap();
    }
}

/// Run `f`, turning a panic into `Err(message)`.
pub fn catch<T>(f: impl FnOnce() -> T) -> Result<T, String> {
    match std::panic::catch_unwind(std::panic::AssertUnwindSafe(f)) {
        Ok(v) => Ok(v),
        Err(e) => {
            let msg = if let Some(s) = e.downcast_ref::<&str>() {
                s.to_string()
            } else if let Some(s) = e.downcast_ref::<String>() {
                s.clone()
            } else {
                "?".into()
            };
            Err(msg.replace(['\n', ' '], "_"))
        }
    }
}

pub fn silence_panics() {
    // GMQ_SHOW_PANICS=1: print where caught panics come from (debugging a replay); silent otherwise
    if std::env::var("GMQ_SHOW_PANICS").is_ok() {
        std::panic::set_hook(Box::new(|info| { eprintln!("[caught panic] {info}\n{}", std::backtrace::Backtrace::force_capture()); }));
        return;
    }
    std::panic::set_hook(Box::new(|_| {}));
}
