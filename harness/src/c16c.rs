//! C16, stream-level instances (see c16.rs for the runner, the line grammar and the monitors): the sending half
//! (`Writer` + frames through a real client `DataStreams`: three waker slots across Ready→Sending→DataSent) and the
//! receiving half (`Reader` + STREAM / RESET_STREAM frames: one slot across Recv→SizeKnown→DataRcvd).
use std::task::Context;

use bytes::{Bytes, BytesMut};
use qbase::{
    flow::ArcSendControler,
    frame::{io::ReceiveFrame, MaxStreamDataFrame, ResetStreamFrame, StopSendingFrame, StreamCtlFrame, StreamFrame},
    net::tx::ArcSendWakers,
    sid::StreamId,
    varint::VarInt,
};
use qrecovery::send::CancelStream;

use super::c11::{conn_error, Rec};
use super::c11s::{endpoint, Endpoint, Lim, Pkt, Wiring, P6, R, W};
use super::c16::{poll_tok, run_inst, Inst, Wakers, NWAKERS};
use crate::common::{Opts, Rng};

fn vi(v: u64) -> VarInt {
    VarInt::from_u64(v).unwrap()
}

// ------------------------------------------------------------------------------------------------
// 9. stream sender
pub const SND_WINDOW: u64 = 6;
struct SndI {
    e: Endpoint,
    sid: StreamId,
    w: W,
    big: ArcSendControler<Rec>,
    unacked: Vec<(u64, u64, bool)>,
}
impl Inst for SndI {
    const NAME: &'static str = "StreamSender";
    const MULTI: bool = false;
    const CLOSE: &'static str = "conn_error";
    const OWNER_OPS: &'static [&'static str] = &["cancel"];
    fn new(_: &mut Rng) -> Self {
        let e = endpoint(Wiring::Client, P6 { l: [100, 100, 100], r: [100, 100, SND_WINDOW] }, 100_000, 100_000, 8);
        let (sid, w) = e.open_uni().expect("open_uni");
        let big = ArcSendControler::new(1 << 40, Rec::default(), ArcSendWakers::default());
        SndI { e, sid, w, big, unacked: vec![] }
    }
    fn gen_op(&self, rng: &mut Rng, single: bool) -> String {
        let wk = |rng: &mut Rng| if rng.chance(2, 3) { 0 } else { rng.below(NWAKERS as u64) };
        let t = if single { 0 } else { rng.below(2) };
        match rng.below(16) {
            0..=2 => format!("poll {} {} write {}", t, wk(rng), rng.range(1, 4)),
            3..=4 => format!("poll {} {} flush", t, wk(rng)),
            5..=6 => format!("poll {} {} shutdown", t, wk(rng)),
            7..=8 => format!("window {}", rng.range(3, 14)),
            9..=11 => "load".into(),
            12..=13 => "ack".into(),
            14 => (*rng.pick(&["stop", "cancel", "conn_error"])).into(),
            _ => format!("dropfut {}", rng.below(2)),
        }
    }
    fn alphabet() -> Vec<String> {
        ["poll 0 0 write 3", "poll 0 1 flush", "poll 0 2 shutdown", "window 9", "load", "ack", "stop", "conn_error"].iter().map(|s| s.to_string()).collect()
    }
    fn apply(&mut self, op: &[&str], wk: &Wakers) -> String {
        let ok_or_err = |p: std::task::Poll<Result<(), qrecovery::streams::error::StreamError>>| {
            poll_tok(p, |v| match v {
                Ok(()) => "ready:0".into(),
                Err(_) => "err".into(),
            })
        };
        match op[0] {
            "poll" => {
                let w: usize = op[2].parse().unwrap();
                let mut cx = Context::from_waker(&wk.w[w]);
                match op[3] {
                    "write" => {
                        let n: usize = op[4].parse().unwrap();
                        ok_or_err(self.w.poll_write(&mut cx, Bytes::from(vec![7u8; n])))
                    }
                    "flush" => ok_or_err(self.w.poll_flush(&mut cx)),
                    _ => ok_or_err(self.w.poll_shutdown(&mut cx)),
                }
            }
            "window" => {
                let v: u64 = op[1].parse().unwrap();
                let _ = self.e.ds.recv_frame(StreamCtlFrame::MaxStreamData(MaxStreamDataFrame::new(self.sid, vi(v))));
                "-".into()
            }
            "load" => {
                let mut pkt = Pkt::new(60_000);
                let _ = self.e.ds.try_load_data_into(&mut pkt, &self.big, false);
                let mut out = vec![];
                for (_, a, b, fin) in &pkt.frames {
                    self.unacked.push((*a, *b, *fin));
                    out.push(format!("{}..{}:{}", a, b, if *fin { 1 } else { 0 }));
                }
                format!("- emitted={}", if out.is_empty() { "-".to_string() } else { out.join(",") })
            }
            "ack" => {
                if !self.unacked.is_empty() {
                    let (a, b, fin) = self.unacked.remove(0);
                    let mut f = StreamFrame::new(self.sid, a, (b - a) as usize);
                    f.set_eos_flag(fin);
                    self.e.ds.on_data_acked(f);
                }
                "-".into()
            }
            "stop" => {
                let _ = self.e.ds.recv_frame(StreamCtlFrame::StopSending(StopSendingFrame::new(self.sid, vi(7))));
                "-".into()
            }
            "cancel" => {
                self.w.cancel(7);
                "-".into()
            }
            "conn_error" => {
                self.e.ds.on_conn_error(&conn_error());
                "-".into()
            }
            _ => "-".into(),
        }
    }
}

// ------------------------------------------------------------------------------------------------
// 10. stream receiver
pub const RCV_WINDOW: u64 = 100;
struct RcvI {
    e: Endpoint,
    sid: StreamId,
    r: R,
    _w: W,
}
impl Inst for RcvI {
    const NAME: &'static str = "StreamReceiver";
    const MULTI: bool = false;
    const CLOSE: &'static str = "conn_error";
    fn new(_: &mut Rng) -> Self {
        let e = endpoint(Wiring::Client, P6 { l: [RCV_WINDOW, 100, 100], r: [100, 100, 100] }, 100_000, 100_000, 8);
        let (sid, r, w) = e.open_bi().expect("open_bi");
        RcvI { e, sid, r, _w: w }
    }
    fn gen_op(&self, rng: &mut Rng, single: bool) -> String {
        let t = if single { 0 } else { rng.below(2) };
        match rng.below(16) {
            0..=5 => format!("poll {} {} {}", t, if rng.chance(2, 3) { 0 } else { rng.below(NWAKERS as u64) }, rng.range(1, 5)),
            6..=11 => format!("data {} {} {}", rng.below(9), rng.below(5), if rng.chance(1, 4) { 1 } else { 0 }),
            12 => format!("reset {}", rng.below(12)),
            13 => "conn_error".into(),
            14 => format!("data {} {} 1", rng.below(9), rng.below(5)),
            _ => format!("dropfut {}", rng.below(2)),
        }
    }
    fn alphabet() -> Vec<String> {
        ["poll 0 0 2", "poll 0 1 9", "data 0 3 0", "data 3 2 1", "data 5 0 1", "reset 5", "reset 1", "conn_error"].iter().map(|s| s.to_string()).collect()
    }
    fn apply(&mut self, op: &[&str], wk: &Wakers) -> String {
        match op[0] {
            "poll" => {
                let w: usize = op[2].parse().unwrap();
                let cap: usize = op[3].parse().unwrap();
                let mut buf = Lim(BytesMut::new(), cap);
                let p = self.r.poll_read(&mut Context::from_waker(&wk.w[w]), &mut buf);
                let n = buf.0.len();
                poll_tok(p, |v| match v {
                    Ok(()) => format!("ready:{}", n),
                    Err(_) => "err".into(),
                })
            }
            "data" => {
                let off: u64 = op[1].parse().unwrap();
                let len: usize = op[2].parse().unwrap();
                let mut f = StreamFrame::new(self.sid, off, len);
                f.set_eos_flag(op[3] == "1");
                match self.e.ds.recv_data((f, Bytes::from(vec![0u8; len]))) {
                    Ok(_) => "-".into(),
                    Err(_) => "err".into(),
                }
            }
            "reset" => {
                let fin: u64 = op[1].parse().unwrap();
                match self.e.ds.recv_frame(StreamCtlFrame::ResetStream(ResetStreamFrame::new(self.sid, vi(3), vi(fin)))) {
                    Ok(_) => "-".into(),
                    Err(_) => "err".into(),
                }
            }
            "conn_error" => {
                self.e.ds.on_conn_error(&conn_error());
                "-".into()
            }
            _ => "-".into(),
        }
    }
}

pub const RUNS: &[(&str, fn(&Opts))] = &[("C16snd", run_inst::<SndI>), ("C16rcv", run_inst::<RcvI>)];
