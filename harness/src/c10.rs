//! C10: acknowledgement bookkeeping is truthful in both directions.
//!
//! * `C10r` — random arrival histories (any order, duplicates, gaps), ACK generation at every capacity, peer ACKs of
//!   our ACK-carrying packets, clock ticks on a real `qrecovery::journal::ArcRcvdJournal` under tokio paused time;
//!   the internal state is read from the derived `Debug` output.  Thorough tier adds the exhaustive small scope
//!   (every arrival set over pn < 10 in a random order × every capacity 6..=40 × every largest).
//! * `C10s` — random histories of packets built with frames / trivial / empty, peer ACK frames (overlapping, repeated,
//!   out of order, for unsent numbers), loss declarations, fast retransmit, rotations, ticks on a real
//!   `ArcSentJournal<u32>`; the ACK path replays `qconnection/src/space.rs` `recv_frame` call for call.
//! * `C10i` — `AckFrame::{iter, encoding_size}` on well-formed and ill-formed frames.
//!
//! Monitors never consult the model.
use bytes::BytesMut;
use qbase::{
    frame::{io::WriteFrame, AckFrame, EncodeSize},
    packet::{InvalidPacketNumber, PacketNumber},
    varint::VarInt,
};
use qrecovery::journal::{ArcRcvdJournal, ArcSentJournal};
use std::collections::{BTreeMap, BTreeSet};
use std::time::Duration;
use tokio::time::Instant;

use crate::common::{catch, Opts, Rng, Sink};

fn vi(x: u64) -> VarInt { VarInt::from_u64(x).unwrap() }

fn mk_frame(largest: u64, first: u64, ranges: &[(u64, u64)]) -> AckFrame {
    AckFrame::new(vi(largest), vi(0), vi(first), ranges.iter().map(|&(g, a)| (vi(g), vi(a))).collect(), None)
}

fn pairs_str(rs: &[(u64, u64)]) -> String {
    if rs.is_empty() { "-".into() } else { rs.iter().map(|(a, b)| format!("{}:{}", a, b)).collect::<Vec<_>>().join(",") }
}
fn nats_str(sep: &str, xs: &[u64]) -> String {
    if xs.is_empty() { "-".into() } else { xs.iter().map(|x| x.to_string()).collect::<Vec<_>>().join(sep) }
}

/// `AckFrame::iter` collected; Err = panic (u64 underflow in a dev build)
fn iter_ranges(f: &AckFrame) -> Result<Vec<(u64, u64)>, String> {
    catch(|| f.iter().map(|r| (*r.start(), *r.end())).collect::<Vec<_>>())
}

/// ranges of a frame acknowledging exactly the set `pns` (non-empty): (largest, first, ranges)
fn frame_of_set(pns: &BTreeSet<u64>) -> (u64, u64, Vec<(u64, u64)>) {
    let v: Vec<u64> = pns.iter().rev().cloned().collect();
    let largest = v[0];
    let mut runs: Vec<(u64, u64)> = vec![]; // (hi, lo)
    for &p in &v {
        match runs.last_mut() { Some((_, lo)) if *lo == p + 1 => { *lo = p; } _ => runs.push((p, p)) }
    }
    let first = runs[0].0 - runs[0].1;
    let mut ranges = vec![];
    for w in runs.windows(2) {
        let gap = w[0].1 - w[1].0 - 2;
        ranges.push((gap, w[1].0 - w[1].1));
    }
    (largest, first, ranges)
}

// ------------------------------------------------------------------------------------------------
// C10r

fn micros_of(d: &str, from: usize) -> Option<(u64, usize)> {
    // next `tv_sec: N, tv_nsec: M` at or after `from` → (µs, position after it)
    let p = d[from..].find("tv_sec: ")? + from + 8;
    let e = d[p..].find(|c: char| !c.is_ascii_digit())? + p;
    let sec: u64 = d[p..e].parse().ok()?;
    let q = d[e..].find("tv_nsec: ")? + e + 9;
    let e2 = d[q..].find(|c: char| !c.is_ascii_digit())? + q;
    let ns: u64 = d[q..e2].parse().ok()?;
    Some((sec * 1_000_000 + ns / 1000, e2))
}

fn instant_micros(i: Instant) -> u64 { micros_of(&format!("{:?}", i), 0).map(|x| x.0).unwrap_or(0) }

struct RDump { text: String, offset: u64, nonempty: BTreeSet<u64>, len: u64 }

/// `off=<n> cells=<E|R<e>:<exp>|S<e>:<exp>:<p+p>|C<e>:<exp>,…> incl=<a+b> earliest=<pn>` from the Debug output
fn dump_rcvd(j: &ArcRcvdJournal, base: u64) -> RDump {
    let d = format!("{:?}", j);
    let qs = d.find("deque: [").map(|p| p + 8).unwrap_or(0);
    let qe = d.find("max_ack_delay").unwrap_or(d.len());
    let num_after = |key: &str, from: usize| -> Option<u64> {
        let p = d[from..].find(key)? + from + key.len();
        let e = d[p..].find(|c: char| !c.is_ascii_digit()).map(|e| e + p).unwrap_or(d.len());
        d[p..e].parse().ok()
    };
    let offset = num_after("offset: ", qs).unwrap_or(u64::MAX);
    let mut cells = vec![];
    let mut nonempty = BTreeSet::new();
    let mut i = qs;
    let cands = [("Empty", 'E'), ("PacketReceived(", 'R'), ("AckSent(", 'S'), ("AckConfirmed(", 'C')];
    let bytes = d.as_bytes();
    loop {
        // linear scan to the next cell keyword (cells never contain another cell's keyword)
        let mut next = None;
        while i < qe {
            let b = bytes[i];
            if b == b'E' || b == b'P' || b == b'A' {
                if let Some((k, c)) = cands.iter().find(|(k, _)| d[i..qe].starts_with(k)) { next = Some((0usize, *k, *c)); break; }
            }
            i += 1;
        }
        let Some((p, k, c)) = next else { break };
        let at = i + p + k.len();
        let pn = offset + cells.len() as u64;
        match c {
            'E' => cells.push("E".to_string()),
            'R' => {
                // PacketReceived(recv, Option<ack_time>, expire)
                let (_, p1) = micros_of(&d, at).unwrap();
                let tail = &d[p1..];
                let none_pos = tail.find("None");
                let some_pos = tail.find("Some(");
                let elic = match (none_pos, some_pos) { (Some(n), Some(s)) => s < n, (None, Some(_)) => true, _ => false };
                let p2 = if elic { micros_of(&d, p1).unwrap().1 } else { p1 };
                let (exp, p3) = micros_of(&d, p2).unwrap();
                cells.push(format!("R{}:{}", elic as u8, exp - base));
                nonempty.insert(pn);
                i = p3; continue;
            }
            'S' => {
                let elic = d[at..].starts_with("true");
                let (_, p1) = micros_of(&d, at).unwrap();
                let (exp, p2) = micros_of(&d, p1).unwrap();
                let s = d[p2..].find("}, {").map(|x| x + p2 + 4).unwrap();
                let e = d[s..].find('}').unwrap() + s;
                let mut pns: Vec<u64> = d[s..e].split(',').filter_map(|x| x.trim().parse().ok()).collect();
                pns.sort();
                cells.push(format!("S{}:{}:{}", elic as u8, exp - base, nats_str("+", &pns)));
                nonempty.insert(pn);
                i = e; continue;
            }
            _ => {
                let elic = d[at..].starts_with("true");
                let (_, p1) = micros_of(&d, at).unwrap();
                let (exp, p2) = micros_of(&d, p1).unwrap();
                cells.push(format!("C{}:{}", elic as u8, exp - base));
                nonempty.insert(pn);
                i = p2; continue;
            }
        }
        i = at;
    }
    let is = d.find("packet_include_ack: {").map(|p| p + 21).unwrap_or(0);
    let ie = d[is..].find('}').map(|e| e + is).unwrap_or(is);
    let mut incl: Vec<u64> = d[is..ie].split(',').filter_map(|x| x.trim().parse().ok()).collect();
    incl.sort();
    let earliest = match d.find("earliest_not_ack_time: Some((") { Some(p) => num_after("Some((", p).map(|x| x.to_string()).unwrap_or("?".into()), None => "-".into() };
    let len = cells.len() as u64;
    RDump { text: format!("off={} cells={} incl={} earliest={}", offset, if cells.is_empty() { "-".into() } else { cells.join(",") }, nats_str("+", &incl), earliest), offset, nonempty, len }
}

#[derive(Clone, Debug)]
enum ROp {
    Rcv(u64, bool, u64), Dec(u64, u64), Gen(u64, u64, usize, usize), Rack(u64, u64, Vec<(u64, u64)>), Tick(u64),
    /// gen at a capacity computed when applied: size of the frame acknowledging the top `runs` runs (0 = all) of the tracked
    /// numbers ≤ largest, plus `delta` (the harness's own arithmetic: `frame_of_set` + `encoding_size`)
    GenFit(u64, u64, usize, usize, i64),
    /// bulk leg: like Rcv / Gen(Fit) but the transcript line carries no state dump
    RcvQ(u64, bool, u64), GenQ(u64, u64, usize, i64),
}

/// size of the ACK frame that acknowledges exactly the top `runs` runs (0 = all) of `tracked_desc` (descending, non-empty)
fn fit_size(tracked_desc: &[u64], runs: usize, delay: u64) -> usize {
    let mut set = BTreeSet::new();
    let mut nruns = 0usize;
    let mut prev: Option<u64> = None;
    for &p in tracked_desc {
        if prev.map_or(true, |q| q != p + 1) { nruns += 1; if runs != 0 && nruns > runs { break; } }
        set.insert(p); prev = Some(p);
    }
    let (l, f, rs) = frame_of_set(&set);
    AckFrame::new(vi(l), vi(delay), vi(f), rs.iter().map(|&(g, a)| (vi(g), vi(a))).collect(), None).encoding_size()
}

struct RCase<'a> {
    j: ArcRcvdJournal,
    base: u64,
    marks: Vec<Instant>,            // instants usable as `rcvd_time`
    received: BTreeSet<u64>,        // every pn registered while at/above the offset (monitor's own record)
    sink: &'a mut Sink,
    n_gen_ok: u32, n_gen_cut: u32, n_dup: u32, n_rack: u32,
    dead: bool,
}

impl<'a> RCase<'a> {
    fn new(sink: &'a mut Sink, cap: usize, mad: Option<Duration>) -> Self {
        let now = Instant::now();
        RCase { j: ArcRcvdJournal::with_capacity(cap, mad), base: instant_micros(now), marks: vec![now], received: BTreeSet::new(), sink, n_gen_ok: 0, n_gen_cut: 0, n_dup: 0, n_rack: 0, dead: false }
    }
    fn dump(&self) -> RDump { dump_rcvd(&self.j, self.base) }

    async fn apply(&mut self, op: &ROp) {
        if self.dead { return; }
        let op = match op.clone() {
            ROp::GenFit(pn, largest, mark, runs, delta) => {
                let rcvd_time = self.marks[mark.min(self.marks.len() - 1)];
                let delay = instant_micros(Instant::now()) - instant_micros(rcvd_time);
                let tracked: Vec<u64> = self.dump().nonempty.iter().rev().cloned().filter(|p| *p <= largest).collect();
                let cap = if tracked.is_empty() { 5 } else { (fit_size(&tracked, runs, delay) as i64 + delta).max(0) as usize };
                self.sink.branch(&format!("genfit:delta{:+}", delta));
                ROp::Gen(pn, largest, mark, cap)
            }
            o => o,
        };
        match op {
            ROp::GenFit(..) => unreachable!(),
            ROp::RcvQ(pn, elic, pto) => {
                let ops = format!("rcvq {} {} {}", pn, elic as u8, pto);
                self.sink.pending(&ops);
                match catch(|| self.j.on_rcvd_pn(pn, elic, Duration::from_micros(pto))) {
                    Ok(()) => { self.received.insert(pn); self.sink.line(&ops, "ok"); }
                    Err(_) => { self.sink.line(&ops, "PANIC"); self.dead = true; }
                }
            }
            ROp::GenQ(pn, largest, runs, delta) => {
                // only used in cases without peer ACKs: nothing rotates, every registered number stays tracked
                let rcvd_time = *self.marks.last().unwrap();
                let delay = 0u64;
                let tracked: Vec<u64> = self.received.iter().rev().cloned().filter(|p| *p <= largest).collect();
                let cap = (fit_size(&tracked, runs, delay) as i64 + delta).max(0) as usize;
                let full = fit_size(&tracked, 0, delay);
                let ops = format!("genq {} {} {} {}", pn, largest, delay, cap);
                self.sink.pending(&ops);
                match catch(|| self.j.gen_ack_frame_util(pn, largest, rcvd_time, cap)) {
                    Err(_) => { self.sink.monitor_fail("gen_ack_panic", &ops); self.sink.line(&ops, "PANIC"); self.dead = true; }
                    Ok(Err(_)) => { self.sink.line(&ops, "CONGESTION"); }
                    Ok(Ok(f)) => {
                        let rs: Vec<(u64, u64)> = f.ranges().iter().map(|(g, a)| (g.into_u64(), a.into_u64())).collect();
                        let size = f.encoding_size();
                        self.sink.branch(&format!("genq:ranges={}", rs.len()));
                        if f.largest() != largest { self.sink.monitor_fail("ack_largest_not_requested", &format!("requested largest {} but the frame says {}", largest, f.largest())); }
                        if size > cap { self.sink.monitor_fail("ack_overflows_capacity", &format!("capacity {} but encoding_size {} (largest {}, {} ranges)", cap, size, largest, rs.len())); }
                        let mut buf = BytesMut::new();
                        buf.put_frame(&f);
                        if buf.len() != size { self.sink.monitor_fail("ack_size_vs_written", &format!("encoding_size {} but {} bytes written", size, buf.len())); }
                        match iter_ranges(&f) {
                            Err(_) => self.sink.monitor_fail("ack_illformed", &ops),
                            Ok(cov) => {
                                let mut n = 0usize;
                                let mut bad = None;
                                for (lo, hi) in &cov { for p in *lo..=*hi { n += 1; if !self.received.contains(&p) { bad = Some(p); } } }
                                if let Some(p) = bad { self.sink.monitor_fail("ack_covers_unreceived", &format!("{}: acknowledges pn {} which was never registered", ops, p)); }
                                if n < tracked.len() && cap > full { self.sink.monitor_fail("ack_incomplete_with_room", &format!("{}: capacity > {} = size of the complete frame but only {} of {} tracked numbers covered", ops, full, n, tracked.len())); }
                            }
                        }
                        self.n_gen_ok += 1;
                        self.sink.line(&ops, &format!("ack L={} D={} first={} ranges={} size={}", f.largest(), f.delay(), f.first_range(), pairs_str(&rs), size));
                    }
                }
            }
            ROp::Rcv(pn, elic, pto) => {
                let ops = format!("rcv {} {} {}", pn, elic as u8, pto);
                self.sink.pending(&ops);
                let off = self.dump().offset;
                match catch(|| self.j.on_rcvd_pn(pn, elic, Duration::from_micros(pto))) {
                    Ok(()) => { if pn >= off { self.received.insert(pn); } let d = self.dump(); self.sink.line(&ops, &format!("ok {}", d.text)); }
                    Err(_) => { self.sink.line(&ops, "PANIC"); self.dead = true; }
                }
            }
            ROp::Dec(bits, payload) => {
                let e = match bits { 8 => PacketNumber::U8(payload as u8), 16 => PacketNumber::U16(payload as u16), 24 => PacketNumber::U24(payload as u32), _ => PacketNumber::U32(payload as u32) };
                let ops = format!("dec u{} {}", bits, payload);
                self.sink.pending(&ops);
                let obs = match catch(|| self.j.decode_pn(e)) {
                    Ok(Ok(pn)) => {
                        if self.received.contains(&pn) { self.sink.monitor_fail("accepted_twice", &format!("decode_pn accepted pn {} which was already registered with on_rcvd_pn", pn)); }
                        format!("ok {}", pn)
                    }
                    Ok(Err(InvalidPacketNumber::TooOld)) => "TooOld".into(),
                    Ok(Err(InvalidPacketNumber::Duplicate)) => { self.n_dup += 1; "Dup".into() }
                    Ok(Err(InvalidPacketNumber::TooLarge)) => "TooLarge".into(),
                    Err(_) => { self.dead = true; "PANIC".into() }
                };
                self.sink.line(&ops, &obs);
            }
            ROp::Gen(pn, largest, mark, cap) => {
                let rcvd_time = self.marks[mark.min(self.marks.len() - 1)];
                let delay = instant_micros(Instant::now()) - instant_micros(rcvd_time);
                let ops = format!("gen {} {} {} {}", pn, largest, delay, cap);
                self.sink.pending(&ops);
                let before = self.dump();
                match catch(|| self.j.gen_ack_frame_util(pn, largest, rcvd_time, cap)) {
                    Err(_) => { self.sink.monitor_fail("gen_ack_panic", &format!("gen_ack_frame_util({}, {}, _, {}) panicked", pn, largest, cap)); self.sink.line(&ops, "PANIC"); self.dead = true; }
                    Ok(Err(_)) => { self.sink.branch("gen:congestion"); let d = self.dump(); self.sink.line(&ops, &format!("CONGESTION {}", d.text)); }
                    Ok(Ok(f)) => {
                        self.n_gen_ok += 1;
                        let rs: Vec<(u64, u64)> = f.ranges().iter().map(|(g, a)| (g.into_u64(), a.into_u64())).collect();
                        let size = f.encoding_size();
                        // ---- monitors (independent of the model)
                        if f.largest() != largest { self.sink.monitor_fail("ack_largest_not_requested", &format!("requested largest {} but the frame says {}", largest, f.largest())); }
                        if f.delay() != delay { self.sink.monitor_fail("ack_delay", &format!("delay {} µs requested, frame says {}", delay, f.delay())); }
                        if size > cap { self.sink.monitor_fail("ack_overflows_capacity", &format!("capacity {} but encoding_size {} (largest {}, {} ranges)", cap, size, largest, rs.len())); }
                        let mut buf = BytesMut::new();
                        buf.put_frame(&f);
                        if buf.len() != size { self.sink.monitor_fail("ack_size_vs_written", &format!("encoding_size {} but {} bytes written", size, buf.len())); }
                        let largest_rcvd = before.nonempty.contains(&largest) || (largest < before.offset && self.received.contains(&largest));
                        match iter_ranges(&f) {
                            Err(_) => { if largest_rcvd { self.sink.monitor_fail("ack_illformed", &format!("generated frame L={} first={} ranges={} makes AckFrame::iter underflow", largest, f.first_range(), pairs_str(&rs))); } }
                            Ok(cov) => {
                                if largest_rcvd {
                                    let mut covered = BTreeSet::new();
                                    for (lo, hi) in &cov { for p in *lo..=*hi { covered.insert(p); } }
                                    if let Some(p) = covered.iter().find(|p| !self.received.contains(p)) {
                                        self.sink.monitor_fail("ack_covers_unreceived", &format!("frame L={} first={} ranges={} acknowledges pn {} which was never registered", largest, f.first_range(), pairs_str(&rs), p));
                                    }
                                    let tracked: Vec<u64> = before.nonempty.iter().cloned().filter(|p| *p <= largest).collect();
                                    let complete = tracked.iter().all(|p| covered.contains(p));
                                    if !complete { self.n_gen_cut += 1; self.sink.branch("gen:ok_cut"); } else { self.sink.branch("gen:ok_complete"); }
                                    // room: the frame acknowledging every tracked number ≤ largest, built independently from the set
                                    if !complete {
                                        let set: BTreeSet<u64> = tracked.iter().cloned().collect();
                                        let (fl, ff, frs) = frame_of_set(&set);
                                        let full = AckFrame::new(vi(fl), vi(delay), vi(ff), frs.iter().map(|&(g, a)| (vi(g), vi(a))).collect(), None).encoding_size();
                                    if cap > full {
                                        self.sink.monitor_fail("ack_incomplete_with_room", &format!("capacity {} > {} = size of the complete frame, but tracked received numbers ≤ {} are missing from the frame", cap, full, largest));
                                    } else if cap == full {
                                        self.sink.monitor_fail("ack_incomplete_exact_fit", &format!("capacity {} = size of the complete frame, but the frame L={} first={} ranges={} leaves tracked received numbers out (last range needs capacity > size)", cap, largest, f.first_range(), pairs_str(&rs)));
                                    }
                                    }
                                } else { self.sink.branch("gen:largest_not_received"); }
                            }
                        }
                        let d = self.dump();
                        self.sink.line(&ops, &format!("ack L={} D={} first={} ranges={} size={} {}", f.largest(), f.delay(), f.first_range(), pairs_str(&rs), size, d.text));
                    }
                }
            }
            ROp::Rack(l, first, rs) => {
                let ops = format!("rack {} {} {}", l, first, pairs_str(&rs));
                self.sink.pending(&ops);
                let f = mk_frame(l, first, &rs);
                match catch(|| self.j.on_rcvd_ack(&f)) {
                    Ok(()) => { self.n_rack += 1; let d = self.dump(); self.sink.line(&ops, &format!("ok {}", d.text)); }
                    Err(_) => { self.sink.branch("rack:illformed_panic"); self.sink.line(&ops, "PANIC"); self.dead = true; }
                }
            }
            ROp::Tick(us) => {
                tokio::time::advance(Duration::from_micros(us)).await;
                self.marks.push(Instant::now());
                self.sink.line(&format!("tick {}", us), "ok");
            }
        }
    }
}

fn gen_r_history(rng: &mut Rng) -> Vec<ROp> {
    let mut ops = vec![];
    let mut largest = 0u64;              // generator's estimate of queue.largest()
    let mut known: Vec<u64> = vec![];    // numbers registered
    let mut ack_pn = 0u64;
    let mut ack_pns: Vec<u64> = vec![];
    let mut nmarks = 1usize;
    let n = rng.range(4, 45);
    let dense = rng.chance(1, 3);
    for _ in 0..n {
        match rng.below(20) {
            0..=8 => {
                let pn = match rng.below(8) {
                    0 | 1 => largest,
                    2 => largest + 1 + rng.below(3),
                    3 => largest + rng.below(if dense { 3 } else { 70 }),
                    4 => largest.saturating_sub(1 + rng.below(8)),
                    5 => rng.below(largest + 2),
                    6 => known.get(rng.below(known.len().max(1) as u64) as usize).cloned().unwrap_or(0),
                    _ => largest + rng.below(2),
                };
                if rng.chance(1, 3) {
                    let bits = *rng.pick(&[8u64, 16, 16, 24, 32]);
                    ops.push(ROp::Dec(bits, pn & ((1u64 << bits) - 1)));
                }
                ops.push(ROp::Rcv(pn, rng.chance(2, 3), *rng.pick(&[0u64, 100, 10_000, 300_000])));
                known.push(pn); largest = largest.max(pn + 1);
            }
            9..=14 => {
                ack_pn += rng.below(3);
                let lg = match rng.below(10) {
                    0..=4 => largest.saturating_sub(1),
                    5..=6 => known.get(rng.below(known.len().max(1) as u64) as usize).cloned().unwrap_or(0),
                    7 => rng.below(largest + 1),
                    8 => largest + rng.below(3),
                    _ => largest.saturating_sub(1 + rng.below(4)),
                };
                let cap = match rng.below(10) { 0..=4 => rng.range(0, 40) as usize, 5..=6 => rng.range(4, 14) as usize, 7 => rng.range(40, 200) as usize, 8 => 1200, _ => 65535 };
                if rng.chance(1, 4) {
                    // capacity swept around the exact size of the complete frame / of a prefix of its ranges
                    let runs = if rng.chance(1, 2) { 0 } else { rng.range(1, 6) as usize };
                    ops.push(ROp::GenFit(ack_pn, lg, rng.below(nmarks as u64) as usize, runs, rng.range(0, 4) as i64 - 2));
                } else {
                    ops.push(ROp::Gen(ack_pn, lg, rng.below(nmarks as u64) as usize, cap));
                }
                ack_pns.push(ack_pn);
            }
            15..=16 => {
                // the peer acknowledges some of our ACK-carrying packets (or something else)
                let mut set = BTreeSet::new();
                for _ in 0..rng.range(1, 4) {
                    set.insert(if rng.chance(3, 4) && !ack_pns.is_empty() { *rng.pick(&ack_pns) } else { rng.below(ack_pn + 3) });
                }
                let (l, f, rs) = frame_of_set(&set);
                if rng.chance(1, 25) { ops.push(ROp::Rack(l, l + 1 + rng.below(3), rs)); } else { ops.push(ROp::Rack(l, f, rs)); }
            }
            _ => { ops.push(ROp::Tick(*rng.pick(&[1u64, 20, 63, 64, 1000, 16_383, 16_384, 50_000, 400_000, 1_000_000, 1_073_741_824]))); nmarks += 1; }
        }
    }
    ops
}

pub fn run_r(o: &Opts) {
    let mut sink = Sink::new_with_stats(&o.out, &o.stats);
    let rt = tokio::runtime::Builder::new_current_thread().enable_time().start_paused(true).build().unwrap();
    rt.block_on(async {
        let fixed: Vec<Vec<ROp>> = vec![
            // the repo's own unit test
            vec![ROp::Dec(8, 1), ROp::Rcv(1, true, 100_000), ROp::Gen(0, 1, 0, 1200), ROp::Rack(0, 0, vec![])],
            // capacity cut between ranges; the cells of the range that did not fit are marked AckSent all the same
            vec![ROp::Rcv(0, true, 100), ROp::Rcv(2, true, 100), ROp::Rcv(4, true, 100), ROp::Rcv(6, true, 100), ROp::Gen(1, 6, 0, 7), ROp::Gen(2, 6, 0, 8), ROp::Gen(3, 6, 0, 9), ROp::Gen(4, 6, 0, 10), ROp::Gen(5, 6, 0, 11), ROp::Gen(6, 6, 0, 12)],
            // largest that was never received (caller contract): the frame still claims it
            vec![ROp::Rcv(0, true, 100), ROp::Rcv(1, true, 100), ROp::Rcv(3, true, 100), ROp::Gen(1, 2, 0, 100), ROp::Gen(2, 7, 0, 100)],
            // ill-formed ACK from the peer
            vec![ROp::Rcv(0, true, 100), ROp::Gen(1, 0, 0, 100), ROp::Rack(1, 2, vec![])],
        ];
        let nfixed = fixed.len() as u64;
        let mut idx = 0u64;
        for h in fixed.iter() {
            let i = idx; idx += 1;
            if let Some(k) = o.only_case { if k != i { continue; } }
            sink.case(&format!("{}", i));
            let mut c = RCase::new(&mut sink, 4, None);
            for op in h { c.apply(op).await; }
        }
        // exhaustive small scope (thorough): every arrival set over pn < 10, one random order, every capacity 6..=40
        if o.thorough() {
            for mask in 1u64..1024 {
                let i = idx; idx += 1;
                if let Some(k) = o.only_case { if k != i { continue; } }
                let mut rng = Rng::new(o.seed, i);
                sink.case(&format!("{}", i));
                let mut c = RCase::new(&mut sink, 4, None);
                let mut pns: Vec<u64> = (0..10).filter(|p| mask >> p & 1 == 1).collect();
                for k in (1..pns.len()).rev() { let j = rng.below(k as u64 + 1) as usize; pns.swap(k, j); }
                for &p in &pns { c.apply(&ROp::Rcv(p, true, 100)).await; if rng.chance(1, 4) { c.apply(&ROp::Rcv(p, false, 100)).await; } }
                let top = *pns.iter().max().unwrap();
                let mut apn = 0;
                for cap in 6..=40usize {
                    apn += 1;
                    c.apply(&ROp::Gen(apn, top, 0, cap)).await;
                }
                for &lg in &pns { apn += 1; c.apply(&ROp::Gen(apn, lg, 0, *rng.pick(&[8usize, 10, 12, 40]))).await; }
                c.sink.nontrivial();
            }
        }
        let _ = nfixed;
        // wide leg: 62..70 ack ranges below `largest`, capacity swept size-2..=size+2 around the frames with 62..66 ranges
        // and around the complete frame (the range-count varint grows from 1 to 2 bytes at 64 ranges)
        let nwide = if o.thorough() { 150 } else { 16 };
        for w in 0..nwide {
            let i = idx; idx += 1;
            if let Some(k) = o.only_case { if k != i { continue; } }
            let mut rng = Rng::new(o.seed, i);
            sink.case(&format!("{}", i));
            let mut c = RCase::new(&mut sink, rng.range(0, 8) as usize, None);
            let nranges = *rng.pick(&[62u64, 63, 64, 64, 65, 65, 66, 70]);
            let simple = w % 2 == 0;
            let mut pns = vec![];
            let mut p = 0u64;
            for _ in 0..=nranges {
                let run = if simple { 1 } else { rng.range(1, 3) };
                for _ in 0..run { pns.push(p); p += 1; }
                p += if simple { 1 } else { rng.range(1, 3) };
            }
            match rng.below(3) { 0 => {}, 1 => pns.reverse(), _ => { for k in (1..pns.len()).rev() { let j = rng.below(k as u64 + 1) as usize; pns.swap(k, j); } } }
            for &q in &pns { c.apply(&ROp::Rcv(q, rng.chance(1, 2), 100)).await; }
            let top = *pns.iter().max().unwrap();
            let mut apn = 0;
            let mut targets: Vec<usize> = vec![0];
            for n in 62..=66u64 { if n <= nranges { targets.push(n as usize + 1); } }
            for runs in targets { for delta in -2..=2i64 { apn += 1; c.apply(&ROp::GenFit(apn, top, 0, runs, delta)).await; } }
            c.sink.nontrivial();
        }
        // bulk leg (thorough): 16 386 ranges; capacity swept around the frames with 16 382..16 385 ranges (range count 2 -> 4 bytes)
        if o.thorough() {
            let i = idx; idx += 1;
            if o.only_case.map_or(true, |k| k == i) {
                sink.case(&format!("{}", i));
                sink.set_hang_secs(120);
                let mut c = RCase::new(&mut sink, 8, None);
                let nranges = 16_386u64;
                for r in 0..=nranges { c.apply(&ROp::RcvQ(2 * r, true, 100)).await; }
                let top = 2 * nranges;
                let mut apn = 0;
                for runs in [16_383usize, 16_384, 16_385, 16_386, 0] { for delta in -2..=2i64 { apn += 1; c.apply(&ROp::GenQ(apn, top, runs, delta)).await; } }
                c.sink.nontrivial();
                c.sink.set_hang_secs(10);
            }
        }
        let start = idx;
        for i in start..o.cases.max(start) {
            if let Some(k) = o.only_case { if k != i { continue; } }
            let mut rng = Rng::new(o.seed, i);
            sink.case(&format!("{}", i));
            let h = gen_r_history(&mut rng);
            let mad = if rng.chance(1, 2) { None } else { Some(Duration::from_millis(rng.range(0, 30))) };
            let mut c = RCase::new(&mut sink, rng.range(0, 8) as usize, mad);
            for op in &h { c.apply(op).await; }
            if c.n_gen_ok >= 2 && c.n_gen_cut >= 1 && c.n_rack >= 1 { c.sink.nontrivial(); }
        }
    });
    sink.finish(&o.stats, "C10r: arrival histories (near the window edge, gaps up to 70, duplicates, old numbers, wire-form decode_pn first in 1/3), gen_ack_frame_util for received / arbitrary largest at capacities 0..40 (50%), 4..14, 40..200, 1200, 65535 and delays across the varint boundaries, peer ACKs of our ACK-carrying packets (4% ill-formed), ticks 1 µs .. 1074 s, on a real ArcRcvdJournal under tokio paused time, state from Debug output; a quarter of the gens at a capacity = size of the complete frame / of a prefix of 1..6 of its ranges, −2..+2; a wide leg (16 cases quick, 150 thorough) with 62..70 ack ranges and capacities swept size−2..size+2 around the 62..66-range frames and the complete frame; thorough adds all 1023 arrival sets over pn<10 × capacities 6..=40 and a bulk case with 16 386 ranges swept around 16 382..16 385 ranges; non-trivial = ≥2 generated frames, ≥1 of them cut by capacity, ≥1 peer ACK processed; distinct by transcript hash");
}

// ------------------------------------------------------------------------------------------------
// C10i: AckFrame::iter / encoding_size

pub fn run_i(o: &Opts) {
    let mut sink = Sink::new_with_stats(&o.out, &o.stats);
    for i in 0..o.cases {
        if let Some(k) = o.only_case { if k != i { continue; } }
        let mut rng = Rng::new(o.seed, i);
        sink.case(&format!("{}", i));
        let wellformed = rng.chance(3, 4);
        let (l, first, rs) = if wellformed {
            let mut set = BTreeSet::new();
            let base = if rng.chance(1, 4) { rng.varint62() >> 1 } else { rng.below(100_000) };
            let mut p = base;
            for _ in 0..rng.range(1, 6) { for _ in 0..rng.range(1, 4) { set.insert(p); p += 1; } p += rng.range(1, 5); }
            frame_of_set(&set)
        } else {
            let l = rng.below(40);
            (l, rng.below(l + 3), (0..rng.below(4)).map(|_| (rng.below(12), rng.below(12))).collect())
        };
        let f = mk_frame(l, first, &rs);
        let op = format!("iter {} {} {}", l, first, pairs_str(&rs));
        sink.pending(&op);
        match iter_ranges(&f) {
            Ok(cov) => {
                // monitor: ranges descend, are disjoint and non-adjacent, first range ends at largest
                let mut ok = cov.first().map(|r| r.1 == l && r.0 + first == l).unwrap_or(false);
                for w in cov.windows(2) { if !(w[1].1 + 1 < w[0].0 && w[1].0 <= w[1].1) { ok = false; } }
                if !ok { sink.monitor_fail("iter_ranges_malformed", &format!("L={} first={} ranges={} iterates as {:?}", l, first, pairs_str(&rs), cov)); }
                if wellformed { sink.nontrivial(); }
                sink.branch("iter:ok");
                sink.line(&op, &format!("ranges={} size={}", pairs_str(&cov), f.encoding_size()));
            }
            Err(_) => {
                if wellformed { sink.monitor_fail("iter_panic_wellformed", &format!("L={} first={} ranges={} panicked", l, first, pairs_str(&rs))); }
                sink.branch("iter:underflow_panic");
                sink.line(&op, "PANIC");
            }
        }
    }
    sink.finish(&o.stats, "C10i: AckFrame::{iter, encoding_size} on frames built from random pn sets (75%, bases up to 2^61) and on random small possibly ill-formed frames (25%); non-trivial = well-formed frame; distinct by transcript hash");
}

// ------------------------------------------------------------------------------------------------
// C10s

fn dump_sent(j: &ArcSentJournal<u32>) -> String {
    let d = format!("{:?}", j);
    if d.contains("<locked>") { return "LOCKED".into(); }
    let num_after = |key: &str, from: usize| -> Option<u64> {
        let p = d[from..].find(key)? + from + key.len();
        let e = d[p..].find(|c: char| !c.is_ascii_digit()).map(|e| e + p).unwrap_or(d.len());
        d[p..e].parse().ok()
    };
    let qs = d.find("queue: [").map(|p| p + "queue: [".len()).unwrap_or(0);
    let qe = d[qs..].find(']').map(|e| e + qs).unwrap_or(qs);
    let q: Vec<u64> = d[qs..qe].split(',').filter_map(|x| x.trim().parse().ok()).collect();
    let sp = d.find("sent_packets:").unwrap_or(0);
    let mut recs = vec![];
    let mut i = sp;
    let end = d.find("largest_acked_pktno").unwrap_or(d.len());
    while i < end {
        let rest = &d[i..end];
        let cands = [("Skipped", 'S'), ("Flighting {", 'F'), ("Retransmitted {", 'R'), ("Acked {", 'A')];
        let next = cands.iter().filter_map(|(k, c)| rest.find(k).map(|p| (p, *k, *c))).min_by_key(|x| x.0);
        match next {
            None => break,
            Some((p, k, c)) => {
                let at = i + p + k.len();
                if c == 'S' { recs.push("S".to_string()); } else { recs.push(format!("{}{}", c, num_after("nframes: ", at).unwrap_or(u64::MAX))); }
                i = at;
            }
        }
    }
    let off = num_after("offset: ", sp).unwrap_or(u64::MAX);
    let la = num_after("largest_acked_pktno: ", 0).unwrap_or(u64::MAX);
    format!("off={} recs={} q={} la={}", off, if recs.is_empty() { "-".into() } else { recs.join(",") }, nats_str(",", &q), la)
}

#[derive(Clone, Debug)]
enum SOp { Pkt(usize, bool, u64, u64), Leak(usize), Ack(u64, u64, Vec<(u64, u64)>), Acked(Vec<u64>), Lost(Vec<u64>), FastRetx, Rotate, Tick(u64) }

struct SCase<'a> {
    j: ArcSentJournal<u32>,
    sink: &'a mut Sink,
    fid: u32,
    sent: BTreeMap<u64, Vec<u32>>,     // pn → frames recorded (monitor's own record, from the guard's pn())
    next_pn: u64,                      // one past the largest pn a built packet carried
    delivered: BTreeSet<u32>,          // frames reported acknowledged so far
    acked_pns: BTreeSet<u64>,
    lost_pns: BTreeSet<u64>,
    now_ms: u64,
    expire_at: BTreeMap<u64, u64>,     // pn → paused-clock ms at which a Retransmitted record may be dropped
    leaked: bool,
    dead: bool,
    n_ack_ok: u32, n_repeat: u32, n_lost: u32,
}

impl<'a> SCase<'a> {
    fn new(sink: &'a mut Sink, cap: usize) -> Self {
        SCase { j: ArcSentJournal::with_capacity(cap), sink, fid: 0, sent: BTreeMap::new(), next_pn: 0, delivered: BTreeSet::new(), acked_pns: BTreeSet::new(), lost_pns: BTreeSet::new(), now_ms: 0, expire_at: BTreeMap::new(), leaked: false, dead: false, n_ack_ok: 0, n_repeat: 0, n_lost: 0 }
    }

    /// frames reported for the acknowledged packet numbers `pns` (in call order)
    fn check_acked(&mut self, what: &str, pns: &[u64], got: &[u32]) {
        if self.leaked { return; }
        let mut owner: BTreeMap<u32, u64> = BTreeMap::new();
        for pn in pns { if let Some(fs) = self.sent.get(pn) { for f in fs { owner.insert(*f, *pn); } } }
        let mut seen = BTreeSet::new();
        for f in got {
            if !owner.contains_key(f) { self.sink.monitor_fail("acked_foreign_frame", &format!("{}: frame {} reported delivered but no acknowledged packet carried it", what, f)); return; }
            if self.delivered.contains(f) || !seen.insert(*f) { self.sink.monitor_fail("acked_frame_twice", &format!("{}: frame {} reported delivered a second time", what, f)); return; }
        }
        // exact expectation: first-time acknowledged packets still tracked, in call order
        let mut expect: Vec<u32> = vec![];
        let mut newly = BTreeSet::new();
        for pn in pns {
            if self.acked_pns.contains(pn) || newly.contains(pn) { if self.sent.get(pn).map_or(false, |f| !f.is_empty()) { self.n_repeat += 1; } continue; }
            if let Some(fs) = self.sent.get(pn) {
                let all = fs.iter().all(|f| got.contains(f));
                let none = fs.iter().all(|f| !got.contains(f));
                if !(all || none) { self.sink.monitor_fail("acked_partial", &format!("{}: only some frames of packet {} reported", what, pn)); return; }
                let may_be_dropped = self.lost_pns.contains(pn) && self.expire_at.get(pn).map_or(true, |e| *e <= self.now_ms);
                if none && !fs.is_empty() && !may_be_dropped { self.sink.monitor_fail("acked_frames_missing", &format!("{}: packet {} acknowledged for the first time (not declared lost, or declared lost but not yet expired) but its frames {:?} were not reported", what, pn, fs)); return; }
                if all { expect.extend(fs.iter()); newly.insert(*pn); }
            }
        }
        if expect != got { self.sink.monitor_fail("acked_frames_order", &format!("{}: expected {:?} got {:?}", what, expect, got)); }
        for f in got { self.delivered.insert(*f); }
        for pn in pns { if self.sent.contains_key(pn) { self.acked_pns.insert(*pn); } }
    }

    async fn apply(&mut self, op: &SOp) {
        if self.dead { return; }
        match op.clone() {
            SOp::Pkt(k, triv, rt, et) => {
                let ids: Vec<u32> = (0..k).map(|_| { self.fid += 1; self.fid }).collect();
                let ops = format!("pkt {} {} {} {}", nats_str(",", &ids.iter().map(|x| *x as u64).collect::<Vec<_>>()), triv as u8, rt, et);
                self.sink.pending(&ops);
                let mut g = self.j.new_packet();
                let (pn, _) = g.pn();
                for f in &ids { g.record_frame(*f); }
                if triv { g.record_trivial(); }
                g.build_with_time(Duration::from_millis(rt), Duration::from_millis(et));
                let consumed = k > 0 || triv;
                if consumed {
                    if pn < self.next_pn { self.sink.monitor_fail("pn_reused", &format!("packet built with pn {} after {}", pn, self.next_pn)); }
                    self.sent.insert(pn, ids.clone()); self.next_pn = pn + 1; self.expire_at.insert(pn, self.now_ms + et);
                }
                self.sink.line(&ops, &format!("pn={} {}", if consumed { pn.to_string() } else { "-".into() }, dump_sent(&self.j)));
            }
            SOp::Leak(k) => {
                let ids: Vec<u32> = (0..k).map(|_| { self.fid += 1; self.fid }).collect();
                let mut g = self.j.new_packet();
                for f in &ids { g.record_frame(*f); }
                drop(g);
                self.leaked = true;
                self.sink.branch("leak(abandon after record_frame; monitors off for the rest of the case)");
                self.sink.line(&format!("leak {}", nats_str(",", &ids.iter().map(|x| *x as u64).collect::<Vec<_>>())), &format!("ok {}", dump_sent(&self.j)));
            }
            SOp::Ack(l, first, rs) => {
                let ops = format!("ack {} {} {}", l, first, pairs_str(&rs));
                self.sink.pending(&ops);
                let f = mk_frame(l, first, &rs);
                // qconnection/src/space.rs `impl ReceiveFrame<AckFrame> for Ack*Space`, call for call
                let j = self.j.clone();
                let r = catch(move || {
                    let mut rotate_guard = j.rotate();
                    if rotate_guard.update_largest(&f).is_err() { return Err(()); }
                    let acked = f.iter().flat_map(|r| r.rev()).collect::<Vec<_>>();
                    let mut out = vec![];
                    for pn in acked.iter() { for frame in rotate_guard.on_packet_acked(*pn) { out.push(frame); } }
                    Ok((acked, out))
                });
                match r {
                    Err(m) => { self.sink.monitor_fail("ack_path_panic", &format!("ACK L={} first={} ranges={}: {}", l, first, pairs_str(&rs), &m[..m.len().min(80)])); self.sink.line(&ops, "PANIC"); self.dead = true; }
                    Ok(Err(())) => {
                        if l < self.next_pn { self.sink.monitor_fail("ack_of_sent_rejected", &format!("ACK with largest {} refused although pn {} was sent", l, self.next_pn - 1)); }
                        self.sink.branch("ack:err");
                        self.sink.line(&ops, &format!("err {}", dump_sent(&self.j)));
                    }
                    Ok(Ok((acked, out))) => {
                        if l >= self.next_pn {
                            self.sink.monitor_fail("ack_of_unsent_accepted", &format!("ACK with largest {} accepted but the largest packet number sent is {} (RFC 9000 §13.1: PROTOCOL_VIOLATION)", l, if self.next_pn == 0 { "none".to_string() } else { (self.next_pn - 1).to_string() }));
                        }
                        self.n_ack_ok += 1;
                        self.sink.branch("ack:ok");
                        self.check_acked(&ops, &acked, &out);
                        self.sink.line(&ops, &format!("frames={} {}", nats_str(",", &out.iter().map(|x| *x as u64).collect::<Vec<_>>()), dump_sent(&self.j)));
                    }
                }
            }
            SOp::Acked(pns) => {
                let ops = format!("acked {}", nats_str(",", &pns));
                self.sink.pending(&ops);
                let j = self.j.clone();
                let p2 = pns.clone();
                match catch(move || { let mut g = j.rotate(); let mut out = vec![]; for pn in p2 { for f in g.on_packet_acked(pn) { out.push(f); } } out }) {
                    Err(_) => { self.sink.monitor_fail("on_packet_acked_panic", &ops); self.sink.line(&ops, "PANIC"); self.dead = true; }
                    Ok(out) => { self.check_acked(&ops, &pns, &out); self.sink.line(&ops, &format!("frames={} {}", nats_str(",", &out.iter().map(|x| *x as u64).collect::<Vec<_>>()), dump_sent(&self.j))); }
                }
            }
            SOp::Lost(pns) => {
                let ops = format!("lost {}", nats_str(",", &pns));
                self.sink.pending(&ops);
                let j = self.j.clone();
                let p2 = pns.clone();
                match catch(move || { let mut g = j.rotate(); let mut out = vec![]; for pn in p2 { for f in g.may_loss_packet(pn) { out.push(f); } } out }) {
                    Err(_) => { self.sink.monitor_fail("may_loss_packet_panic", &ops); self.sink.line(&ops, "PANIC"); self.dead = true; }
                    Ok(out) => {
                        if !self.leaked {
                            // every packet declared lost that is in flight (sent, not acknowledged, not expired since an earlier loss) reports exactly its frames
                            let mut expect_min: Vec<u32> = vec![];
                            for pn in &pns {
                                if let Some(fs) = self.sent.get(pn) {
                                    let all = fs.iter().all(|f| out.contains(f));
                                    let none = fs.iter().all(|f| !out.contains(f));
                                    if !(all || none) { self.sink.monitor_fail("lost_partial", &format!("{}: only some frames of packet {} reported", ops, pn)); }
                                    if !self.acked_pns.contains(pn) && !self.lost_pns.contains(pn) { expect_min.extend(fs.iter()); }
                                }
                            }
                            for f in &expect_min { if !out.contains(f) { self.sink.monitor_fail("lost_frames_missing", &format!("{}: frame {} of an in-flight packet declared lost was not reported for retransmission", ops, f)); break; } }
                            for f in &out {
                                if self.delivered.contains(f) { self.sink.monitor_fail("lost_after_acked", &format!("{}: frame {} reported lost after it was reported delivered", ops, f)); break; }
                                if !pns.iter().any(|pn| self.sent.get(pn).map_or(false, |fs| fs.contains(f))) { self.sink.monitor_fail("lost_foreign_frame", &format!("{}: frame {} reported lost but no packet declared lost carried it", ops, f)); break; }
                            }
                        }
                        for pn in &pns { if self.sent.contains_key(pn) { self.lost_pns.insert(*pn); } }
                        self.n_lost += 1;
                        self.sink.line(&ops, &format!("frames={} {}", nats_str(",", &out.iter().map(|x| *x as u64).collect::<Vec<_>>()), dump_sent(&self.j)));
                    }
                }
            }
            SOp::FastRetx => {
                self.sink.pending("fastretx");
                let j = self.j.clone();
                match catch(move || { let mut g = j.rotate(); g.fast_retransmit().collect::<Vec<u32>>() }) {
                    Err(_) => { self.sink.monitor_fail("fast_retransmit_panic", "fastretx"); self.sink.line("fastretx", "PANIC"); self.dead = true; }
                    Ok(out) => {
                        if !self.leaked { for f in &out { if self.delivered.contains(f) { self.sink.monitor_fail("retx_after_acked", &format!("fast_retransmit returned frame {} after it was reported delivered", f)); break; } } }
                        // a packet fast-retransmitted counts as declared lost for the monitors
                        let owners: Vec<u64> = self.sent.iter().filter(|(_, fs)| fs.iter().any(|f| out.contains(f))).map(|(p, _)| *p).collect();
                        for p in owners { self.lost_pns.insert(p); }
                        self.sink.line("fastretx", &format!("frames={} {}", nats_str(",", &out.iter().map(|x| *x as u64).collect::<Vec<_>>()), dump_sent(&self.j)));
                    }
                }
            }
            SOp::Rotate => { drop(self.j.rotate()); self.sink.line("rotate", &format!("ok {}", dump_sent(&self.j))); }
            SOp::Tick(ms) => { tokio::time::advance(Duration::from_millis(ms)).await; self.now_ms += ms; self.sink.line(&format!("tick {}", ms), "ok"); }
        }
    }
}

fn gen_s_history(rng: &mut Rng) -> Vec<SOp> {
    let mut ops = vec![];
    let mut next = 0u64;
    let n = rng.range(4, 50);
    let leaky = rng.chance(1, 12);
    for _ in 0..n {
        let near = |rng: &mut Rng, n: u64| -> u64 { match rng.below(6) { 0 => n, 1 => n + 1, 2 => n.saturating_sub(1), 3 => rng.below(n + 2), 4 => n.saturating_sub(2), _ => rng.below(n + 1) } };
        match rng.below(20) {
            0..=8 => {
                let k = match rng.below(6) { 0 => 0, 1 | 2 => 1, 3 => 2, 4 => 3, _ => rng.range(0, 6) } as usize;
                let triv = rng.chance(1, 3);
                if k > 0 || triv { next += 1; }
                ops.push(SOp::Pkt(k, triv, rng.range(0, 50), rng.range(0, 120)));
            }
            9..=13 => {
                // a peer ACK: a random subset of (mostly sent) numbers
                let mut set = BTreeSet::new();
                let top = near(rng, next);
                set.insert(top);
                for _ in 0..rng.below(5) { let lo = top.saturating_sub(rng.below(8)); for p in lo..=lo + rng.below(3) { if p <= top { set.insert(p); } } }
                let (l, f, rs) = frame_of_set(&set);
                ops.push(SOp::Ack(l, f, rs));
            }
            14 => ops.push(SOp::Acked((0..rng.range(1, 3)).map(|_| near(rng, next)).collect())),
            15..=16 => ops.push(SOp::Lost((0..rng.range(1, 3)).map(|_| near(rng, next)).collect())),
            17 => ops.push(if rng.chance(1, 2) { SOp::FastRetx } else { SOp::Rotate }),
            18 => ops.push(if leaky { SOp::Leak(rng.range(1, 2) as usize) } else { SOp::Rotate }),
            _ => ops.push(SOp::Tick(rng.range(1, 80))),
        }
    }
    ops
}

pub fn run_s(o: &Opts) {
    let mut sink = Sink::new_with_stats(&o.out, &o.stats);
    let rt = tokio::runtime::Builder::new_current_thread().enable_time().start_paused(true).build().unwrap();
    rt.block_on(async {
        let fixed: Vec<Vec<SOp>> = vec![
            // DESIGN §7 #25: nothing sent, ACK largest = 0; one packet sent, ACK largest = 1
            vec![SOp::Ack(0, 0, vec![])],
            vec![SOp::Pkt(2, false, 10, 30), SOp::Ack(1, 0, vec![]), SOp::Ack(0, 0, vec![]), SOp::Ack(0, 0, vec![])],
            // frames survive resize: first packet acked and dropped, later ones still map to their frames
            vec![SOp::Pkt(2, false, 10, 30), SOp::Pkt(0, true, 10, 30), SOp::Pkt(3, false, 10, 30), SOp::Pkt(1, false, 10, 30), SOp::Ack(0, 0, vec![]), SOp::Rotate, SOp::Ack(3, 0, vec![(0, 0)]), SOp::Lost(vec![2]), SOp::Tick(40), SOp::Rotate, SOp::Ack(3, 3, vec![])],
            vec![SOp::Pkt(1, false, 5, 10), SOp::Pkt(2, false, 5, 10), SOp::Tick(6), SOp::Ack(1, 0, vec![]), SOp::FastRetx, SOp::Tick(10), SOp::Rotate, SOp::Acked(vec![0])],
        ];
        let mut idx = 0u64;
        for h in fixed.iter() {
            let i = idx; idx += 1;
            if let Some(k) = o.only_case { if k != i { continue; } }
            sink.case(&format!("{}", i));
            let mut c = SCase::new(&mut sink, 4);
            for op in h { c.apply(op).await; }
        }
        for i in idx..o.cases.max(idx) {
            if let Some(k) = o.only_case { if k != i { continue; } }
            let mut rng = Rng::new(o.seed, i);
            sink.case(&format!("{}", i));
            let h = gen_s_history(&mut rng);
            let mut c = SCase::new(&mut sink, rng.range(0, 8) as usize);
            for op in &h { c.apply(op).await; }
            if c.n_ack_ok >= 2 && c.n_repeat >= 1 && c.n_lost >= 1 && !c.leaked { c.sink.nontrivial(); }
        }
    });
    sink.finish(&o.stats, "C10s: histories of packets (0..6 frames, trivial, empty), peer ACK frames built from random subsets near the send edge (overlapping, repeated, for unsent numbers), direct on_packet_acked / may_loss_packet calls, fast_retransmit, rotations, ticks 1..80 ms (retransmit timers 0..50 ms, expiry 0..120 ms), 1/12 of the cases with a guard abandoned after record_frame, on a real ArcSentJournal<u32> under tokio paused time; ACK path = space.rs recv_frame call for call; non-trivial = ≥2 accepted ACKs, ≥1 packet acknowledged again, ≥1 loss declaration, no leak; distinct by transcript hash");
}

pub const RUNS: &[(&str, fn(&Opts))] = &[("C10r", run_r), ("C10s", run_s), ("C10i", run_i)];
