//! C02 — wire-level leg (run `c02_wire`): what each endpoint itself reports (qlog `packet_received` = authenticated and
//! dispatched, `packet_sent`) is checked against the other endpoint's report, under duplicate / replay / reorder heavy
//! schedules.  Closes the gap of mutation M3 (a duplicate packet number accepted is invisible to the applications).
//!
//! Monitors (independent of any model):
//!   wire:packet-processed-twice:<space>   an endpoint dispatched the same (space, packet number) twice
//!   wire:received-never-sent:<space>      an endpoint dispatched a (space, pn) its peer never sent (a tampered or invented packet)
//! Transcript: `cfg`, C02's application lines, `wire <ep> rcvd=<n> sent=<n> dup=<n> alien=<n> => ok`, `end`; the driver is C02's.
use std::{collections::{BTreeMap, BTreeSet}, time::Duration};

use crate::{
    common::{Opts, Rng, Sink},
    registry::c02,
    sim::{self, PacketTap, PairCfg, Profile},
};

pub const RUNS: &[(&str, fn(&Opts))] = &[("c02_wire", run)];

fn profiles() -> Vec<Profile> {
    vec![
        Profile { name: "dup-heavy", dup: 400, delay: 150, fault_window: Some(600), bounded: true, ..Default::default() },
        Profile { name: "replay-heavy", replay: 400, dup: 100, fault_window: Some(600), bounded: true, ..Default::default() },
        Profile { name: "replay-late", replay: 300, delay: 300, drop: 50, fault_window: Some(600), bounded: true, ..Default::default() },
        Profile { name: "inject-mix", inject_flip: 100, inject_garbage: 100, replay: 200, dup: 100, bounded: true, ..Default::default() },
    ]
}

fn run(o: &Opts) {
    let mut sink = Sink::new_with_stats(&o.out, &o.stats);
    sink.set_hang_secs(300);
    let ids: Vec<u64> = match o.only_case { Some(i) => vec![i], None => (0..o.cases).collect() };
    let seed = o.seed;
    let thorough = o.thorough();
    let mut total_rcvd = 0u64;
    let mut total_dropped_dups = 0u64;
    let mut total_closing = 0u64;
    for chunk in ids.chunks(6) {
        sink.pending(&format!("cases {chunk:?}"));
        eprintln!("gmq-sim c02_wire: running cases {chunk:?} (re-run one with --only-case)");
        let hs: Vec<_> = chunk.iter().map(|&id| std::thread::spawn(move || {
            let mut rng = Rng::new(seed ^ 0x77, id);
            let plans = c02::plan_streams(&mut rng, thorough);
            let profile = rng.pick(&profiles()).clone();
            let tap = PacketTap::new();
            let cfg = PairCfg::default().with_qlog(tap.clone());
            let (p2, adv) = (profile.clone(), Rng::new(seed ^ 0xADD7, id));
            let out = sim::run_case(id, Duration::from_secs(120), move || c02::one_case_cfg(p2, adv, plans, Duration::from_secs(10), Duration::from_secs(120), cfg));
            (id, profile, out, tap.take())
        })).collect();
        for h in hs {
            let (id, profile, out, pk) = h.join().expect("case thread");
            sink.case(&id.to_string());
            sink.branch(&format!("profile:{}", profile.name));
            sink.line(&format!("cfg {} bounded=1", profile.name), "ok");
            for loc in &out.panics {
                sink.monitor_fail(&format!("panic:{loc}"), &format!("a task panicked at {loc} (profile {})", profile.name));
            }
            if out.wall_hang {
                sink.monitor_fail("hang:wall-clock", "case did not finish within 120 s real time");
            }
            if let Some(r) = &out.result {
                for ev in &r.evs {
                    sink.line(&ev.op, &ev.obs);
                }
                for (k, w) in &r.fails {
                    sink.monitor_fail(k, w);
                }
                if r.counts.get("dup").copied().unwrap_or(0) + r.counts.get("replay").copied().unwrap_or(0) > 0 {
                    sink.nontrivial();
                }
                total_dropped_dups += r.counts.get("dup").copied().unwrap_or(0) + r.counts.get("replay").copied().unwrap_or(0);
            }
            for ep in ["client", "server"] {
                let peer = if ep == "client" { "server" } else { "client" };
                // The instant the endpoint's connection stopped being OPEN: its application closed it (`close <ep>`) or
                // `Connection::terminated` resolved (`term <ep>`).  From then on the closing / draining receive path
                // (qconnection/src/space/data.rs `parse_closing_one_rtt_packet`) decrypts every packet only to look for a
                // CONNECTION_CLOSE frame and answers with its own (RFC 9000 §10.2.1): no frame is dispatched, nothing is
                // recorded in the receive journal — so a duplicate decodes again — but `read_plain_packet` still logs
                // `packet_received`.  "Dispatched twice" is a statement about an open connection: only packets logged
                // strictly before that instant are counted; the rest is reported as `closing=<n>`.
                let e1 = if ep == "client" { "c" } else { "s" };
                let cut = out.result.as_ref().and_then(|r| {
                    let t0 = r.hist_start?;
                    r.evs.iter().filter(|ev| ev.ep == e1 && (ev.op.starts_with("close ") || ev.op.starts_with("term "))).map(|ev| t0 + Duration::from_micros(ev.t_us)).min()
                });
                let mut closing = 0u64;
                let sent_by_peer: BTreeSet<(String, u64)> = pk.iter().filter(|e| !e.rcvd && e.ep == peer).filter_map(|e| e.pn.map(|n| (e.ty.clone(), n))).collect();
                let mut seen = BTreeMap::<(String, u64), u64>::new();
                let (mut dup, mut alien, mut nr) = (0u64, 0u64, 0u64);
                for e in pk.iter().filter(|e| e.rcvd && e.ep == ep) {
                    let Some(pn) = e.pn else { continue };
                    if cut.is_some_and(|c| e.at >= c) {
                        closing += 1;
                        // still must be a packet the peer sent (authenticity does not end with the connection)
                        if !sent_by_peer.contains(&(e.ty.clone(), pn)) {
                            alien += 1;
                            sink.monitor_fail(&format!("wire:received-never-sent:{}", e.ty), &format!("{ep} (closing) accepted {} packet number {pn} that the {peer} never sent (profile {}; frames {:?})", e.ty, profile.name, e.frames));
                        }
                        continue;
                    }
                    nr += 1;
                    let k = (e.ty.clone(), pn);
                    let c = seen.entry(k.clone()).or_insert(0);
                    *c += 1;
                    if *c == 2 {
                        dup += 1;
                        sink.monitor_fail(&format!("wire:packet-processed-twice:{}", e.ty), &format!("{ep} dispatched {} packet number {pn} twice (profile {}; frames {:?})", e.ty, profile.name, e.frames));
                    }
                    if !sent_by_peer.contains(&k) && *c == 1 {
                        alien += 1;
                        sink.monitor_fail(&format!("wire:received-never-sent:{}", e.ty), &format!("{ep} dispatched {} packet number {pn} that the {peer} never sent (profile {}; frames {:?})", e.ty, profile.name, e.frames));
                    }
                }
                total_rcvd += nr;
                sink.line(&format!("wire {ep} rcvd={nr} peer_sent={} dup={dup} alien={alien} closing={closing}", sent_by_peer.len()), "ok");
                total_closing += closing;
                for e in pk.iter().filter(|e| e.rcvd && e.ep == ep) {
                    sink.branch(&format!("rcvd:{}", e.ty));
                }
            }
            sink.line("end", "ok");
        }
    }
    sink.note("packets_dispatched", serde_json::json!(total_rcvd));
    sink.note("packets_logged_in_closing_state", serde_json::json!(total_closing));
    sink.note("duplicates_and_replays_delivered", serde_json::json!(total_dropped_dups));
    if total_rcvd == 0 && o.only_case.is_none() && o.cases > 0 {
        sink.monitor_fail("wire:no-events", "no packet_received event was captured: the leg would be vacuous");
    }
    sink.finish(&o.stats, "non-trivial = at least one duplicated or replayed datagram was delivered");
}
