//! C19 — simulator leg (run `c19_e2e`): on an open, uncongested, loss-free connection both applications send N datagrams;
//! count DATAGRAM frames in the packets the sender says it sent (qlog `packet_sent`), in the packets the receiver
//! dispatched, and the datagrams the peer application reads within 3 s virtual.  A stream echo on the same connection
//! proves the connection is open and moving data.
//!
//! Monitors: `datagram-never-offered:packages` (accepted by send_bytes, connection healthy, yet no DATAGRAM frame ever
//! leaves — same signature as C19's source-level probe), `datagram:lost-without-loss` (frames left, network clean, not all read),
//! `datagram:not-sent-content` (something read that was not sent, i.e. changed / merged / split),
//! `datagram:reordered-or-duplicated` (reads are not a subsequence of what the peer's writer accepted),
//! `datagram:writer-unavailable`.  Besides the n datagrams each side offers one of `limit - 1` bytes (no-length
//! frame = limit, with-length frame > limit): if the writer accepts it, it has to arrive like the others.
//! Transcript: `dg <ep> accepted=<a> frames_sent=<f> frames_rcvd=<r> read=<n> echo=<0|1> => ok`.
use std::time::Duration;

use dquic::prelude::*;
use tokio::io::{AsyncReadExt, AsyncWriteExt};

use crate::{
    common::{Opts, Rng, Sink},
    sim::{self, Honest, PacketTap, Pair, PairCfg},
};

pub const RUNS: &[(&str, fn(&Opts))] = &[("c19_e2e", run)];

struct Out {
    accepted: [u64; 2],
    read: [u64; 2],
    bad_content: u64,
    /// datagrams read that are not, in this order, among those the peer's writer accepted
    out_of_order: u64,
    /// a datagram of `limit - 1` bytes (its with-length frame would exceed the peer's limit) was accepted
    near_limit_accepted: [bool; 2],
    writer_err: Vec<String>,
    echo_ok: bool,
}

async fn case(n: u64, size: usize, limit: u32, tap: std::sync::Arc<PacketTap>) -> Out {
    let mut cfg = PairCfg::default().with_qlog(tap).idle_timeout(Duration::from_secs(30));
    cfg.client_params.set(ParameterId::MaxDatagramFrameSize, limit).expect("param");
    cfg.server_params.set(ParameterId::MaxDatagramFrameSize, limit).expect("param");
    let pair = Pair::build(Box::new(Honest), cfg).await;
    let mut out = Out { accepted: [0, 0], read: [0, 0], bad_content: 0, out_of_order: 0, near_limit_accepted: [false; 2], writer_err: vec![], echo_ok: false };
    let listeners = pair.listeners.clone();
    let srv = tokio::spawn(async move { listeners.accept().await.ok().map(|(c, ..)| c) });
    let Ok(cc) = pair.connect().await else { out.writer_err.push("connect".into()); return out };
    if cc.handshaked().await.is_err() { out.writer_err.push("handshake".into()); return out }
    let Ok(Some(sc)) = tokio::time::timeout(Duration::from_secs(10), srv).await.unwrap_or(Ok(None)) else { out.writer_err.push("accept".into()); return out };
    // stream echo: the connection is open and uncongested
    {
        let sc2 = sc.clone();
        tokio::spawn(async move {
            if let Ok((_sid, (mut r, mut w))) = sc2.accept_bi_stream().await {
                let mut b = vec![];
                let _ = r.read_to_end(&mut b).await;
                let _ = AsyncWriteExt::write_all(&mut w, &b).await;
                let _ = w.shutdown().await;
            }
        });
        if let Ok(Some((_sid, (mut r, mut w)))) = cc.open_bi_stream().await {
            let _ = AsyncWriteExt::write_all(&mut w, b"ping over the same connection").await;
            let _ = w.shutdown().await;
            let mut b = vec![];
            let _ = tokio::time::timeout(Duration::from_secs(5), r.read_to_end(&mut b)).await;
            out.echo_ok = b == b"ping over the same connection";
        }
    }
    let payload = |ep: usize, i: u64| -> Vec<u8> { (0..size).map(|k| (ep as u64 * 97 + i * 31 + k as u64) as u8).collect() };
    let conns = [cc.clone(), sc.clone()];
    let mut sent: [Vec<Vec<u8>>; 2] = [vec![], vec![]];
    let mut readers = vec![];
    for (ep, c) in conns.iter().enumerate() {
        match c.datagram_reader() {
            Ok(Ok(r)) => readers.push(Some(r)),
            e => { out.writer_err.push(format!("reader{ep}:{}", if e.is_err() { "conn" } else { "io" })); readers.push(None) }
        }
    }
    for (ep, c) in conns.iter().enumerate() {
        match c.datagram_writer().await {
            Ok(Ok(w)) => {
                for i in 0..n {
                    if w.send(&payload(ep, i)).is_ok() { out.accepted[ep] += 1; sent[ep].push(payload(ep, i)) }
                }
                // a datagram whose no-length frame fits the peer's limit but whose with-length frame does not:
                // whatever the writer answers, an ACCEPTED datagram must arrive (and not kill the connection)
                if limit <= 1200 {
                    let d: Vec<u8> = (0..limit as usize - 1).map(|k| (k as u64 * 7 + ep as u64) as u8).collect();
                    if w.send(&d).is_ok() { out.accepted[ep] += 1; out.near_limit_accepted[ep] = true; sent[ep].push(d) }
                }
            }
            Ok(Err(e)) => out.writer_err.push(format!("writer{ep}:io:{:?}", e.kind())),
            Err(e) => out.writer_err.push(format!("writer{ep}:{}", sim::err_kind(&e))),
        }
    }
    // read what arrives within 3 s virtual (loss-free, 5 ms one-way delay: ample)
    let deadline = tokio::time::Instant::now() + Duration::from_secs(3);
    for (ep, r) in readers.iter_mut().enumerate() {
        let Some(r) = r else { continue };
        let peer = 1 - ep;
        let mut next = 0usize; // in-order among those that arrive: the reads are a subsequence of what the peer accepted
        loop {
            match tokio::time::timeout_at(deadline, r.recv()).await {
                Ok(Ok(d)) => {
                    out.read[ep] += 1;
                    if !sent[peer].iter().any(|p| p[..] == d[..]) { out.bad_content += 1 }
                    else {
                        match sent[peer][next.min(sent[peer].len())..].iter().position(|p| p[..] == d[..]) {
                            Some(k) => next += k + 1,
                            None => out.out_of_order += 1,
                        }
                    }
                }
                _ => break,
            }
        }
    }
    let _ = cc.close("done", 0);
    out
}

fn run(o: &Opts) {
    let mut sink = Sink::new_with_stats(&o.out, &o.stats);
    sink.set_hang_secs(200);
    for id in 0..o.cases {
        if o.only_case.is_some_and(|c| c != id) { continue }
        let mut rng = Rng::new(o.seed ^ 0x19, id);
        let n = rng.range(1, 12);
        let limit = *rng.pick(&[1200u32, 1200, 65535, 300]);
        let size = rng.range(0, (limit.min(1100) as u64).saturating_sub(10)) as usize;
        sink.case(&id.to_string());
        sink.pending(&format!("case {id}"));
        let tap = PacketTap::new();
        let t2 = tap.clone();
        let res = sim::run_case(id, Duration::from_secs(100), move || case(n, size, limit, t2));
        for loc in &res.panics { sink.monitor_fail(&format!("panic:{loc}"), "a task panicked during the datagram exchange") }
        if res.wall_hang { sink.monitor_fail("hang:wall-clock", "datagram case did not finish in 100 s real time") }
        let Some(out) = res.result else { sink.line(&format!("dg - n={n} size={size} limit={limit}"), "no-result"); continue };
        let pk = tap.take();
        sink.branch(&format!("limit:{limit}"));
        for (ep, name) in ["client", "server"].iter().enumerate() {
            let peer = ["server", "client"][ep];
            let frames_sent = pk.iter().filter(|e| !e.rcvd && e.ep == *name).map(|e| e.frames.iter().filter(|f| f.contains("datagram")).count() as u64).sum::<u64>();
            let frames_rcvd = pk.iter().filter(|e| e.rcvd && e.ep == peer).map(|e| e.frames.iter().filter(|f| f.contains("datagram")).count() as u64).sum::<u64>();
            let read_by_peer = out.read[1 - ep];
            sink.line(&format!("dg {name} n={n} size={size} limit={limit} accepted={} frames_sent={frames_sent} frames_rcvd={frames_rcvd} read={read_by_peer} echo={}", out.accepted[ep], out.echo_ok as u8), "ok");
            if out.accepted[ep] > 0 { sink.nontrivial() }
            if out.accepted[ep] > 0 && out.echo_ok && frames_sent == 0 {
                sink.monitor_fail("datagram-never-offered:packages", &format!("{name}: {} datagrams accepted by DatagramWriter::send on an open, loss-free connection (stream echo on it works), 0 DATAGRAM frames in any packet it sent within 3 s virtual, {read_by_peer} read by the peer", out.accepted[ep]));
            } else if frames_sent > 0 && read_by_peer < out.accepted[ep] {
                sink.monitor_fail("datagram:lost-without-loss", &format!("{name}: {} accepted, {frames_sent} frames sent, {frames_rcvd} dispatched, only {read_by_peer} read on a loss-free network", out.accepted[ep]));
            }
        }
        if out.out_of_order > 0 { sink.monitor_fail("datagram:reordered-or-duplicated", &format!("{} datagrams read out of the order in which the peer's writer accepted them (loss-free, reorder-free network)", out.out_of_order)) }
        sink.branch(&format!("near-limit-accepted:{}", out.near_limit_accepted.iter().filter(|b| **b).count()));
        if out.bad_content > 0 { sink.monitor_fail("datagram:not-sent-content", &format!("{} datagrams read that the peer never sent", out.bad_content)) }
        if !out.writer_err.is_empty() { sink.monitor_fail("datagram:writer-unavailable", &format!("{:?}", out.writer_err)) }
        if !out.echo_ok { sink.monitor_fail("datagram:echo-failed", "the control stream echo on the same connection did not complete") }
    }
    sink.finish(&o.stats, "non-trivial = at least one datagram accepted by the writer");
}
