//! C17 — simulator leg (runs `c17_close`, `c17_idle`): closing a live connection ends every pending operation.
//!
//! `c17_close`: a real client/server pair with operations PARKED on both sides — accept_bi / accept_uni (nothing to accept),
//! open_uni against a peer limit of 0 streams, read on a stream the peer never writes, write + flush of 200 kB against a 4 kB
//! stream window the peer never opens, shutdown behind it — and `Connection::close` called at a seeded phase (right after
//! connect, 7 / 18 ms later = mid-handshake, after `handshaked()`, mid-transfer) by the client, the server, both at the same
//! instant, or two tasks of one side, optionally closing again "while closing".  Monitors (no model):
//!   pending_not_released:<op>:<closer|peer>   a parked operation is still pending 200 ms (closing side) / idle timeout + 3 s (peer) later
//!   late_op_not_failed:<op>                   an operation started after the close returned does not fail at once
//!   write_accepted_after_close                a write started after the close reports bytes accepted
//!   stream_emitted_after_close:<ep>           the closing endpoint's own trace shows a STREAM frame sent > 50 ms after it closed
//!   terminated_changes                        two reads of `terminated()` give different error kinds (state moved backwards)
//!   close_not_terminated                      `terminated()` of the closing side is not resolved 200 ms after close
//! `c17_idle`: a live, completely idle connection with asymmetric max_idle_timeout (client a, server b): both sides must report
//! termination not before min(a,b) after the last activity and by min(a,b) + 3 s: `idle:early:<ep>`, `idle:late:<ep>`.
//! Transcript: `close phase=<p> closer=<c> again=<0|1> => released=<n>/<m> late_ops=<k>` ; `idle a=<ms> b=<ms> => c=<ms|none> s=<ms|none>`.
use std::{sync::{Arc, Mutex}, time::Duration};

use dquic::prelude::*;
use tokio::{io::{AsyncReadExt, AsyncWriteExt}, time::Instant};

use crate::{
    common::{Opts, Rng, Sink},
    sim::{self, Adversary, Delivery, Dgram, Honest, PacketTap, Pair, PairCfg, WireLog},
};

pub const RUNS: &[(&str, fn(&Opts))] = &[("c17_close", run_close), ("c17_idle", run_idle)];

/// identity network until `cut` is set, then a black hole: the way to inject an ERROR (loss of the only path) at a chosen phase
struct Cuttable(Arc<std::sync::atomic::AtomicBool>);
impl Adversary for Cuttable {
    fn on_send(&mut self, _idx: u64, _now: Duration, d: &Dgram, log: &mut WireLog) -> Vec<Delivery> {
        if self.0.load(std::sync::atomic::Ordering::Relaxed) {
            log.bump("blackholed");
            vec![]
        } else {
            vec![Delivery { extra: Duration::ZERO, dgram: d.clone(), genuine: true }]
        }
    }
}

type Log = Arc<Mutex<Vec<(String, u64, String)>>>; // (op, virtual µs of completion, result)

fn park<F>(log: &Log, started: &Arc<Mutex<Vec<String>>>, t0: Instant, name: &str, f: F)
where
    F: std::future::Future<Output = String> + Send + 'static,
{
    let (log, name) = (log.clone(), name.to_string());
    started.lock().unwrap().push(name.clone());
    tokio::spawn(async move {
        let r = f.await;
        log.lock().unwrap().push((name, (Instant::now() - t0).as_micros() as u64, r));
    });
}

fn res<T, E: std::fmt::Debug>(r: Result<T, E>) -> String {
    match r { Ok(_) => "ok".into(), Err(e) => format!("err:{}", format!("{e:?}").chars().take(40).collect::<String>().replace(' ', "_")) }
}

struct CloseOut {
    started: Vec<String>,
    done: Vec<(String, u64, String)>,
    t_close_c: Option<u64>,
    t_close_s: Option<u64>,
    late: Vec<(String, String, u64)>, // (op, result, µs it took)
    term: Vec<(String, String)>,
    notes: Vec<String>,
    t0: Option<Instant>,
}

async fn close_case(phase: u8, closer: u8, again: bool, tap: Arc<PacketTap>) -> CloseOut {
    let idle = Duration::from_secs(5);
    let mut cfg = PairCfg::default().with_qlog(tap).idle_timeout(idle);
    cfg.server_params.set(ParameterId::InitialMaxStreamDataBidiRemote, 4096u32).expect("p");
    cfg.client_params.set(ParameterId::InitialMaxStreamsUni, 0u32).expect("p");
    let cut = Arc::new(std::sync::atomic::AtomicBool::new(false));
    let pair = Pair::build(Box::new(Cuttable(cut.clone())), cfg).await;
    let t0 = Instant::now();
    let log: Log = Arc::new(Mutex::new(vec![]));
    let started = Arc::new(Mutex::new(vec![]));
    let mut out = CloseOut { started: vec![], done: vec![], t_close_c: None, t_close_s: None, late: vec![], term: vec![], notes: vec![], t0: Some(t0) };
    let sconn: Arc<Mutex<Option<Connection>>> = Arc::new(Mutex::new(None));
    {
        let (listeners, log, started, sconn) = (pair.listeners.clone(), log.clone(), started.clone(), sconn.clone());
        tokio::spawn(async move {
            let Ok((c, ..)) = listeners.accept().await else { return };
            *sconn.lock().unwrap() = Some(c.clone());
            let c1 = c.clone();
            park(&log, &started, t0, "s:accept_uni", async move { res(c1.accept_uni_stream().await) });
            let c2 = c.clone();
            park(&log, &started, t0, "s:open_uni", async move { res(c2.open_uni_stream().await) });
            let (c3, log3, started3) = (c.clone(), log.clone(), started.clone());
            tokio::spawn(async move {
                // first bidi stream: accepted, never read (its reader is kept alive); then a second accept parks
                let first = c3.accept_bi_stream().await;
                let keep = first.ok();
                let c4 = c3.clone();
                park(&log3, &started3, t0, "s:accept_bi", async move { res(c4.accept_bi_stream().await) });
                std::future::pending::<()>().await;
                drop(keep);
            });
        });
    }
    let Ok(cc) = pair.connect().await else { out.notes.push("connect failed".into()); return out };
    {
        let c = cc.clone();
        park(&log, &started, t0, "c:accept_uni", async move { res(c.accept_uni_stream().await) });
        let c = cc.clone();
        park(&log, &started, t0, "c:accept_bi", async move { res(c.accept_bi_stream().await) });
        let (c, log2, started2) = (cc.clone(), log.clone(), started.clone());
        started.lock().unwrap().push("c:open_bi".into());
        let logo = log.clone();
        tokio::spawn(async move {
            let r = c.open_bi_stream().await;
            logo.lock().unwrap().push(("c:open_bi".into(), (Instant::now() - t0).as_micros() as u64, res(r.as_ref().map(|_| ()))));
            if let Ok(Some((_sid, (mut r, mut w)))) = r {
                park(&log2, &started2, t0, "c:read", async move { let mut b = [0u8; 64]; res(r.read(&mut b).await) });
                park(&log2, &started2, t0, "c:write+flush+shutdown", async move {
                    let data = vec![7u8; 200_000];
                    if let Err(e) = AsyncWriteExt::write_all(&mut w, &data).await { return format!("write:{}", res::<(), _>(Err(e))) }
                    if let Err(e) = w.flush().await { return format!("flush:{}", res::<(), _>(Err(e))) }
                    format!("shutdown:{}", res(w.shutdown().await))
                });
            }
        });
    }
    match phase {
        0 => {}
        1 => tokio::time::sleep(Duration::from_millis(7)).await,
        2 => tokio::time::sleep(Duration::from_millis(18)).await,
        3 => { let _ = tokio::time::timeout(Duration::from_secs(3), cc.handshaked()).await; }
        _ => { let _ = tokio::time::timeout(Duration::from_secs(3), cc.handshaked()).await; tokio::time::sleep(Duration::from_millis(300)).await }
    }
    let now_us = || (Instant::now() - t0).as_micros() as u64;
    let sc = sconn.lock().unwrap().clone();
    if closer == 4 {
        // error injection: from now on nothing is delivered in either direction; nobody calls close
        cut.store(true, std::sync::atomic::Ordering::Relaxed);
        out.notes.push(format!("cut at {} us", now_us()));
        tokio::time::sleep(idle + Duration::from_secs(3)).await;
        for (ep, conn) in [("c", Some(cc.clone())), ("s", sc.clone())] {
            let Some(conn) = conn else { continue };
            let k = tokio::time::timeout(Duration::from_millis(10), conn.terminated()).await.map(|e| sim::err_kind(&e)).unwrap_or("pending".into());
            out.term.push((format!("{ep}:cut"), k));
            let r = tokio::time::timeout(Duration::from_millis(100), conn.open_bi_stream()).await;
            let rs = match r { Err(_) => "pending".to_string(), Ok(Ok(_)) => "ok".into(), Ok(Err(_)) => "err".into() };
            out.late.push((format!("{ep}:open_bi"), rs, 0));
        }
        out.started = started.lock().unwrap().clone();
        out.done = log.lock().unwrap().clone();
        return out;
    }
    if closer == 1 || closer == 2 {
        if let Some(s) = &sc { let _ = s.close("server closes", 7); out.t_close_s = Some(now_us()) } else { out.notes.push("server had no connection yet".into()) }
    }
    if closer == 0 || closer == 2 || closer == 3 || (out.t_close_s.is_none()) {
        if closer == 3 {
            let c2 = cc.clone();
            let h = tokio::spawn(async move { let _ = c2.close("client closes (task 2)", 9); });
            let _ = cc.close("client closes", 8);
            let _ = h.await;
        } else {
            let _ = cc.close("client closes", 8);
        }
        out.t_close_c = Some(now_us());
    }
    if again {
        tokio::time::sleep(Duration::from_millis(1)).await;
        let _ = cc.close("again", 1);
        if let Some(s) = &sc { let _ = s.close("again", 1); }
    }
    // operations started after the close returned
    for (ep, conn, closed) in [("c", Some(cc.clone()), out.t_close_c.is_some()), ("s", sc.clone(), out.t_close_s.is_some())] {
        let (Some(conn), true) = (conn, closed) else { continue };
        let t = Instant::now();
        let r = tokio::time::timeout(Duration::from_millis(100), conn.open_bi_stream()).await;
        let rs = match r { Err(_) => "pending".to_string(), Ok(Ok(_)) => "ok".into(), Ok(Err(_)) => "err".into() };
        out.late.push((format!("{ep}:open_bi"), rs, (Instant::now() - t).as_micros() as u64));
        let t = Instant::now();
        let r = tokio::time::timeout(Duration::from_millis(100), conn.accept_uni_stream()).await;
        let rs = match r { Err(_) => "pending".to_string(), Ok(Ok(_)) => "ok".into(), Ok(Err(_)) => "err".into() };
        out.late.push((format!("{ep}:accept_uni"), rs, (Instant::now() - t).as_micros() as u64));
        let k1 = tokio::time::timeout(Duration::from_millis(200), conn.terminated()).await.map(|e| sim::err_kind(&e)).unwrap_or("pending".into());
        let k2 = tokio::time::timeout(Duration::from_millis(10), conn.terminated()).await.map(|e| sim::err_kind(&e)).unwrap_or("pending".into());
        out.term.push((format!("{ep}:1"), k1));
        out.term.push((format!("{ep}:2"), k2));
    }
    // give the peer idle timeout + 3 s
    tokio::time::sleep(idle + Duration::from_secs(3)).await;
    out.started = started.lock().unwrap().clone();
    out.done = log.lock().unwrap().clone();
    out
}

fn run_close(o: &Opts) {
    let mut sink = Sink::new_with_stats(&o.out, &o.stats);
    sink.set_hang_secs(200);
    let ids: Vec<u64> = match o.only_case { Some(i) => vec![i], None => (0..o.cases).collect() };
    let seed = o.seed;
    for chunk in ids.chunks(6) {
        sink.pending(&format!("cases {chunk:?}"));
        let hs: Vec<_> = chunk.iter().map(|&id| std::thread::spawn(move || {
            // the first 40 cases enumerate phase × closer × again, later ones are seeded
            let mut rng = Rng::new(seed ^ 0x17, id);
            let (phase, closer, again) = if id < 40 { ((id % 5) as u8, ((id / 5) % 4) as u8, id >= 20) } else if id < 45 { ((id % 5) as u8, 4, false) } else { (rng.below(5) as u8, rng.below(5) as u8, rng.chance(1, 2)) };
            let tap = PacketTap::new();
            let t2 = tap.clone();
            let res = sim::run_case(id, Duration::from_secs(100), move || close_case(phase, closer, again, t2));
            (id, phase, closer, again, res, tap.take())
        })).collect();
        for h in hs {
            let (id, phase, closer, again, res, pk) = h.join().expect("case thread");
            sink.case(&id.to_string());
            let cname = ["client", "server", "both", "client-two-tasks", "path-cut"][closer as usize];
            sink.branch(&format!("phase:{phase}"));
            sink.branch(&format!("closer:{cname}"));
            for loc in &res.panics { sink.monitor_fail(&format!("panic:{loc}"), &format!("a task panicked at {loc} (close phase {phase} by {cname})")) }
            if res.wall_hang { sink.monitor_fail("hang:wall-clock", &format!("close case phase {phase} by {cname} did not finish in 100 s real time")) }
            let op = format!("close phase={phase} closer={cname} again={}", again as u8);
            let Some(out) = res.result else { sink.line(&op, "no-result"); continue };
            let mut released = 0;
            for name in &out.started {
                let ep = &name[..1];
                let t_local = if ep == "c" { out.t_close_c } else { out.t_close_s };
                let t_any = out.t_close_c.into_iter().chain(out.t_close_s).min().unwrap_or(0);
                match out.done.iter().find(|d| &d.0 == name) {
                    None => {
                        let side = if t_local.is_some() { "closer" } else { "peer" };
                        sink.monitor_fail(&format!("pending_not_released:{}:{side}", &name[2..]), &format!("{name} still pending {} s after the connection was closed (phase {phase}, closed by {cname}{})", 8, if again { ", closed again" } else { "" }));
                    }
                    Some((_, t, r)) => {
                        released += 1;
                        if let Some(tl) = t_local {
                            if *t > tl + 200_000 {
                                sink.monitor_fail(&format!("pending_not_released:{}:closer", &name[2..]), &format!("{name} completed only {} ms after its own side closed (phase {phase}, {cname}): {r}", (*t - tl) / 1000));
                            }
                        }
                        // nothing may SUCCEED after the close except operations that were already complete
                        if *t > t_any + 1_000 && r.ends_with("ok") && !name.contains("open_bi") {
                            sink.monitor_fail(&format!("completed_ok_after_close:{}", &name[2..]), &format!("{name} returned {r} {} ms after the close (phase {phase}, {cname})", (*t - t_any) / 1000));
                        }
                        sink.branch(&format!("released:{}", &name[2..]));
                    }
                }
            }
            for (name, r, us) in &out.late {
                if r != "err" {
                    sink.monitor_fail(&format!("late_op_not_failed:{}", &name[2..]), &format!("{name} started after close() returned is {r} after {us} µs (phase {phase}, {cname})"));
                }
            }
            if closer == 4 {
                for (who, k) in &out.term {
                    if k == "pending" { sink.monitor_fail(&format!("error_not_reported:{}", &who[..1]), &format!("the only path was cut at phase {phase}; {} s later {who} has not reported termination (idle timeout 5 s)", 8)) }
                }
            }
            for pair in out.term.chunks(2) {
                if closer == 4 { break }
                if pair[0].1 == "pending" { sink.monitor_fail("close_not_terminated", &format!("terminated() of {} not resolved 200 ms after close (phase {phase}, {cname})", pair[0].0)) }
                else if pair.len() == 2 && pair[0].1 != pair[1].1 { sink.monitor_fail("terminated_changes", &format!("{:?}", pair)) }
            }
            for (ep, name, tc) in [("c", "client", out.t_close_c), ("s", "server", out.t_close_s)] {
                let Some(tc) = tc else { continue };
                let Some(t0) = out.t0 else { continue };
                let us = |e: &sim::PktEv| e.at.checked_duration_since(t0).map(|d| d.as_micros() as u64).unwrap_or(0);
                if let Some(e) = pk.iter().find(|e| !e.rcvd && e.ep == name && us(e) > tc + 50_000 && e.frames.iter().any(|f| f == "stream")) {
                    sink.monitor_fail(&format!("stream_emitted_after_close:{ep}"), &format!("{name} sent a {} packet with a STREAM frame {} ms after it closed (phase {phase}, {cname})", e.ty, (us(e) - tc) / 1000));
                }
            }
            if !out.started.is_empty() { sink.nontrivial() }
            sink.line(&op, &format!("released={released}/{} late_ops={} notes={}", out.started.len(), out.late.len(), out.notes.len()));
        }
    }
    sink.finish(&o.stats, "non-trivial = at least one operation was parked when the connection was closed");
}

async fn idle_case(a: Duration, b: Duration) -> (Option<u64>, Option<u64>, u64) {
    let mut cfg = PairCfg::default();
    cfg.client_params.set(ParameterId::MaxIdleTimeout, a).expect("p");
    cfg.server_params.set(ParameterId::MaxIdleTimeout, b).expect("p");
    let pair = Pair::build(Box::new(Honest), cfg).await;
    pair.net.record(true);
    let listeners = pair.listeners.clone();
    let srv = tokio::spawn(async move { listeners.accept().await.ok().map(|(c, ..)| c) });
    let Ok(cc) = pair.connect().await else { return (None, None, 0) };
    let _ = tokio::time::timeout(Duration::from_secs(3), cc.handshaked()).await;
    let Ok(Ok(Some(sc))) = tokio::time::timeout(Duration::from_secs(3), srv).await else { return (None, None, 0) };
    // one small exchange, then silence
    if let Ok(Some((_sid, (_r, mut w)))) = cc.open_bi_stream().await {
        let _ = AsyncWriteExt::write_all(&mut w, b"x").await;
        let _ = w.shutdown().await;
    }
    let t0 = Instant::now();
    let m = a.min(b);
    let bound = m + Duration::from_secs(3) + Duration::from_secs(2);
    let (c2, s2) = (cc.clone(), sc.clone());
    let tc = tokio::spawn(async move { let _ = c2.terminated().await; (Instant::now() - t0).as_millis() as u64 });
    let ts = tokio::spawn(async move { let _ = s2.terminated().await; (Instant::now() - t0).as_millis() as u64 });
    tokio::time::sleep(bound).await;
    let c = if tc.is_finished() { tc.await.ok() } else { None };
    let s = if ts.is_finished() { ts.await.ok() } else { None };
    // last datagram that carried anything, relative to t0 (activity after t0 legitimately postpones the timeout)
    let last = pair.net.with_log(|l| l.delivered.iter().map(|r| r.t_us).max().unwrap_or(0));
    (c, s, last)
}

fn run_idle(o: &Opts) {
    let mut sink = Sink::new_with_stats(&o.out, &o.stats);
    sink.set_hang_secs(200);
    for id in 0..o.cases {
        if o.only_case.is_some_and(|c| c != id) { continue }
        let mut rng = Rng::new(o.seed ^ 0x171, id);
        let a = Duration::from_millis(*rng.pick(&[1000u64, 2000, 3500, 6000]));
        let b = Duration::from_millis(*rng.pick(&[1000u64, 2500, 4000, 9000]));
        sink.case(&id.to_string());
        sink.pending(&format!("idle {id}"));
        let res = sim::run_case(id, Duration::from_secs(100), move || idle_case(a, b));
        for loc in &res.panics { sink.monitor_fail(&format!("panic:{loc}"), "a task panicked on an idle connection") }
        let Some((c, s, _last)) = res.result else { sink.line(&format!("idle a={} b={}", a.as_millis(), b.as_millis()), "no-result"); continue };
        let m = a.min(b).as_millis() as u64;
        sink.nontrivial();
        sink.branch(&format!("min:{m}"));
        for (ep, t) in [("client", c), ("server", s)] {
            match t {
                None => sink.monitor_fail(&format!("idle:late:{ep}"), &format!("idle connection (max_idle_timeout client {} ms, server {} ms): {ep} not terminated {} ms after the last application activity", a.as_millis(), b.as_millis(), m + 5000)),
                // t is measured from the end of the last application exchange; acknowledgements may follow for a few 10 ms
                Some(t) if t + 100 < m => sink.monitor_fail(&format!("idle:early:{ep}"), &format!("{ep} terminated {t} ms after the last activity, negotiated idle timeout is {m} ms")),
                Some(t) if t > m + 3000 => sink.monitor_fail(&format!("idle:late:{ep}"), &format!("{ep} terminated {t} ms after the last activity, negotiated idle timeout is {m} ms (+3 s slack)")),
                _ => {}
            }
        }
        sink.line(&format!("idle a={} b={}", a.as_millis(), b.as_millis()), &format!("c={} s={}", c.map(|t| t.to_string()).unwrap_or("none".into()), s.map(|t| t.to_string()).unwrap_or("none".into())));
    }
    sink.finish(&o.stats, "every case");
}
