//! C20 — whole-connection leg of the observational-purity clause (run `c20_e2e`).
//!
//! One simulator case (C02's workload: 1–3 streams over a REAL dquic client/server pair, in-memory network, virtual
//! time; profile `clean` or `lossy`, same seeds) is executed with different qlog collectors installed on BOTH endpoints:
//!   none         the builders' default (`handy::NoopLogger`: span with `NoopExporter`, nothing is built)
//!   control      `none` again (detects a workload that is not deterministic by itself)
//!   capture      every `Event` is stored; `filter_raw_data = false`
//!   raw          capturing, `filter_raw_data = true`
//!   filter       `filter_event` answers false for everything (and must never receive an event)
//!   filter-half  `filter_event` true only for schemes containing "packet"
//! and the APPLICATION-level transcripts (`open/accept/w/sd/fin/r/eof/serr/close/term`, C02's grammar) are compared byte
//! for byte with the `none` run — with the virtual timestamps when the control run reproduces them, without otherwise.
//! Every captured event is validated (model independent): mandatory qlog keys, `from_str(to_string(e)) == e`, raw payload
//! only with `filter_raw_data`, `group_id` inherited from the trace span.
//!
//!   seq-*        FAILING storages built from the repo's own `handy::LegacySeqLogger` (see harness20/src/c20fail.rs): directory
//!                missing / a regular file / read-only / removed after the first trace / fine (sanity), sink that refuses writes
//!                or flushes.  Monitors: no panic unwinds out of `QLog::new_trace` / `ExportEvent::emit` into the task that builds
//!                the connection or emits (`panic:reaches-caller:*`); a panic contained in the logger's own task is reported
//!                separately (`logger-task-panic:<file>`); the application transcript equals the run without a collector.
//!
//! Transcript (Drv/C20.lean `pureModel`):  `workload e2e-<profile> seed=<s> case=<i> => ok` ; `pure e2e-<profile> <cfg> => same|diff`
use std::{
    sync::{Arc, Mutex},
    time::Duration,
};

use dquic::qevent::{
    self, Event, GroupID, VantagePointType,
    telemetry::{ExportEvent, QLog, Span},
};

use crate::{
    registry::c02,
    common::{Opts, Rng, Sink},
    sim::{self, PairCfg, Profile},
};

#[path = "../../harness20/src/c20fail.rs"]
mod c20fail;

pub const RUNS: &[(&str, fn(&Opts))] = &[("c20_e2e", run)];

#[derive(Clone, Copy, PartialEq, Debug)]
enum Mode {
    Capture,
    Raw,
    FilterAll,
    FilterHalf,
}

struct Exp {
    mode: Mode,
    events: Arc<Mutex<Vec<Event>>>,
}

impl ExportEvent for Exp {
    fn emit(&self, event: Event) {
        self.events.lock().unwrap_or_else(|e| e.into_inner()).push(event);
    }
    fn filter_event(&self, scheme: &'static str) -> bool {
        match self.mode {
            Mode::Capture | Mode::Raw => true,
            Mode::FilterAll => false,
            Mode::FilterHalf => scheme.contains("packet"),
        }
    }
    fn filter_raw_data(&self) -> bool {
        self.mode == Mode::Raw
    }
}

struct Log {
    mode: Mode,
    events: Arc<Mutex<Vec<Event>>>,
    traces: Arc<Mutex<Vec<String>>>,
}

impl QLog for Log {
    fn new_trace(&self, vantage_point: VantagePointType, group_id: GroupID) -> Span {
        // what `span!(Arc::new(exporter), group_id = group_id)` expands to (qevent/src/telemetry/macros.rs),
        // as handy::LegacySeqLogger::new_trace does
        self.traces.lock().unwrap().push(format!("{vantage_point}:{group_id}"));
        let mut fields = qevent::telemetry::macro_support::current_span_fields();
        fields.insert("group_id", qevent::telemetry::macro_support::to_value(group_id));
        qevent::telemetry::macro_support::new_span(Arc::new(Exp { mode: self.mode, events: self.events.clone() }), fields)
    }
}

fn has_raw_data(v: &serde_json::Value) -> bool {
    match v {
        serde_json::Value::Object(m) => m.iter().any(|(k, x)| (k == "raw" && x.get("data").is_some()) || has_raw_data(x)),
        serde_json::Value::Array(a) => a.iter().any(has_raw_data),
        _ => false,
    }
}

struct RunOut {
    aborted: bool,
    with_time: Vec<String>,
    no_time: Vec<String>,
    summary: String,
    events: Vec<Event>,
    traces: Vec<String>,
    fails: Vec<(String, String)>,
    panics: Vec<String>,
    hang: bool,
}

fn one(seed: u64, id: u64, profile: Profile, mode: Option<Mode>, thorough: bool) -> RunOut {
    one_with(seed, id, profile, mode, None, thorough)
}

fn one_with(seed: u64, id: u64, profile: Profile, mode: Option<Mode>, failing: Option<Arc<c20fail::Guarded>>, thorough: bool) -> RunOut {
    let mut rng = Rng::new(seed, id);
    let plans = c02::plan_streams(&mut rng, thorough);
    let events = Arc::new(Mutex::new(vec![]));
    let traces = Arc::new(Mutex::new(vec![]));
    let cfg = match (mode, failing) {
        (_, Some(g)) => PairCfg::default().with_qlog(g),
        (None, None) => PairCfg::default(),
        (Some(m), None) => PairCfg::default().with_qlog(Arc::new(Log { mode: m, events: events.clone(), traces: traces.clone() })),
    };
    let adv = Rng::new(seed ^ 0xADD, id);
    let out = sim::run_case(id, Duration::from_secs(120), move || {
        c02::one_case_cfg(profile, adv, plans, Duration::from_secs(10), Duration::from_secs(120), cfg)
    });
    let mut r = RunOut { aborted: out.result.is_none(), with_time: vec![], no_time: vec![], summary: String::new(), events: vec![], traces: vec![], fails: vec![], panics: out.panics.clone(), hang: out.wall_hang };
    if let Some(res) = out.result {
        for ev in &res.evs {
            r.with_time.push(format!("{} {} {} => {}", ev.t_us, ev.ep, ev.op, ev.obs));
            r.no_time.push(format!("{} {} => {}", ev.ep, ev.op, ev.obs));
        }
        r.summary = format!("{:?}", c02::summary(&res));
        r.fails = res.fails.clone();
    }
    r.events = std::mem::take(&mut *events.lock().unwrap_or_else(|e| e.into_inner()));
    r.traces = traces.lock().unwrap().clone();
    r
}

fn first_diff(a: &[String], b: &[String]) -> String {
    for (i, (x, y)) in a.iter().zip(b.iter()).enumerate() {
        if x != y {
            return format!("line {i}: `{x}` vs `{y}`");
        }
    }
    format!("lengths {} vs {}", a.len(), b.len())
}

fn run(o: &Opts) {
    let mut sink = Sink::new_with_stats(&o.out, &o.stats);
    sink.set_hang_secs(300);
    let thorough = o.thorough();
    let mut total_events = 0u64;
    let mut names = std::collections::BTreeMap::<String, u64>::new();
    for id in 0..o.cases {
        if let Some(c) = o.only_case { if c != id { continue; } }
        let profile = if id % 2 == 0 {
            Profile { name: "clean", bounded: true, ..Default::default() }
        } else {
            Profile { name: "lossy", drop: 150, delay: 150, dup: 50, fault_window: Some(120), bounded: true, ..Default::default() }
        };
        let w = format!("e2e-{}", profile.name);
        sink.case(&id.to_string());
        sink.pending(&format!("workload {w} case {id}"));
        let base = one(o.seed, id, profile.clone(), None, thorough);
        let control = one(o.seed, id, profile.clone(), None, thorough);
        sink.line(&format!("workload {w} seed={} case={id}", o.seed), if base.hang { "hang" } else { "ok" });
        for (k, what) in &base.fails {
            sink.note("c02_monitor_in_base_run", serde_json::json!(format!("{k}: {what}")));
        }
        // strongest level at which the workload reproduces itself
        let level = if base.with_time == control.with_time && !base.with_time.is_empty() { 2 } else if base.no_time == control.no_time && !base.no_time.is_empty() { 1 } else if base.summary == control.summary && !base.summary.is_empty() { 0 } else { 99 };
        sink.branch(&format!("determinism-level:{}", match level { 2 => "events+virtual-time", 1 => "events", 0 => "canonical-summary", _ => "none" }));
        if level == 99 {
            sink.line(&format!("pure {w} control"), "diff");
            sink.monitor_fail(&format!("harness:nondeterministic-workload:{w}"), &format!("two runs without a collector differ even in the canonical summary: {}", first_diff(&base.no_time, &control.no_time)));
            continue;
        }
        sink.line(&format!("pure {w} control"), "same");
        sink.nontrivial();
        for (cfgname, mode) in [("capture", Mode::Capture), ("raw", Mode::Raw), ("filter", Mode::FilterAll), ("filter-half", Mode::FilterHalf)] {
            sink.pending(&format!("pure {w} {cfgname}"));
            let r = one(o.seed, id, profile.clone(), Some(mode), thorough);
            for loc in &r.panics {
                sink.monitor_fail(&format!("panic:{loc}"), &format!("a task panicked at {loc} with the {cfgname} collector installed"));
            }
            let strict = |x: &RunOut| match level { 2 => x.with_time == base.with_time, 1 => x.no_time == base.no_time, _ => x.summary == base.summary };
            let mut same = strict(&r);
            if !same && level > 0 {
                // The workload has residual scheduling nondeterminism under machine load (two collector-free runs can agree
                // event for event while a third differs in a read-chunk boundary): a strict mismatch is re-tried once, and
                // only a difference in the CANONICAL SUMMARY (content digests, EOF / error outcomes, termination reasons)
                // is reported as a purity violation — see docs/C20.md, Corrections.
                let r2 = one(o.seed, id, profile.clone(), Some(mode), thorough);
                if strict(&r2) { same = true; sink.branch("purity:strict-mismatch:retry-agrees"); }
                else if r.summary == base.summary && r2.summary == base.summary { same = true; sink.branch("purity:strict-mismatch:summary-same"); }
            }
            sink.line(&format!("pure {w} {cfgname}"), if same { "same" } else { "diff" });
            if !same {
                let d = match level { 2 => first_diff(&base.with_time, &r.with_time), 1 => first_diff(&base.no_time, &r.no_time), _ => format!("{} vs {}", base.summary, r.summary) };
                sink.monitor_fail(&format!("purity:{w}:{cfgname}"), &format!("application transcript differs from the run without a collector: {d} (canonical summary: {} vs {})", base.summary, r.summary));
            }
            if r.traces.len() != 2 {
                sink.monitor_fail(&format!("traces:{cfgname}"), &format!("expected one trace per endpoint, new_trace was called for {:?}", r.traces));
            }
            if mode == Mode::FilterAll && !r.events.is_empty() {
                sink.monitor_fail("filter:event-emitted", &format!("{} events reached an exporter whose filter_event is false", r.events.len()));
            }
            for e in &r.events {
                let js = serde_json::to_string(e).unwrap();
                let v: serde_json::Value = serde_json::from_str(&js).unwrap();
                let name = v.get("name").and_then(|x| x.as_str()).unwrap_or("?").to_string();
                if mode == Mode::Capture {
                    *names.entry(name.clone()).or_insert(0) += 1;
                    total_events += 1;
                }
                if !(v.get("time").map(|t| t.is_number()).unwrap_or(false) && v.get("name").map(|t| t.is_string()).unwrap_or(false) && v.get("data").map(|t| t.is_object()).unwrap_or(false)) {
                    sink.monitor_fail(&format!("mandatory:{name}"), &format!("event lacks time/name/data: {js}"));
                }
                if v.get("group_id").and_then(|g| g.as_str()).is_none() {
                    sink.monitor_fail(&format!("group-id-missing:{name}"), &format!("event without the trace's group_id: {js}"));
                }
                match serde_json::from_str::<Event>(&js) {
                    Ok(e2) if e2 == *e => {}
                    Ok(_) => sink.monitor_fail(&format!("roundtrip:different-value:{name}"), &format!("from_str(to_string(e)) != e: {js}")),
                    Err(err) => sink.monitor_fail(&format!("roundtrip:error:{name}"), &format!("from_str(to_string(e)) fails ({err}): {js}")),
                }
                if mode == Mode::FilterHalf && !name.contains("packet") {
                    sink.monitor_fail(&format!("filter:half:{name}"), "an event whose scheme the exporter filters out was emitted");
                }
                if mode != Mode::Raw && has_raw_data(&v) {
                    sink.monitor_fail(&format!("rawdata-leak:{name}"), &format!("raw payload logged although filter_raw_data is false: {js}"));
                }
            }
            if mode == Mode::Raw {
                sink.branch(&format!("raw-events-with-payload:{}", r.events.iter().filter(|e| has_raw_data(&serde_json::to_value(e).unwrap())).count().min(1)));
            }
        }
        // failing storages / sinks of the repo's own sequential logger
        for g in c20fail::failing_configs(&c20fail::scratch(&format!("e2e-{id}"))) {
            let cfgname = g.name;
            sink.pending(&format!("pure {w} {cfgname}"));
            let before = sim::panics_of(id).len();
            let r = one_with(o.seed, id, profile.clone(), None, Some(g.clone()), thorough);
            let new_panics: Vec<String> = r.panics.iter().skip(before).cloned().collect();
            let caught = g.caught.lock().unwrap_or_else(|e| e.into_inner()).clone();
            // The repo's file-backed loggers do their I/O on tokio's blocking pool (real threads): when a blocking
            // task finishes is wall-clock dependent even under the paused clock, which moves task wake-ups and hence
            // read-chunk boundaries and virtual timestamps.  That is scheduling noise, not application-visible
            // behaviour in the property's sense; these configurations are compared on the canonical summary
            // (per-stream content digests, EOF / error outcomes, termination reasons) — see docs/C20.md, Corrections.
            let same = !r.aborted && r.summary == base.summary;
            sink.line(&format!("pure {w} {cfgname}"), if same { "same" } else { "diff" });
            sink.branch(&format!("failing:{cfgname}:{}", if new_panics.is_empty() { "no-panic" } else if caught.is_empty() { "panic-contained-in-logger-task" } else { "panic-in-caller" }));
            if !caught.is_empty() {
                sink.monitor_fail(
                    &format!("panic:reaches-caller:{}:{}", caught[0], new_panics.first().map(|l| c20fail::site_file(l)).unwrap_or_default()),
                    &format!("collector {cfgname}: a panic unwound out of QLog::{} into the task that builds the connection / emits events (panics seen by the hook: {:?})", caught[0], new_panics),
                );
            } else {
                for loc in &new_panics {
                    sink.monitor_fail(
                        &format!("logger-task-panic:{}", c20fail::site_file(loc)),
                        &format!("collector {cfgname}: panic at {loc}, contained in a task the logger spawned for itself (the trace is lost, the connection is not affected)"),
                    );
                }
            }
            if r.aborted {
                sink.monitor_fail(&format!("panic:case-aborted:{cfgname}"), "the case's main future (client side: connect / application) panicked");
            }
            if !same {
                let d = if r.aborted { "case aborted".to_string() } else { format!("{} vs {}", base.summary, r.summary) };
                sink.monitor_fail(&format!("purity:{w}:{cfgname}"), &format!("application transcript differs from the run without a collector: {d}"));
            }
        }
        let _ = std::fs::remove_dir_all(c20fail::scratch(&format!("e2e-{id}")));
    }
    for (n, c) in &names {
        sink.branch(&format!("event:{n}"));
        sink.note(&format!("events:{n}"), serde_json::json!(c));
    }
    sink.note("captured_events", serde_json::json!(total_events));
    if total_events == 0 && o.only_case.is_none() && o.cases > 0 {
        sink.monitor_fail("purity:no-events", "no event was captured over the whole run: the leg would be vacuous");
    }
    sink.finish(&o.stats, "control run reproduces the base run");
}
