//! C02 — a connection survives an adversarial network without corrupting data.
//!
//! Runs (each case = one seeded fault schedule × one seeded workload on a REAL dquic client/server pair,
//! in-memory network, virtual time):
//!   c02_net      mixed fault profiles (bounded and unbounded), monitors (a)–(d)
//!   c02_inject   inject-only profiles: every original datagram is delivered untouched, the adversary only
//!                ADDS bit-flipped copies / garbage with a plausible header / replays; monitor (e)
//!
//! Transcript grammar (validated by lean/GmQuic/Drv/C02.lean against Model/Net's application projection):
//!   cfg <profile> bounded=<0|1>                    => ok
//!   open <ep> <sid> <key> | accept <ep> <sid>      => ok
//!   w <ep> <sid> <n>                               => ok            (n more bytes of gen_bytes(key) accepted by the writer)
//!   sd <ep> <sid>                                  => ok            (shutdown requested: no write is accepted afterwards)
//!   fin <ep> <sid>                                 => ok            (shutdown returned Ok: data and FIN acknowledged)
//!   r <ep> <sid> <n>                               => a=<a> s=<s>   (cumulative Adler-style sums of all bytes read so far)
//!   eof <ep> <sid>                                 => ok
//!   serr <ep> <sid> <op>                           => <kind>        (a stream operation failed)
//!   close <ep>                                     => ok            (application close)
//!   term <ep>                                      => <kind>        (Connection::terminated resolved)
//!   end                                            => complete=<0|1> …wire counters…
use std::{sync::Arc, time::Duration};

use dquic::prelude::*;
use tokio::io::{AsyncReadExt, AsyncWriteExt};

use crate::{
    common::{Opts, Rng, Sink},
    sim::{self, FaultAdversary, History, Pair, PairCfg, Profile},
};

pub const RUNS: &[(&str, fn(&Opts))] = &[("c02_net", run_net), ("c02_inject", run_inject)];

// ---------------------------------------------------------------------------------------------
// workload
// ---------------------------------------------------------------------------------------------

/// Byte `i` of the canonical content of a stream with key `key` (mirrored in Model/Net.lean `genByte`).
pub fn gen_byte(key: u64, i: u64) -> u8 {
    ((i * 131 + key * 7 + (i / 256) * 31 + (i / 65536) * 17) % 251) as u8
}
pub fn gen_bytes(key: u64, off: u64, n: usize) -> Vec<u8> {
    (0..n as u64).map(|j| gen_byte(key, off + j)).collect()
}
#[derive(Clone, Copy, Default)]
struct Sums {
    a: u64,
    s: u64,
}
impl Sums {
    fn new() -> Self {
        Sums { a: 1, s: 0 }
    }
    fn feed(&mut self, bs: &[u8]) {
        for b in bs {
            self.a = (self.a + *b as u64) % 65521;
            self.s = (self.s + self.a) % 65521;
        }
    }
}

#[derive(Clone, Copy, Debug, PartialEq)]
pub(crate) enum Kind {
    BidiEcho,
    UniC2S,
    UniS2C,
}

#[derive(Clone, Debug)]
pub(crate) struct Plan {
    pub(crate) kind: Kind,
    pub(crate) sid: u64,
    pub(crate) key: u64,
    pub(crate) len: usize,
    chunks: Vec<usize>,
    read_buf: usize,
    /// the reader sleeps this long (virtual) after every read: a slow consumer, so that the sender runs into the
    /// flow-control limits and *_BLOCKED frames are sent (0 = reads as fast as data arrives; `c02_small` only)
    pub(crate) read_pause_ms: u64,
}

/// One planned stream of a given kind / id / length (run `c02_small`; `plan_streams` keeps its own draw sequence).
pub(crate) fn plan_one(rng: &mut Rng, kind: Kind, sid: u64, len: usize, read_bufs: &[usize], read_pause_ms: u64) -> Plan {
    let mut chunks = vec![];
    let mut left = len;
    let style = rng.below(3);
    while left > 0 {
        let c = match style {
            0 => rng.range(1, 700),
            1 => rng.range(1, 5000),
            _ => rng.range(1, 70_000),
        } as usize;
        let c = c.min(left);
        chunks.push(c);
        left -= c;
        if chunks.len() > 300 {
            chunks.push(left);
            left = 0;
        }
    }
    chunks.retain(|c| *c > 0);
    Plan { kind, sid, key: rng.below(1000), len, chunks, read_buf: *rng.pick(read_bufs), read_pause_ms }
}

pub(crate) fn plan_streams(rng: &mut Rng, thorough: bool) -> Vec<Plan> {
    let n = rng.range(1, 3);
    let (mut nb, mut nc, mut ns) = (0u64, 0u64, 0u64);
    let mut v = vec![];
    for _ in 0..n {
        let kind = *rng.pick(&[Kind::BidiEcho, Kind::BidiEcho, Kind::UniC2S, Kind::UniS2C]);
        let sid = match kind {
            Kind::BidiEcho => { nb += 1; (nb - 1) * 4 }
            Kind::UniC2S => { nc += 1; (nc - 1) * 4 + 2 }
            Kind::UniS2C => { ns += 1; (ns - 1) * 4 + 3 }
        };
        let max = if thorough { 200_000 } else { 60_000 };
        let len = match rng.below(6) {
            0 => 0,
            1 => rng.range(1, 100) as usize,
            2 => rng.range(1000, 1500) as usize,
            3 => rng.range(1, max) as usize,
            _ => rng.range(1, max / 4) as usize,
        };
        let mut chunks = vec![];
        let mut left = len;
        let style = rng.below(3);
        while left > 0 {
            let c = match style {
                0 => rng.range(1, 64),
                1 => rng.range(1, 2000),
                _ => rng.range(1, 40_000),
            } as usize;
            let c = c.min(left);
            chunks.push(c);
            left -= c;
            if chunks.len() > 400 {
                chunks.push(left);
                left = 0;
            }
        }
        chunks.retain(|c| *c > 0);
        v.push(Plan { kind, sid, key: rng.below(1000), len, chunks, read_buf: *rng.pick(&[1usize, 100, 1500, 8192, 65536]), read_pause_ms: 0 });
    }
    v
}

fn sid_num(sid: StreamId) -> u64 {
    u64::from(sid)
}

#[derive(Default)]
struct Check {
    /// monitor failures found while running (key, what)
    fails: Vec<(String, String)>,
    /// number of stream directions fully received (EOF seen with exactly the expected bytes)
    complete_dirs: u64,
}
type Shared = Arc<std::sync::Mutex<Check>>;

fn fail(sh: &Shared, key: &str, what: String) {
    sh.lock().unwrap().fails.push((key.to_string(), what));
}

/// Write `len` bytes of gen_bytes(key) in the planned chunking, then shutdown.  Logs `w`/`fin`/`serr`.
async fn write_all(h: &History, ep: &'static str, sid: u64, mut w: StreamWriter, plan: &Plan) -> bool {
    let mut off = 0u64;
    for c in &plan.chunks {
        let data = gen_bytes(plan.key, off, *c);
        let mut done = 0;
        while done < data.len() {
            match AsyncWriteExt::write(&mut w, &data[done..]).await {
                Ok(0) => {
                    h.push(ep, format!("serr {ep} {sid} w"), "io:WriteZero".into());
                    return false;
                }
                Ok(n) => {
                    h.push(ep, format!("w {ep} {sid} {n}"), "ok".into());
                    done += n;
                    off += n as u64;
                }
                Err(e) => {
                    h.push(ep, format!("serr {ep} {sid} w"), sim::io_err_kind(&e));
                    return false;
                }
            }
        }
    }
    h.push(ep, format!("sd {ep} {sid}"), "ok".into());
    match w.shutdown().await {
        Ok(()) => {
            h.push(ep, format!("fin {ep} {sid}"), "ok".into());
            true
        }
        Err(e) => {
            h.push(ep, format!("serr {ep} {sid} fin"), sim::io_err_kind(&e));
            false
        }
    }
}

/// Read to EOF; monitor (a): everything read is a prefix of gen_bytes(key) and EOF only at `len`.
/// `echo`: write every chunk read back on `w` (server side of a bidi stream).
async fn read_all(h: &History, sh: &Shared, ep: &'static str, sid: u64, mut r: StreamReader, plan: &Plan, mut echo: Option<StreamWriter>) -> bool {
    let mut buf = vec![0u8; plan.read_buf];
    let mut nread = 0u64;
    let mut sums = Sums::new();
    loop {
        match r.read(&mut buf).await {
            Ok(0) => {
                h.push(ep, format!("eof {ep} {sid}"), "ok".into());
                if nread != plan.len as u64 {
                    fail(sh, "integrity:eof-before-end", format!("{ep} stream {sid}: EOF after {nread} bytes, peer wrote {}", plan.len));
                    return false;
                }
                sh.lock().unwrap().complete_dirs += 1;
                break;
            }
            Ok(n) => {
                let exp = gen_bytes(plan.key, nread, n);
                sums.feed(&buf[..n]);
                h.push(ep, format!("r {ep} {sid} {n}"), format!("a={} s={}", sums.a, sums.s));
                if nread + n as u64 > plan.len as u64 {
                    fail(sh, "integrity:stream-longer-than-written", format!("{ep} stream {sid}: read {} bytes, peer wrote only {}", nread + n as u64, plan.len));
                    return false;
                }
                if exp != buf[..n] {
                    let at = exp.iter().zip(&buf[..n]).position(|(a, b)| a != b).unwrap_or(0) as u64 + nread;
                    fail(sh, "integrity:stream-prefix", format!("{ep} stream {sid}: byte at offset {at} differs from what the peer wrote"));
                    return false;
                }
                nread += n as u64;
                if plan.read_pause_ms > 0 {
                    tokio::time::sleep(Duration::from_millis(plan.read_pause_ms)).await;
                }
                if let Some(w) = echo.as_mut() {
                    let mut done = 0;
                    while done < n {
                        match AsyncWriteExt::write(w, &buf[done..n]).await {
                            Ok(0) => {
                                h.push(ep, format!("serr {ep} {sid} w"), "io:WriteZero".into());
                                return false;
                            }
                            Ok(k) => {
                                h.push(ep, format!("w {ep} {sid} {k}"), "ok".into());
                                done += k;
                            }
                            Err(e) => {
                                h.push(ep, format!("serr {ep} {sid} w"), sim::io_err_kind(&e));
                                return false;
                            }
                        }
                    }
                }
            }
            Err(e) => {
                h.push(ep, format!("serr {ep} {sid} r"), sim::io_err_kind(&e));
                return false;
            }
        }
    }
    if let Some(mut w) = echo {
        h.push(ep, format!("sd {ep} {sid}"), "ok".into());
        match w.shutdown().await {
            Ok(()) => h.push(ep, format!("fin {ep} {sid}"), "ok".into()),
            Err(e) => {
                h.push(ep, format!("serr {ep} {sid} fin"), sim::io_err_kind(&e));
                return false;
            }
        }
    }
    true
}

fn find<'a>(plans: &'a [Plan], sid: u64) -> Option<&'a Plan> {
    plans.iter().find(|p| p.sid == sid)
}

async fn client_app(h: History, sh: Shared, conn: Connection, plans: Arc<Vec<Plan>>) -> bool {
    let mut tasks = tokio::task::JoinSet::new();
    for p in plans.iter().cloned() {
        match p.kind {
            Kind::BidiEcho => match conn.open_bi_stream().await {
                Ok(Some((sid, (r, w)))) => {
                    let sid = sid_num(sid);
                    h.push("c", format!("open c {sid} {}", p.key), "ok".into());
                    if sid != p.sid {
                        fail(&sh, "harness:sid-plan", format!("bidi sid {sid} != planned {}", p.sid));
                    }
                    let (h1, h2, sh2, p1, p2) = (h.clone(), h.clone(), sh.clone(), p.clone(), p.clone());
                    tasks.spawn(async move { write_all(&h1, "c", sid, w, &p1).await });
                    tasks.spawn(async move { read_all(&h2, &sh2, "c", sid, r, &p2, None).await });
                }
                Ok(None) => {
                    h.push("c", format!("serr c {} open", p.sid), "limit".into());
                    return false;
                }
                Err(e) => {
                    h.push("c", format!("serr c {} open", p.sid), sim::err_kind(&e));
                    return false;
                }
            },
            Kind::UniC2S => match conn.open_uni_stream().await {
                Ok(Some((sid, w))) => {
                    let sid = sid_num(sid);
                    h.push("c", format!("open c {sid} {}", p.key), "ok".into());
                    let (h1, p1) = (h.clone(), p.clone());
                    tasks.spawn(async move { write_all(&h1, "c", sid, w, &p1).await });
                }
                Ok(None) => {
                    h.push("c", format!("serr c {} open", p.sid), "limit".into());
                    return false;
                }
                Err(e) => {
                    h.push("c", format!("serr c {} open", p.sid), sim::err_kind(&e));
                    return false;
                }
            },
            Kind::UniS2C => {}
        }
    }
    let n_s2c = plans.iter().filter(|p| p.kind == Kind::UniS2C).count();
    for _ in 0..n_s2c {
        match conn.accept_uni_stream().await {
            Ok((sid, r)) => {
                let sid = sid_num(sid);
                h.push("c", format!("accept c {sid}"), "ok".into());
                let Some(p) = find(&plans, sid).cloned() else {
                    fail(&sh, "integrity:unopened-stream-accepted", format!("client accepted uni stream {sid} that the server never opened"));
                    return false;
                };
                let (h2, sh2) = (h.clone(), sh.clone());
                tasks.spawn(async move { read_all(&h2, &sh2, "c", sid, r, &p, None).await });
            }
            Err(e) => {
                h.push("c", "serr c - accept".into(), sim::err_kind(&e));
                return false;
            }
        }
    }
    let mut ok = true;
    while let Some(r) = tasks.join_next().await {
        ok &= r.unwrap_or(false);
    }
    ok
}

async fn server_conn(h: History, sh: Shared, conn: Connection, plans: Arc<Vec<Plan>>) -> bool {
    let mut tasks = tokio::task::JoinSet::new();
    // server-opened uni streams
    for p in plans.iter().filter(|p| p.kind == Kind::UniS2C).cloned() {
        match conn.open_uni_stream().await {
            Ok(Some((sid, w))) => {
                let sid = sid_num(sid);
                h.push("s", format!("open s {sid} {}", p.key), "ok".into());
                let h1 = h.clone();
                tasks.spawn(async move { write_all(&h1, "s", sid, w, &p).await });
            }
            Ok(None) => {
                h.push("s", format!("serr s {} open", p.sid), "limit".into());
                return false;
            }
            Err(e) => {
                h.push("s", format!("serr s {} open", p.sid), sim::err_kind(&e));
                return false;
            }
        }
    }
    let n_bi = plans.iter().filter(|p| p.kind == Kind::BidiEcho).count();
    let n_uni = plans.iter().filter(|p| p.kind == Kind::UniC2S).count();
    {
        let (h, sh, conn, plans) = (h.clone(), sh.clone(), conn.clone(), plans.clone());
        tasks.spawn(async move {
            let mut inner = tokio::task::JoinSet::new();
            for _ in 0..n_bi {
                match conn.accept_bi_stream().await {
                    Ok((sid, (r, w))) => {
                        let sid = sid_num(sid);
                        h.push("s", format!("accept s {sid}"), "ok".into());
                        let Some(p) = find(&plans, sid).cloned() else {
                            fail(&sh, "integrity:unopened-stream-accepted", format!("server accepted bidi stream {sid} that the client never opened"));
                            return false;
                        };
                        let (h2, sh2) = (h.clone(), sh.clone());
                        inner.spawn(async move { read_all(&h2, &sh2, "s", sid, r, &p, Some(w)).await });
                    }
                    Err(e) => {
                        h.push("s", "serr s - accept".into(), sim::err_kind(&e));
                        return false;
                    }
                }
            }
            let mut ok = true;
            while let Some(r) = inner.join_next().await {
                ok &= r.unwrap_or(false);
            }
            ok
        });
    }
    {
        let (h, sh, conn, plans) = (h.clone(), sh.clone(), conn.clone(), plans.clone());
        tasks.spawn(async move {
            let mut inner = tokio::task::JoinSet::new();
            for _ in 0..n_uni {
                match conn.accept_uni_stream().await {
                    Ok((sid, r)) => {
                        let sid = sid_num(sid);
                        h.push("s", format!("accept s {sid}"), "ok".into());
                        let Some(p) = find(&plans, sid).cloned() else {
                            fail(&sh, "integrity:unopened-stream-accepted", format!("server accepted uni stream {sid} that the client never opened"));
                            return false;
                        };
                        let (h2, sh2) = (h.clone(), sh.clone());
                        inner.spawn(async move { read_all(&h2, &sh2, "s", sid, r, &p, None).await });
                    }
                    Err(e) => {
                        h.push("s", "serr s - accept".into(), sim::err_kind(&e));
                        return false;
                    }
                }
            }
            let mut ok = true;
            while let Some(r) = inner.join_next().await {
                ok &= r.unwrap_or(false);
            }
            ok
        });
    }
    let mut ok = true;
    while let Some(r) = tasks.join_next().await {
        ok &= r.unwrap_or(false);
    }
    ok
}

/// Application of endpoint `ep` for workloads with MORE streams than the peer's stream limit (`c02_small`): opening
/// (which waits for MAX_STREAMS), accepting and the transfers all run concurrently, so that the harness itself can
/// never deadlock on "open the next stream" vs "accept / finish the previous ones".
async fn ep_app(ep: &'static str, h: History, sh: Shared, conn: Connection, plans: Arc<Vec<Plan>>) -> bool {
    let mine = move |p: &Plan| if ep == "c" { p.kind != Kind::UniS2C } else { p.kind == Kind::UniS2C };
    let mut tasks = tokio::task::JoinSet::new();
    {
        let (h, sh, conn, plans) = (h.clone(), sh.clone(), conn.clone(), plans.clone());
        tasks.spawn(async move {
            let mut inner = tokio::task::JoinSet::new();
            for p in plans.iter().filter(|p| mine(p)).cloned() {
                if p.kind == Kind::BidiEcho {
                    match conn.open_bi_stream().await {
                        Ok(Some((sid, (r, w)))) => {
                            let sid = sid_num(sid);
                            h.push(ep, format!("open {ep} {sid} {}", p.key), "ok".into());
                            if sid != p.sid {
                                fail(&sh, "harness:sid-plan", format!("bidi sid {sid} != planned {}", p.sid));
                            }
                            let (h1, h2, sh2, p1, p2) = (h.clone(), h.clone(), sh.clone(), p.clone(), p.clone());
                            inner.spawn(async move { write_all(&h1, ep, sid, w, &p1).await });
                            inner.spawn(async move { read_all(&h2, &sh2, ep, sid, r, &p2, None).await });
                        }
                        Ok(None) => {
                            h.push(ep, format!("serr {ep} {} open", p.sid), "limit".into());
                            return false;
                        }
                        Err(e) => {
                            h.push(ep, format!("serr {ep} {} open", p.sid), sim::err_kind(&e));
                            return false;
                        }
                    }
                } else {
                    match conn.open_uni_stream().await {
                        Ok(Some((sid, w))) => {
                            let sid = sid_num(sid);
                            h.push(ep, format!("open {ep} {sid} {}", p.key), "ok".into());
                            if sid != p.sid {
                                fail(&sh, "harness:sid-plan", format!("uni sid {sid} != planned {}", p.sid));
                            }
                            let (h1, p1) = (h.clone(), p.clone());
                            inner.spawn(async move { write_all(&h1, ep, sid, w, &p1).await });
                        }
                        Ok(None) => {
                            h.push(ep, format!("serr {ep} {} open", p.sid), "limit".into());
                            return false;
                        }
                        Err(e) => {
                            h.push(ep, format!("serr {ep} {} open", p.sid), sim::err_kind(&e));
                            return false;
                        }
                    }
                }
            }
            let mut ok = true;
            while let Some(r) = inner.join_next().await {
                ok &= r.unwrap_or(false);
            }
            ok
        });
    }
    let n_bi = if ep == "s" { plans.iter().filter(|p| p.kind == Kind::BidiEcho).count() } else { 0 };
    let n_uni = plans.iter().filter(|p| if ep == "s" { p.kind == Kind::UniC2S } else { p.kind == Kind::UniS2C }).count();
    if n_bi > 0 {
        let (h, sh, conn, plans) = (h.clone(), sh.clone(), conn.clone(), plans.clone());
        tasks.spawn(async move {
            let mut inner = tokio::task::JoinSet::new();
            for _ in 0..n_bi {
                match conn.accept_bi_stream().await {
                    Ok((sid, (r, w))) => {
                        let sid = sid_num(sid);
                        h.push(ep, format!("accept {ep} {sid}"), "ok".into());
                        let Some(p) = find(&plans, sid).cloned() else {
                            fail(&sh, "integrity:unopened-stream-accepted", format!("{ep} accepted bidi stream {sid} that the peer never opened"));
                            return false;
                        };
                        let (h2, sh2) = (h.clone(), sh.clone());
                        inner.spawn(async move { read_all(&h2, &sh2, ep, sid, r, &p, Some(w)).await });
                    }
                    Err(e) => {
                        h.push(ep, format!("serr {ep} - accept"), sim::err_kind(&e));
                        return false;
                    }
                }
            }
            let mut ok = true;
            while let Some(r) = inner.join_next().await {
                ok &= r.unwrap_or(false);
            }
            ok
        });
    }
    if n_uni > 0 {
        let (h, sh, conn, plans) = (h.clone(), sh.clone(), conn.clone(), plans.clone());
        tasks.spawn(async move {
            let mut inner = tokio::task::JoinSet::new();
            for _ in 0..n_uni {
                match conn.accept_uni_stream().await {
                    Ok((sid, r)) => {
                        let sid = sid_num(sid);
                        h.push(ep, format!("accept {ep} {sid}"), "ok".into());
                        let Some(p) = find(&plans, sid).cloned() else {
                            fail(&sh, "integrity:unopened-stream-accepted", format!("{ep} accepted uni stream {sid} that the peer never opened"));
                            return false;
                        };
                        let (h2, sh2) = (h.clone(), sh.clone());
                        inner.spawn(async move { read_all(&h2, &sh2, ep, sid, r, &p, None).await });
                    }
                    Err(e) => {
                        h.push(ep, format!("serr {ep} - accept"), sim::err_kind(&e));
                        return false;
                    }
                }
            }
            let mut ok = true;
            while let Some(r) = inner.join_next().await {
                ok &= r.unwrap_or(false);
            }
            ok
        });
    }
    let mut ok = true;
    while let Some(r) = tasks.join_next().await {
        ok &= r.unwrap_or(false);
    }
    ok
}

// ---------------------------------------------------------------------------------------------
// one case
// ---------------------------------------------------------------------------------------------

pub(crate) struct CaseResult {
    pub(crate) evs: Vec<sim::Ev>,
    pub(crate) fails: Vec<(String, String)>,
    /// both applications finished all planned transfers without any error
    pub(crate) complete: bool,
    pub(crate) client_done: Option<bool>,
    pub(crate) server_done: Option<bool>,
    pub(crate) server_saw_conn: bool,
    pub(crate) term_c: Option<String>,
    pub(crate) term_s: Option<String>,
    /// full text of the terminal errors (for the report only, never compared)
    pub(crate) term_detail: Vec<String>,
    pub(crate) counts: std::collections::BTreeMap<&'static str, u64>,
    pub(crate) virt_ms: u64,
    pub(crate) expected_dirs: u64,
    pub(crate) complete_dirs: u64,
    /// origin of `evs[..].t_us` on the clock of `sim::PktEv::at`
    pub(crate) hist_start: Option<tokio::time::Instant>,
}

/// Canonical application-level summary of a run (no timing, no chunk boundaries): per endpoint and stream the
/// bytes written / read, EOF, shutdown, stream errors; terminal error kinds; completion.
pub(crate) fn summary(r: &CaseResult) -> std::collections::BTreeMap<String, String> {
    let mut m = std::collections::BTreeMap::<String, u64>::new();
    let mut out = std::collections::BTreeMap::<String, String>::new();
    for ev in &r.evs {
        let t: Vec<&str> = ev.op.split(' ').collect();
        match t[0] {
            "w" | "r" => *m.entry(format!("{} {} {}", t[0], t[1], t[2])).or_insert(0) += t[3].parse::<u64>().unwrap_or(0),
            "eof" | "fin" | "sd" | "open" | "accept" | "close" => {
                out.insert(ev.op.clone(), "1".into());
            }
            "serr" | "term" => {
                out.insert(ev.op.clone(), ev.obs.clone());
            }
            _ => {}
        }
    }
    for (k, v) in m {
        out.insert(k, v.to_string());
    }
    out.insert("complete".into(), (r.complete as u8).to_string());
    out
}

pub(crate) fn expected_dirs(plans: &[Plan]) -> u64 {
    plans.iter().map(|p| if p.kind == Kind::BidiEcho { 2 } else { 1 }).sum()
}

async fn one_case(profile: Profile, adv_rng: Rng, plans: Vec<Plan>, idle: Duration, budget: Duration) -> CaseResult {
    one_case_cfg(profile, adv_rng, plans, idle, budget, PairCfg::default()).await
}

/// the same case with an explicit `PairCfg` (C20: a qlog collector installed on both endpoints)
pub(crate) async fn one_case_cfg(profile: Profile, adv_rng: Rng, plans: Vec<Plan>, idle: Duration, budget: Duration, cfg: PairCfg) -> CaseResult {
    one_case_adv(Box::new(FaultAdversary::new(adv_rng, profile)), plans, idle, budget, cfg.idle_timeout(idle), false).await
}

/// the same with ANY adversary and the `PairCfg` taken as it is (`idle` is only used for the close slack);
/// `concurrent` = the applications open / accept / transfer concurrently (`ep_app`; needed when the workload has more
/// streams than the peer's stream limit)
pub(crate) async fn one_case_adv(adversary: Box<dyn sim::Adversary>, plans: Vec<Plan>, idle: Duration, budget: Duration, cfg: PairCfg, concurrent: bool) -> CaseResult {
    let h = History::new();
    let sh: Shared = Arc::new(std::sync::Mutex::new(Check::default()));
    let plans = Arc::new(plans);
    let t0 = tokio::time::Instant::now();
    let pair = Pair::build(adversary, cfg).await;
    if std::env::var("GMQ_C02_DEBUG").is_ok() {
        pair.net.record(true);
    }

    let (term_s_tx, mut term_s_rx) = tokio::sync::mpsc::unbounded_channel::<String>();
    let (sdone_tx, sdone_rx) = tokio::sync::oneshot::channel::<bool>();
    let (saw_tx, mut saw_rx) = tokio::sync::mpsc::unbounded_channel::<()>();
    // server
    let server = {
        let (h, sh, plans, listeners) = (h.clone(), sh.clone(), plans.clone(), pair.listeners.clone());
        tokio::spawn(async move {
            let Ok((conn, _name, _pathway, _link)) = listeners.accept().await else { return };
            let _ = saw_tx.send(());
            {
                let (h, conn) = (h.clone(), conn.clone());
                tokio::spawn(async move {
                    let e = conn.terminated().await;
                    let k = sim::err_kind(&e);
                    h.push("s", "term s".into(), k.clone());
                    let _ = term_s_tx.send(format!("{k}|server: {e}"));
                });
            }
            let ok = if concurrent { ep_app("s", h, sh, conn, plans).await } else { server_conn(h, sh, conn, plans).await };
            let _ = sdone_tx.send(ok);
            // keep accepting (a second connection would be a finding of its own: nobody opens one)
            std::future::pending::<()>().await;
        })
    };

    // client
    let mut res = CaseResult {
        evs: vec![],
        fails: vec![],
        complete: false,
        client_done: None,
        server_done: None,
        server_saw_conn: false,
        term_c: None,
        term_s: None,
        term_detail: vec![],
        counts: Default::default(),
        virt_ms: 0,
        expected_dirs: expected_dirs(&plans),
        complete_dirs: 0,
        hist_start: Some(h.start()),
    };
    let conn = match pair.connect().await {
        Ok(c) => c,
        Err(e) => {
            res.fails.push(("harness:connect".into(), e));
            return res;
        }
    };
    let (term_c_tx, mut term_c_rx) = tokio::sync::mpsc::unbounded_channel::<String>();
    {
        let (h, conn) = (h.clone(), conn.clone());
        tokio::spawn(async move {
            let e = conn.terminated().await;
            let k = sim::err_kind(&e);
            h.push("c", "term c".into(), k.clone());
            let _ = term_c_tx.send(format!("{k}|client: {e}"));
        });
    }
    let deadline = t0 + budget;
    let capp = if concurrent {
        tokio::spawn(ep_app("c", h.clone(), sh.clone(), conn.clone(), plans.clone()))
    } else {
        tokio::spawn(client_app(h.clone(), sh.clone(), conn.clone(), plans.clone()))
    };
    // phase 1: both applications finish (ok or not) or the budget ends
    let both = async {
        let c = capp.await.unwrap_or(false);
        let s = sdone_rx.await.ok();
        (c, s)
    };
    match tokio::time::timeout_at(deadline, both).await {
        Ok((c, s)) => {
            res.client_done = Some(c);
            res.server_done = s;
        }
        Err(_) => {}
    }
    res.server_saw_conn = saw_rx.try_recv().is_ok();
    res.complete = res.client_done == Some(true) && res.server_done == Some(true);
    if res.complete {
        // orderly end: the client application closes, the server must learn it
        h.push("c", "close c".into(), "ok".into());
        let _ = conn.close("done", 0);
    }
    // phase 2: both sides learn the end of the connection (close, or failure within the budget)
    let slack = idle + Duration::from_secs(std::env::var("GMQ_C02_SLACK").ok().and_then(|v| v.parse().ok()).unwrap_or(5));
    let end = tokio::time::Instant::now().max(deadline.min(tokio::time::Instant::now() + slack)) ;
    let end = if res.complete { tokio::time::Instant::now() + slack } else { end.max(tokio::time::Instant::now() + Duration::from_millis(1)) };
    let _ = tokio::time::timeout_at(end, async {
        res.term_c = term_c_rx.recv().await;
        if res.server_saw_conn {
            res.term_s = term_s_rx.recv().await;
        }
    })
    .await;
    if res.term_c.is_none() {
        res.term_c = term_c_rx.try_recv().ok();
    }
    if res.term_s.is_none() {
        res.term_s = term_s_rx.try_recv().ok();
    }
    for t in [&mut res.term_c, &mut res.term_s] {
        if let Some(x) = t.clone() {
            if let Some((k, d)) = x.split_once('|') {
                res.term_detail.push(d.to_string());
                *t = Some(k.to_string());
            }
        }
    }
    server.abort();
    res.virt_ms = (tokio::time::Instant::now() - t0).as_millis() as u64;
    res.counts = pair.net.with_log(|l| l.counts.clone());
    if std::env::var("GMQ_C02_DEBUG").is_ok() {
        for ev in h.take() {
            if !ev.op.starts_with("r ") && !ev.op.starts_with("w ") {
                eprintln!("t={:>9}us {} => {}", ev.t_us, ev.op, ev.obs);
            }
        }
        pair.net.with_log(|l| {
            let mut buckets = std::collections::BTreeMap::<(u64, String, u8, usize), u64>::new();
            for r in &l.sent {
                *buckets.entry((r.t_us / 1_000_000, r.src.to_string(), r.data.first().copied().unwrap_or(0) & 0xf0, r.data.len() / 100 * 100)).or_insert(0) += 1;
            }
            for ((sec, src, fb, len), n) in buckets {
                eprintln!("wire sec={sec} src={src} first_byte&f0={fb:#x} len~{len} n={n}");
            }
        });
    }
    res.evs = h.take();
    let chk = sh.lock().unwrap();
    res.fails.extend(chk.fails.iter().cloned());
    res.complete_dirs = chk.complete_dirs;
    res
}

// ---------------------------------------------------------------------------------------------
// profiles
// ---------------------------------------------------------------------------------------------

fn bounded_profiles() -> Vec<Profile> {
    vec![
        Profile { name: "clean", bounded: true, ..Default::default() },
        Profile { name: "lossy", drop: 150, delay: 150, dup: 50, fault_window: Some(120), bounded: true, ..Default::default() },
        Profile { name: "reorder", delay: 400, dup: 100, fault_window: Some(200), bounded: true, ..Default::default() },
        Profile { name: "mangle", drop: 50, truncate: 60, corrupt: 80, delay: 100, dup: 50, replay: 50, fault_window: Some(100), bounded: true, ..Default::default() },
        Profile { name: "burst-loss", drop: 600, fault_window: Some(12), bounded: true, ..Default::default() },
    ]
}
fn unbounded_profiles(rng: &mut Rng) -> Vec<Profile> {
    vec![
        Profile { name: "blackhole", blackhole_after: Some(rng.range(0, 60)), ..Default::default() },
        Profile { name: "blackhole-lossy", drop: 100, delay: 100, blackhole_after: Some(rng.range(2, 200)), ..Default::default() },
        Profile { name: "corrupt-all", corrupt: 1000, ..Default::default() },
        Profile { name: "truncate-all", truncate: 1000, ..Default::default() },
    ]
}
fn inject_profiles() -> Vec<Profile> {
    vec![
        Profile { name: "inject-flip", inject_flip: 150, bounded: true, ..Default::default() },
        Profile { name: "inject-garbage", inject_garbage: 150, bounded: true, ..Default::default() },
        Profile { name: "inject-replay", replay: 200, dup: 100, bounded: true, ..Default::default() },
        Profile { name: "inject-mix", inject_flip: 80, inject_garbage: 80, replay: 80, bounded: true, ..Default::default() },
    ]
}

/// Terminal connection errors two honest endpoints may see whatever the network does:
/// an application close, or the loss of the (only) path by idle timeout / persistent loss.
pub(crate) fn allowed_term(kind: &str) -> bool {
    matches!(kind, "app" | "quic:Application" | "quic:NoViablePath" | "quic:None")
}

// ---------------------------------------------------------------------------------------------
// driver
// ---------------------------------------------------------------------------------------------

fn run_profiles(o: &Opts, inject_only: bool) {
    let mut sink = Sink::new_with_stats(&o.out, &o.stats);
    sink.set_hang_secs(150);
    let thorough = o.thorough();
    let ids: Vec<u64> = match o.only_case {
        Some(i) => vec![i],
        None => (0..o.cases).collect(),
    };
    let par = std::thread::available_parallelism().map(|n| n.get()).unwrap_or(4).min(6);
    let seed = o.seed;
    // run cases `par` at a time, write transcripts in case order
    let mut next = 0usize;
    while next < ids.len() {
        let batch: Vec<u64> = ids[next..(next + par).min(ids.len())].to_vec();
        next += batch.len();
        sink.pending(&format!("cases {:?}", batch));
        // a process abort (e.g. an allocation failure inside the stack) cannot be caught: name the cases that were running
        eprintln!("gmq-sim {}: running cases {:?} (re-run one with --only-case)", o.prop, batch);
        let handles: Vec<_> = batch
            .iter()
            .map(|&id| {
                std::thread::spawn(move || {
                    let mut rng = Rng::new(seed, id);
                    let plans = plan_streams(&mut rng, thorough);
                    let profile = if inject_only {
                        rng.pick(&inject_profiles()).clone()
                    } else if rng.chance(2, 3) {
                        rng.pick(&bounded_profiles()).clone()
                    } else {
                        let v = unbounded_profiles(&mut rng);
                        rng.pick(&v).clone()
                    };
                    let idle = if profile.bounded { Duration::from_secs(10) } else { Duration::from_secs(3) };
                    // blackhole: nothing arrives any more => told within idle timeout + slack; constant corruption /
                    // truncation: some (coalesced) packets survive, the connection may crawl => finished OR told in 120 s
                    let budget = if profile.bounded { Duration::from_secs(120) } else if profile.blackhole_after.is_none() { Duration::from_secs(30) } else { idle + Duration::from_secs(12) };
                    let adv_rng = Rng::new(seed ^ 0xADD, id);
                    let (p2, pl2) = (profile.clone(), plans.clone());
                    let out = sim::run_case(id, Duration::from_secs(120), move || one_case(p2, adv_rng, pl2, idle, budget));
                    // monitor (e), differential leg: the same seed and workload over the identity network
                    let base = if inject_only {
                        let pl3 = plans.clone();
                        let b = sim::run_case(id, Duration::from_secs(120), move || {
                            one_case(Profile { name: "clean", bounded: true, ..Default::default() }, Rng::new(seed ^ 0xADD, id), pl3, idle, budget)
                        });
                        b.result.map(|r| summary(&r))
                    } else {
                        None
                    };
                    (id, profile, plans, idle, out, base)
                })
            })
            .collect();
        for hnd in handles {
            let (id, profile, plans, idle, out, base) = hnd.join().expect("case thread");
            sink.case(&id.to_string());
            sink.branch(&format!("profile:{}", profile.name));
            sink.branch(&format!("streams:{}", plans.len()));
            for p in &plans {
                sink.branch(&format!("kind:{:?}", p.kind));
                sink.branch(match p.len { 0 => "len:0", 1..=1200 => "len:<=1200", 1201..=20000 => "len:<=20k", _ => "len:>20k" });
            }
            sink.line(&format!("cfg {} bounded={}", profile.name, profile.bounded as u8), "ok");
            for loc in &out.panics {
                sink.monitor_fail(&format!("panic:{loc}"), &format!("a thread/task of the connection panicked at {loc} (profile {})", profile.name));
            }
            if out.wall_hang {
                sink.monitor_fail("hang:wall-clock", &format!("case did not finish within 120 s of real time (busy loop or deadlock; profile {})", profile.name));
                sink.line("end", "complete=0 hang=1");
                continue;
            }
            let Some(r) = out.result else {
                sink.line("end", "complete=0 panicked=1");
                continue;
            };
            for ev in &r.evs {
                sink.line(&ev.op, &ev.obs);
            }
            for (k, w) in &r.fails {
                sink.monitor_fail(k, &format!("{w} (profile {})", profile.name));
            }
            // terminal errors: nothing but close / path loss may ever end a connection between honest endpoints
            for (ep, t) in [("client", &r.term_c), ("server", &r.term_s)] {
                if let Some(k) = t {
                    if !allowed_term(k) {
                        let key = if inject_only { format!("close-by-injected-datagram:{k}") } else { format!("close-by-network-fault:{k}") };
                        sink.monitor_fail(&key, &format!("{ep} connection was terminated with {k}: a transport error raised although both endpoints are honest (profile {}, faults {:?}; {:?})", profile.name, r.counts, r.term_detail));
                    }
                }
            }
            if let Some(b) = &base {
                let mine = summary(&r);
                if *b != mine {
                    let diff: Vec<String> = b.iter().filter(|(k, v)| mine.get(*k) != Some(*v)).map(|(k, v)| format!("{k}: {v} -> {}", mine.get(k).cloned().unwrap_or("-".into())))
                        .chain(mine.iter().filter(|(k, _)| !b.contains_key(*k)).map(|(k, v)| format!("{k}: - -> {v}"))).take(6).collect();
                    sink.monitor_fail("inject-changes-history", &format!("datagrams injected in addition to the untouched originals changed the application history (profile {}): {}", profile.name, diff.join("; ")));
                }
            }
            if profile.bounded && !out.panics.is_empty() {
                // consequences of the panic are not reported separately
            } else if profile.bounded {
                // (c) bounded faults => everything delivered, then orderly close seen by both
                if !r.complete {
                    let bad_term = [&r.term_c, &r.term_s].iter().any(|t| t.as_ref().is_some_and(|k| !allowed_term(k)));
                    if !bad_term {
                        sink.monitor_fail(
                            "liveness:bounded-faults-incomplete",
                            &format!("profile {}: after {} ms virtual the transfers were not complete (client_done={:?} server_done={:?} dirs {}/{} term_c={:?} term_s={:?} faults {:?})",
                                profile.name, r.virt_ms, r.client_done, r.server_done, r.complete_dirs, r.expected_dirs, r.term_c, r.term_s, r.counts),
                        );
                    }
                } else {
                    if r.complete_dirs != r.expected_dirs {
                        sink.monitor_fail("integrity:missing-stream-data", &format!("applications reported success but only {}/{} stream directions were fully read", r.complete_dirs, r.expected_dirs));
                    }
                    if r.term_s.is_none() || r.term_c.is_none() {
                        sink.monitor_fail("liveness:close-not-seen", &format!("after the client closed, term_c={:?} term_s={:?} within idle+5 s", r.term_c, r.term_s));
                    }
                }
            } else if !out.panics.is_empty() {
                // a panicked receive task explains everything that follows: report the panic only
            } else if profile.blackhole_after.is_none() {
                // constant corruption / truncation: some (coalesced) packets survive and keep the connection alive and
                // crawling; RFC 9000 has no bound for that.  Safety monitors only (properties.jsonl: "unbounded
                // profiles for the safety clause").
            } else {
                // (d) unbounded faults => both applications are told, within idle timeout + slack
                if !r.complete {
                    if r.term_c.is_none() {
                        sink.monitor_fail("liveness:client-not-told", &format!("profile {}: client connection neither completed nor failed within {} ms virtual (idle timeout {} s)", profile.name, r.virt_ms, idle.as_secs()));
                    }
                    if r.server_saw_conn && r.term_s.is_none() {
                        sink.monitor_fail("liveness:server-not-told", &format!("profile {}: server connection neither completed nor failed within {} ms virtual (idle timeout {} s)", profile.name, r.virt_ms, idle.as_secs()));
                    }
                }
            }
            sink.branch(if r.complete { "outcome:complete" } else { "outcome:failed" });
            if let Some(k) = &r.term_c { sink.branch(&format!("term_c:{k}")); }
            if let Some(k) = &r.term_s { sink.branch(&format!("term_s:{k}")); }
            for (k, v) in &r.counts {
                if !matches!(*k, "sent" | "sent_bytes" | "delivered") && *v > 0 {
                    sink.branch(&format!("fault:{k}"));
                }
            }
            if r.counts.get("sent").copied().unwrap_or(0) > 4 {
                sink.nontrivial();
            }
            let cs: Vec<String> = r.counts.iter().map(|(k, v)| format!("{k}={v}")).collect();
            sink.line("end", &format!("complete={} virt_ms={} {}", r.complete as u8, r.virt_ms, cs.join(" ")));
        }
    }
    for loc in sim::unattributed_panics() {
        sink.monitor_fail(&format!("panic:{loc}"), &format!("a thread outside any case panicked at {loc}"));
    }
    sink.finish(&o.stats, "non-trivial = more than 4 datagrams crossed the simulated network (handshake started)");
}

fn run_net(o: &Opts) {
    run_profiles(o, false)
}
fn run_inject(o: &Opts) {
    run_profiles(o, true)
}
